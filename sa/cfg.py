"""E4 statement-level control-flow graph for one function: if/elif/else, for, while, try/except/finally,
with, return, raise, conditional-expression statements; dominators, reachability, must-pass-through."""
from __future__ import annotations

import ast

from .report import norm


class Node:
    __slots__ = ("id", "stmt", "kind", "label", "handlers")

    def __init__(self, id_, stmt, kind, label=""):
        self.id = id_
        self.stmt = stmt
        self.kind = kind  # entry | exit | rexit | stmt | test | loop | handler | join
        self.label = label
        self.handlers = ()

    def __repr__(self):
        return f"<{self.id}:{self.kind}:{self.label or (norm(self.stmt)[:50] if self.stmt is not None else '')}>"


def may_raise(stmt) -> bool:
    """A statement may raise if it contains a call, a subscript load, an attribute of a non-self object...
    We use: contains a Call, a Subscript, or is a Raise/Assert."""
    if isinstance(stmt, (ast.Raise, ast.Assert)):
        return True
    for n in ast.walk(stmt):
        if isinstance(n, (ast.Call, ast.Subscript, ast.BinOp, ast.Await)):
            return True
    return False


class CFG:
    def __init__(self, fn: ast.FunctionDef, exc_edges=True):
        self.fn = fn
        self.nodes = []
        self.succ = {}
        self.pred = {}
        self.exc_succ = {}  # exceptional edges (subset of succ)
        self.exc_edges = exc_edges
        self.entry = self._new(None, "entry")
        self.exit = self._new(None, "exit")
        self.rexit = self._new(None, "rexit")
        self.by_stmt = {}
        ends = self._block(fn.body, [self.entry], handlers=[], loop=None, finals=[])
        for e in ends:
            self._edge(e, self.exit)
        self._dom = None

    # -- construction -----------------------------------------------------------------------------
    def _new(self, stmt, kind, label=""):
        n = Node(len(self.nodes), stmt, kind, label)
        self.nodes.append(n)
        self.succ[n.id] = set()
        self.pred[n.id] = set()
        self.exc_succ[n.id] = set()
        if stmt is not None and kind in ("stmt", "test", "loop"):
            self.by_stmt.setdefault(id(stmt), n)
        return n

    def _edge(self, a, b, exc=False):
        self.succ[a.id].add(b.id)
        self.pred[b.id].add(a.id)
        if exc:
            self.exc_succ[a.id].add(b.id)

    def _raise_targets(self, handlers):
        """Where an exception raised here goes: innermost handler group, else rexit."""
        if handlers:
            return handlers[-1]
        return [self.rexit]

    def _exc(self, n, handlers):
        for h in self._raise_targets(handlers):
            self._edge(n, h, exc=True)

    def _block(self, stmts, preds, handlers, loop, finals):
        cur = preds
        for st in stmts:
            cur = self._stmt(st, cur, handlers, loop, finals)
        return cur

    def _stmt(self, st, preds, handlers, loop, finals):
        if isinstance(st, ast.If):
            t = self._new(st, "test")
            for p in preds:
                self._edge(p, t)
            if may_raise(st.test) and self.exc_edges:
                self._exc(t, handlers)
            a = self._block(st.body, [t], handlers, loop, finals)
            b = self._block(st.orelse, [t], handlers, loop, finals) if st.orelse else [t]
            return a + b
        if isinstance(st, (ast.For, ast.While)):
            h = self._new(st, "loop")
            for p in preds:
                self._edge(p, h)
            if self.exc_edges:
                self._exc(h, handlers)
            brk = []
            body_end = self._block(st.body, [h], handlers, (h, brk), finals)
            for e in body_end:
                self._edge(e, h)
            out = [h] + brk
            if st.orelse:
                out = self._block(st.orelse, [h], handlers, loop, finals) + brk
            return out
        if isinstance(st, ast.Try):
            hnodes = []
            for hd in st.handlers:
                hn = self._new(hd, "handler", norm(hd.type) if hd.type is not None else "BaseException")
                hnodes.append(hn)
            entry = self._new(st, "join", "try")
            for p in preds:
                self._edge(p, entry)
            body_end = self._block(st.body, [entry], handlers + [hnodes] if hnodes else handlers, loop, finals)
            if st.orelse:
                body_end = self._block(st.orelse, body_end, handlers, loop, finals)
            ends = list(body_end)
            for hd, hn in zip(st.handlers, hnodes):
                ends += self._block(hd.body, [hn], handlers, loop, finals)
            if st.finalbody:
                ends = self._block(st.finalbody, ends, handlers, loop, finals)
            return ends
        if isinstance(st, ast.With):
            n = self._new(st, "stmt", "with")
            for p in preds:
                self._edge(p, n)
            if self.exc_edges:
                self._exc(n, handlers)
            return self._block(st.body, [n], handlers, loop, finals)
        if isinstance(st, ast.Expr) and isinstance(st.value, ast.IfExp):
            # `a() if c else b()` used as a statement
            t = self._new(st, "test")
            for p in preds:
                self._edge(p, t)
            outs = []
            for br in (st.value.body, st.value.orelse):
                e = ast.Expr(value=br)
                ast.copy_location(e, st)
                bn = self._new(e, "stmt")
                self._edge(t, bn)
                if self.exc_edges and may_raise(e):
                    self._exc(bn, handlers)
                outs.append(bn)
            return outs
        n = self._new(st, "stmt")
        for p in preds:
            self._edge(p, n)
        if isinstance(st, ast.Return):
            self._edge(n, self.exit)
            if self.exc_edges and st.value is not None and may_raise(st):
                self._exc(n, handlers)
            return []
        if isinstance(st, ast.Raise):
            self._exc(n, handlers)
            return []
        if isinstance(st, ast.Break) and loop:
            loop[1].append(n)
            return []
        if isinstance(st, ast.Continue) and loop:
            self._edge(n, loop[0])
            return []
        if self.exc_edges and may_raise(st):
            self._exc(n, handlers)
        return [n]

    # -- queries ----------------------------------------------------------------------------------
    def node_of(self, stmt):
        return self.by_stmt.get(id(stmt))

    def stmt_nodes(self):
        return [n for n in self.nodes if n.stmt is not None and n.kind in ("stmt", "test", "loop")]

    def reachable(self, src, avoid=(), normal_only=False):
        """Set of node ids reachable from src (excluding src unless on a cycle), never entering `avoid` ids."""
        seen = set()
        stack = [src.id if isinstance(src, Node) else src]
        first = True
        while stack:
            x = stack.pop()
            for y in self.succ[x]:
                if normal_only and y in self.exc_succ[x]:
                    continue
                if y in avoid or y in seen:
                    continue
                seen.add(y)
                stack.append(y)
        return seen

    def dominators(self):
        if self._dom is not None:
            return self._dom
        ids = [n.id for n in self.nodes]
        reach = self.reachable(self.entry) | {self.entry.id}
        dom = {i: set(reach) for i in reach}
        dom[self.entry.id] = {self.entry.id}
        changed = True
        while changed:
            changed = False
            for i in reach:
                if i == self.entry.id:
                    continue
                ps = [p for p in self.pred[i] if p in reach]
                new = set.intersection(*(dom[p] for p in ps)) if ps else set()
                new = new | {i}
                if new != dom[i]:
                    dom[i] = new
                    changed = True
        self._dom = dom
        return dom

    def dominates(self, a, b):
        """a dominates b: every path from entry to b passes a."""
        d = self.dominators()
        return b.id in d and a.id in d[b.id]

    def all_paths_pass(self, src, dst, pred):
        """Every path src ->* dst passes through a node satisfying pred (src and dst excluded)."""
        avoid = {n.id for n in self.nodes if pred(n)}
        avoid.discard(src.id)
        r = self.reachable(src, avoid=avoid)
        return dst.id not in r

    def exists_path(self, a, b, normal_only=False):
        return b.id in self.reachable(a, normal_only=normal_only)
