"""Verdict protocol (DESIGN.md section 1): OK / KNOWN-FINDING / VIOLATION / ANALYSIS-ERROR,
evidence writer, finding keys."""
from __future__ import annotations

import ast
import json
import os
import re
import sys
import time
from pathlib import Path

VERIF = Path(__file__).resolve().parent.parent
REPO = Path(os.environ.get("SA_REPO", "/repo"))
SRC = REPO / "src" / "basictdf"
KNOWN = VERIF / "known_findings.json"
OUT = Path(os.environ.get("SA_OUT", str(VERIF / "evidence")))


class AnalysisError(Exception):
    """The analyser cannot decide (vanished anchor, unmodelled statement, floor not met)."""


class DefiniteViolation(AnalysisError):
    """Raised where an engine has to stop AND what stopped it is itself a violation (a construct the property needs is
    definitely absent / definitely wrong, not merely spelled in a way the engine does not know): reported as a finding."""

    def __init__(self, rule, module, func, node, reason, construct=None, props=None):
        super().__init__(reason)
        self.rule, self.module, self.func, self.node, self.reason, self.construct = rule, module, func, node, reason, construct
        self.props = set(props) if props else None   # the properties it is a violation OF; for the others the engine is just stuck

    def report(self, rep):
        if self.props is None or rep.prop in self.props:
            rep.fail(self.rule, self.module, self.func, self.node, self.reason, construct=self.construct)
        elif str(self) not in rep.undecided:
            rep.undecided.append(str(self))


def norm(node) -> str:
    """Normalised construct text: ast.unparse with whitespace collapsed (never a line number)."""
    if node is None:
        return ""
    if isinstance(node, str):
        s = node
    else:
        try:
            s = ast.unparse(node)
        except Exception:
            s = repr(node)
    s = re.sub(r"\s+", " ", s).strip()
    if len(s) > 200:
        s = s[:200]
    return s


def head(node) -> str:
    """First line of a compound statement (so keys do not swallow whole bodies)."""
    if isinstance(node, (ast.If, ast.While)):
        return "if " + norm(node.test) if isinstance(node, ast.If) else "while " + norm(node.test)
    if isinstance(node, ast.For):
        return "for " + norm(node.target) + " in " + norm(node.iter)
    if isinstance(node, (ast.FunctionDef, ast.AsyncFunctionDef)):
        return "def " + node.name
    if isinstance(node, ast.ClassDef):
        return "class " + node.name
    if isinstance(node, ast.Try):
        return "try"
    if isinstance(node, ast.With):
        return "with " + ", ".join(norm(i.context_expr) for i in node.items)
    return norm(node)


class Finding:
    def __init__(self, prop, rule, module, func, construct, line, reason, detail=None):
        self.prop = prop
        self.rule = rule
        self.module = module
        self.func = func
        self.construct = construct
        self.line = line
        self.reason = reason
        self.detail = detail or {}

    @property
    def key(self):
        return f"{self.prop}|{self.rule}|{self.module}|{self.func}|{self.construct}"

    def as_json(self):
        return {
            "property": self.prop,
            "rule": self.rule,
            "module": self.module,
            "function": self.func,
            "construct": self.construct,
            "line_at_report": self.line,
            "reason": self.reason,
            "detail": self.detail,
            "key": self.key,
        }


def load_known():
    if not KNOWN.exists():
        return []
    data = json.loads(KNOWN.read_text())
    return data.get("known", [])


class Report:
    def __init__(self, prop: str, tier: str = "quick", only: str | None = None):
        self.prop = prop
        self.tier = tier
        self.only = only
        self.t0 = time.time()
        self.obligations = []  # dicts: rule, instance, ok, nontrivial
        self.findings: list[Finding] = []
        self.notes = []
        self.samples = []
        self.extra = {}
        self.floors = []  # (rule, found, floor)
        self.explanation = ""
        self.trusted = []
        self.not_decided = []
        self.assumptions = []
        self.undecided = []

    # -- obligations -------------------------------------------------------------------------
    def ok(self, rule, instance, nontrivial=False, sample=None):
        self.obligations.append({"rule": rule, "instance": instance, "ok": True, "nontrivial": bool(nontrivial)})
        if sample is not None and len(self.samples) < 12:
            self.samples.append({"rule": rule, "instance": instance, "discharge": sample})

    def fail(self, rule, module, func, node, reason, detail=None, construct=None, nontrivial=True):
        # a rule may attach a semantic construct to the node it reports (stable under re-spelling of the statement)
        c = construct if construct is not None else (getattr(node, "_sa_construct", None) or head(node))
        line = getattr(node, "lineno", 0) if node is not None and not isinstance(node, str) else 0
        f = Finding(self.prop, rule, module, func, norm(c), line, reason, detail)
        # one finding per key
        if all(x.key != f.key for x in self.findings):
            self.findings.append(f)
        self.obligations.append({"rule": rule, "instance": f"{module}:{func}: {norm(c)}", "ok": False, "nontrivial": bool(nontrivial)})

    def attempt(self, fn, *args, **kw):
        """Run one rule; if it cannot decide (AnalysisError) remember that instead of aborting the other rules.
        A definite violation found elsewhere is still reported (exit 1); with no violation the run is undecided (exit 2)."""
        try:
            return fn(*args, **kw)
        except DefiniteViolation as e:
            e.report(self)
            return None
        except AnalysisError as e:
            self.undecided.append(str(e))
            return None

    def note(self, text):
        if text not in self.notes:
            self.notes.append(text)

    def assume(self, text):
        if text not in self.assumptions:
            self.assumptions.append(text)

    def floor(self, rule, found, floor):
        self.floors.append((rule, found, floor))
        if found < floor:
            raise AnalysisError(
                f"rule {rule}: {found} instances found, floor confirmed by hand is {floor} "
                f"(an anchor vanished or the matcher no longer recognises the code)"
            )

    # -- finishing ----------------------------------------------------------------------------
    def finish(self) -> int:
        known = [k for k in load_known() if k.get("property") == self.prop]
        known_keys = {k["key"]: k for k in known}
        findings = self.findings
        if self.only:
            findings = [f for f in findings if f.key == self.only]
        new = [f for f in findings if f.key not in known_keys]
        old = [f for f in findings if f.key in known_keys]
        for n in self.notes:
            print(f"NOTE property={self.prop} {n}")
        for f in old:
            print(
                f"KNOWN-FINDING: property={self.prop} {f.rule} {f.module}:{f.func} "
                f"{known_keys[f.key].get('what', f.reason)}"
            )
        code = 0
        replay_dir = OUT / "replay"
        for i, f in enumerate(new):
            replay_dir.mkdir(parents=True, exist_ok=True)
            rp = replay_dir / f"{self.prop}-{i}.json"
            rp.write_text(json.dumps(f.as_json(), indent=1))
            print(f"VIOLATION property={self.prop} replay={rp}")
            print(f"  {f.module}:{f.line} rule={f.rule} in {f.func}: `{f.construct}` -- {f.reason}")
            code = 1
        n_ob = len(self.obligations)
        n_ok = sum(1 for o in self.obligations if o["ok"])
        for u in self.undecided:
            print(f"ANALYSIS-ERROR property={self.prop} {u}")
        if code == 0 and self.undecided:
            self.write_evidence(len(new), len(old), error="; ".join(self.undecided))
            return 2
        if code == 0:
            print(f"OK property={self.prop} obligations={n_ob} discharged={n_ok} known_findings={len(old)}")
        self.write_evidence(len(new), len(old), error="; ".join(self.undecided) if self.undecided else None)
        return code

    def write_evidence(self, n_viol, n_known, error=None):
        n_ob = len(self.obligations)
        n_ok = sum(1 for o in self.obligations if o["ok"])
        distinct_nt = len({(o["rule"], o["instance"]) for o in self.obligations if o["nontrivial"]})
        by_rule = {}
        for o in self.obligations:
            r = by_rule.setdefault(o["rule"], {"instances": 0, "discharged": 0})
            r["instances"] += 1
            r["discharged"] += 1 if o["ok"] else 0
        samples = list(self.samples)
        if not samples:
            samples = [o for o in self.obligations[:5]]
        cov = {
            "explanation": self.explanation or "static analysis of /repo/src/basictdf (see DESIGN.md)",
            "evaluations": n_ob,
            "distinct_nontrivial": distinct_nt,
            "rule": "one evaluation = one rule instance (obligation) instantiated on a construct of the current "
            "source tree; non-trivial = its discharge needed more than a presence test (symbolic "
            "normalisation, >=2 CFG paths, truth table with >=2 rows, def-use chain)",
            "obligations": n_ob,
            "discharged": n_ok,
            "samples": samples,
            "rules": by_rule,
            "instance_floors": [{"rule": r, "found": f, "floor": fl} for r, f, fl in self.floors],
            "findings": [f.as_json() for f in self.findings],
            "known_findings_reported": n_known,
            "notes": self.notes,
            "trusted_base": self.trusted,
            "not_decided": self.not_decided,
            "checker_cmd": f"./check {self.prop} {self.tier}",
        }
        cov.update(self.extra)
        if error:
            cov["analysis_error"] = error
        ev = {
            "property_id": self.prop,
            "tier": self.tier,
            "seed": int(os.environ.get("VERIF_SEED", "0") or 0),
            "level": "other",
            "coverage": cov,
            "assumptions": self.assumptions,
            "wall_s": round(time.time() - self.t0, 3),
            "violations": n_viol,
        }
        d = OUT
        d.mkdir(parents=True, exist_ok=True)
        (d / f"{self.prop}.json").write_text(json.dumps(ev, indent=1, default=str))
