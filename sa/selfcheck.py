"""setup_cmd: nothing to build. Parses the package, imports every rule module, runs the embedded positive
examples of the zero-match rules (a matcher that cannot see its own example is broken)."""
from __future__ import annotations

import importlib
import sys
from pathlib import Path

from .index import Program
from .report import AnalysisError


def main():
    try:
        prog = Program()
    except AnalysisError as e:
        print(f"SELF-CHECK: cannot parse package: {e}")
        return 2
    print("SELF-CHECK parsed", prog.stats())
    n = 0
    bad = 0
    for p in sorted((Path(__file__).parent / "rules").glob("c*.py")):
        mod = importlib.import_module(f"sa.rules.{p.stem}")
        n += 1
        if hasattr(mod, "self_check"):
            try:
                mod.self_check()
                print(f"SELF-CHECK {p.stem}: embedded examples ok")
            except Exception as e:  # noqa
                print(f"SELF-CHECK {p.stem}: FAILED {type(e).__name__}: {e}")
                bad += 1
    print(f"SELF-CHECK rule modules imported: {n}, failures: {bad}")
    return 0 if bad == 0 else 2


if __name__ == "__main__":
    sys.exit(main())
