"""Staging arrays of the writers: a local array allocated with an explicit element type, filled by item stores and then handed to
`<codec>.bwrite`, carries each value through ITS element type before the codec sees it.  If that type is not the codec's scalar
type the values are converted twice, and a narrower or differently signed staging type wraps silently (numpy stores 256 into a
uint8 cell as 0): the field on disk then says something else than the object.  Rule: the explicit dtype of a staging array is the
scalar type of the codec it is written with (same kind, same width)."""
from __future__ import annotations

import ast

from .index import Program, parse_dtype_node, parse_dtype_string
from .report import AnalysisError, norm

NP_SCALARS = {"uint8": ("u", 1), "int8": ("i", 1), "uint16": ("u", 2), "int16": ("i", 2), "uint32": ("u", 4), "int32": ("i", 4), "uint64": ("u", 8), "int64": ("i", 8),
              "float16": ("f", 2), "float32": ("f", 4), "float64": ("f", 8), "single": ("f", 4), "double": ("f", 8), "ubyte": ("u", 1), "byte": ("i", 1),
              "ushort": ("u", 2), "short": ("i", 2), "uintc": ("u", 4), "intc": ("i", 4), "bool_": ("b", 1), "float_": ("f", 8), "int_": ("i", 8), "uint": ("u", 8)}
ALLOC = ("np.zeros", "np.empty", "np.ones", "np.full", "numpy.zeros", "numpy.empty", "numpy.ones", "numpy.full", "np.array", "np.asarray", "numpy.array", "numpy.asarray",
         "np.zeros_like", "np.empty_like", "np.full_like")
VIEWS = ("flatten", "ravel", "reshape", "T", "transpose", "copy", "squeeze")


def staging_dtypes(prog: Program, rep, rule="staging-dtype"):
    n = 0
    for m in prog.modules.values():
        for cls in m.classes.values():
            for f in cls.all_funcs():
                if f.name not in ("_write", "write", "bwrite") and not f.name.startswith("_write"):
                    continue
                fn = f.node
                binds = {}
                for st in ast.walk(fn):
                    if isinstance(st, ast.Assign) and len(st.targets) == 1 and isinstance(st.targets[0], ast.Name):
                        binds.setdefault(st.targets[0].id, []).append(st.value)
                for c in ast.walk(fn):
                    if not (isinstance(c, ast.Call) and isinstance(c.func, ast.Attribute) and c.func.attr in ("bwrite", "write") and isinstance(c.func.value, ast.Name) and len(c.args) >= 1):
                        continue
                    cod = prog.codec(m, c.func.value.id)
                    if cod is None or cod[1].kind == "V":
                        continue
                    v = c.args[-1]
                    while True:
                        if isinstance(v, ast.Call) and isinstance(v.func, ast.Attribute) and v.func.attr in VIEWS:
                            v = v.func.value
                        elif isinstance(v, ast.Attribute) and v.attr in VIEWS:
                            v = v.value
                        else:
                            break
                    if not (isinstance(v, ast.Name) and len(binds.get(v.id, [])) == 1):
                        continue
                    a = binds[v.id][0]
                    if not (isinstance(a, ast.Call) and norm(a.func) in ALLOC):
                        continue
                    dt = next((k.value for k in a.keywords if k.arg == "dtype"), None)
                    if dt is None:
                        continue
                    n += 1
                    got = None
                    if isinstance(dt, ast.Attribute) and isinstance(dt.value, ast.Name) and dt.value.id in ("np", "numpy") and dt.attr in NP_SCALARS:
                        got = NP_SCALARS[dt.attr]
                    elif isinstance(dt, ast.Name) and dt.id in ("int", "float", "bool", "object"):
                        got = {"int": ("i", 8), "float": ("f", 8), "bool": ("b", 1), "object": ("O", 0)}[dt.id]
                    else:
                        try:
                            d = parse_dtype_node(dt, btype=lambda nm: (prog.codec(m, nm) or (None, None))[1])
                            got = (d.kind, d.size) if d is not None and d.kind != "V" else None
                        except AnalysisError:
                            got = None
                    want = (cod[1].kind, cod[1].size)
                    where = f"{cls.name}.{f.name}"
                    if got is None:
                        raise AnalysisError(f"{where}: element type `{norm(dt)}` of the staging array `{v.id}` is not understood")
                    if got == want:
                        rep.ok(rule, f"{where}: staging array `{v.id}` has the scalar type of {c.func.value.id} ({want[0]}{want[1]})", nontrivial=True)
                    else:
                        rep.fail(rule, m.path.name, where, a,
                                 f"the staging array `{v.id}` is allocated as {got[0]}{got[1]} (`{norm(dt)}`) but written with {c.func.value.id} ({want[0]}{want[1]}): values pass through the "
                                 f"staging type first, where what does not fit wraps or is rounded silently; the field on disk then differs from the object",
                                 construct=f"{where} staging {v.id}")
    rep.floor(rule, n, 1)


def constructor_dtypes(prog: Program, cd, rep, rule="staging-dtype"):
    """A constructor that converts an argument to an explicit element type before storing it (`self.a = np.asarray(x, dtype=T)`,
    `np.array(x, dtype=T)`, `x.astype(T)`) puts every value through T - on construction and on decoding, since decoders build
    through the constructor.  When the writer stores that attribute with a codec of another scalar type, values that T cannot hold
    are altered before they reach the file and after they were read from it (a float64 field held as float32 loses 29 mantissa
    bits, silently).  T must be the scalar type of the field's codec."""
    from .facts import init_summary  # noqa: F401  (kept for symmetry with the other constructor rules)
    from .layout import Field, walk_terms
    n = 0
    for u in cd.units.values():
        c = u.cls
        init = c.get("__init__") if c is not None else None
        if init is None or u.wterms is None:
            continue
        stored = {}
        for t in walk_terms(u.wterms):
            if isinstance(t, Field) and t.role == "data" and t.value is not None and t.dt.kind in ("i", "u", "f"):
                v = t.value
                if isinstance(v, ast.Attribute) and isinstance(v.value, ast.Name) and v.value.id == "self":
                    stored.setdefault(v.attr, t.dt)
        sn = init.self_name or "self"
        btype = lambda nm, _m=c.module: (prog.codec(_m, nm) or (None, None))[1]
        # a conversion TO a sub-array dtype (`x.astype(VEC3F.btype)`, `np.asarray(x, dtype=VEC3F.btype)` - the `.base` forgotten)
        # appends the dtype's shape to the array: a (3,) vector becomes (3, 3), and the record is written longer than nBytes says
        for v in ast.walk(init.node):
            d_ = None
            if isinstance(v, ast.Call) and norm(v.func) in ("np.array", "np.asarray", "numpy.array", "numpy.asarray", "np.ascontiguousarray"):
                d_ = next((k.value for k in v.keywords if k.arg == "dtype"), v.args[1] if len(v.args) > 1 else None)
            elif isinstance(v, ast.Call) and isinstance(v.func, ast.Attribute) and v.func.attr == "astype" and v.args:
                d_ = v.args[0]
            if isinstance(d_, ast.Attribute) and d_.attr == "btype" and isinstance(d_.value, ast.Name):
                dt_ = btype(d_.value.id)
                if dt_ is not None and tuple(getattr(dt_, "shape", ()) or ()) and dt_.kind != "V":
                    rep.fail(rule, c.module.path.name, f"{c.name}.__init__", v, f"`{norm(v)[:70]}` converts to the sub-array type of {d_.value.id} (shape {tuple(dt_.shape)}), which appends that shape to the array: an argument of "
                             f"exactly the required shape is stored with one dimension more and encodes to more bytes than nBytes declares (the scalar type is `{d_.value.id}.btype.base`)",
                             construct=f"{c.name}.__init__ converts to sub-array dtype {d_.value.id}.btype")
        for st in ast.walk(init.node):
            if not (isinstance(st, ast.Assign) and len(st.targets) == 1 and isinstance(st.targets[0], ast.Attribute) and isinstance(st.targets[0].value, ast.Name)
                    and st.targets[0].value.id == sn and st.targets[0].attr in stored):
                continue
            dts = []
            for v in ast.walk(st.value):
                if isinstance(v, ast.Call) and norm(v.func) in ("np.array", "np.asarray", "numpy.array", "numpy.asarray", "np.ascontiguousarray"):
                    d_ = next((k.value for k in v.keywords if k.arg == "dtype"), v.args[1] if len(v.args) > 1 else None)
                    if d_ is not None:
                        dts.append(d_)
                elif isinstance(v, ast.Call) and isinstance(v.func, ast.Attribute) and v.func.attr == "astype" and v.args:
                    dts.append(v.args[0])
            for d_ in dts:
                n += 1
                got = None
                if isinstance(d_, ast.Attribute) and isinstance(d_.value, ast.Name) and d_.value.id in ("np", "numpy") and d_.attr in NP_SCALARS:
                    got = NP_SCALARS[d_.attr]
                elif isinstance(d_, ast.Name) and d_.id in ("int", "float"):
                    got = {"int": ("i", 8), "float": ("f", 8)}[d_.id]
                else:
                    try:
                        dd = parse_dtype_node(d_, btype=btype)
                        got = (dd.kind, dd.size) if dd is not None and dd.kind != "V" else None
                    except AnalysisError:
                        got = None
                if got is None:
                    continue
                want = stored[st.targets[0].attr]
                where = f"{c.name}.__init__"
                if got == (want.kind, want.size):
                    rep.ok(rule, f"{where}: `{st.targets[0].attr}` is held as {got[0]}{got[1]}, the type it is written in", nontrivial=True)
                else:
                    rep.fail(rule, c.module.path.name, where, st, f"`{st.targets[0].attr}` is converted to {got[0]}{got[1]} (`{norm(d_)}`) by the constructor but the record stores it as "
                             f"{want.kind}{want.size}: every value passes through the narrower / other type on construction and on decoding, so stored numbers come back (and go out) altered",
                             construct=f"{where} converts {st.targets[0].attr}")
    rep.floor(rule + "/constructor", n, 1)
