"""Toolkit for the rules over the container class `Tdf` (basictdf.py): effect classification of
statements, entry aliasing, slot geometry, position tracking on the CFG."""
from __future__ import annotations

import ast

from . import facts
from .cfg import CFG, Node
from .index import FuncInfo, Program, is_self_attr, walk_no_nested
from .layout import Field, Rep, Str, Date, Raw, header_unit, find_units, interpret_unit, walk_terms
from .poly import Poly
from .report import AnalysisError, head, norm
from .sym import C, N, Ctx, canon, equal, simplify, subst, to_poly

MUTATORS = ("add_block", "remove_block", "replace_block")


class Ev:
    """One classified effect inside a function."""

    def __init__(self, kind, node: Node, stmt, call=None, **kw):
        self.kind = kind
        self.node = node
        self.stmt = stmt
        self.call = call
        self.__dict__.update(kw)

    def __repr__(self):
        return f"Ev({self.kind}, {norm(head(self.stmt))[:60]})"


class FuncFacts:
    """CFG + classified events + entry aliases of one method of Tdf."""

    def __init__(self, ct: "Container", f: FuncInfo):
        self.ct = ct
        self.f = f
        self.cfg = CFG(f.node)
        self.events: list[Ev] = []
        self.entry_names = {}  # local name -> ('fresh', ctor call) | ('elem', how, index expr|None) | ('maybe-elem', ...)
        self.index_names = {}  # local name -> description of the entries index it denotes
        self.defs = {}  # local name -> [(value node, stmt)]
        self._scan()

    # ------------------------------------------------------------------------------ scanning
    def _scan(self):
        ct = self.ct
        fn = self.f.node
        # definitions and entry aliases
        for n in walk_no_nested(fn):
            # every other way a local gets a value is one more definition (so that it is not taken for its first assignment):
            # augmented assignment, annotated assignment, walrus, tuple / starred targets, loop / with / except targets, del
            if isinstance(n, ast.AugAssign) and isinstance(n.target, ast.Name):
                self.defs.setdefault(n.target.id, []).append((ast.BinOp(left=ast.Name(id=n.target.id, ctx=ast.Load()), op=n.op, right=n.value), n))
            elif isinstance(n, ast.AnnAssign) and isinstance(n.target, ast.Name) and n.value is not None:
                self.defs.setdefault(n.target.id, []).append((n.value, n))
            elif isinstance(n, ast.NamedExpr) and isinstance(n.target, ast.Name):
                self.defs.setdefault(n.target.id, []).append((n.value, n))
            elif isinstance(n, ast.Assign) and len(n.targets) > 1:
                for t_ in n.targets:
                    for y in ast.walk(t_):
                        if isinstance(y, ast.Name) and isinstance(y.ctx, ast.Store):
                            self.defs.setdefault(y.id, []).append((ast.Constant(value=Ellipsis), n))
            if isinstance(n, ast.Assign) and len(n.targets) == 1:
                t, v = n.targets[0], n.value
                if isinstance(t, ast.Name):
                    self.defs.setdefault(t.id, []).append((v, n))
                    if ct.is_entry_ctor(v):
                        self.entry_names[t.id] = ("fresh", v)
                    elif ct.is_entries_elem(v):
                        self.entry_names[t.id] = ("elem", "subscript", v.slice)
                    elif ct.is_next_over_entries(v):
                        self.entry_names[t.id] = ("elem", "next", None)
                elif isinstance(t, ast.Tuple) and len(t.elts) == 2 and all(isinstance(e, ast.Name) for e in t.elts) and isinstance(v, ast.Name) \
                        and len([1 for m in walk_no_nested(fn) if isinstance(m, ast.Assign) and len(m.targets) == 1 and isinstance(m.targets[0], ast.Name) and m.targets[0].id == v.id]) == 1 \
                        and any(isinstance(m, ast.Assign) and len(m.targets) == 1 and isinstance(m.targets[0], ast.Name) and m.targets[0].id == v.id and ct.is_next_over_entries(m.value, pair=True)
                                for m in walk_no_nested(fn)):
                    # found = next(((n, e) for n, e in enumerate(entries) if ..)); pos, entry = found
                    src = next(m for m in walk_no_nested(fn) if isinstance(m, ast.Assign) and len(m.targets) == 1 and isinstance(m.targets[0], ast.Name) and m.targets[0].id == v.id)
                    self.index_names[t.elts[0].id] = "index-of:" + t.elts[1].id
                    self.entry_names[t.elts[1].id] = ("elem", "next", N(t.elts[0].id))
                    self.defs.setdefault(t.elts[0].id, []).append((src.value, n))
                    self.defs.setdefault(t.elts[1].id, []).append((src.value, n))
                elif isinstance(t, ast.Tuple) and len(t.elts) == 2 and all(isinstance(e, ast.Name) for e in t.elts) and ct.is_next_over_entries(v, pair=True):
                    self.index_names[t.elts[0].id] = "index-of:" + t.elts[1].id
                    self.entry_names[t.elts[1].id] = ("elem", "next", N(t.elts[0].id))
                    self.defs.setdefault(t.elts[0].id, []).append((v, n))
                    self.defs.setdefault(t.elts[1].id, []).append((v, n))
            elif isinstance(n, ast.For):
                it = n.iter
                if isinstance(it, ast.Call) and norm(it.func) == "enumerate" and it.args and ct.is_entries_slice(it.args[0]) \
                        and isinstance(n.target, ast.Tuple) and len(n.target.elts) == 2:
                    sl = it.args[0]
                    start = next((k.value for k in it.keywords if k.arg == "start"), it.args[1] if len(it.args) > 1 else C(0))
                    lo = ct.slice_lower(sl)
                    iv, ev = n.target.elts
                    if isinstance(iv, ast.Name) and isinstance(ev, ast.Name):
                        self.entry_names[ev.id] = ("elem", "enumerate", N(iv.id))
                        self.index_names[iv.id] = ("enumerate", lo, start, n)
                elif ct.is_entries_slice(it) and isinstance(n.target, ast.Name):
                    self.entry_names[n.target.id] = ("elem", "for", None)
        # scratch buffers: name = BytesIO(); X._write(name)  ->  name holds exactly the serialisation of X
        self.buffers = {}  # buffer name -> object expression serialised into it (None if more than one write)
        bufnames = set()
        for n in walk_no_nested(fn):
            if isinstance(n, ast.Assign) and len(n.targets) == 1 and isinstance(n.targets[0], ast.Name) and isinstance(n.value, ast.Call) \
                    and norm(n.value.func) in ("BytesIO", "io.BytesIO") and not n.value.args:
                bufnames.add(n.targets[0].id)
        for n in walk_no_nested(fn):
            if isinstance(n, ast.Call) and isinstance(n.func, ast.Attribute) and n.args and isinstance(n.args[0], ast.Name) and n.args[0].id in bufnames:
                b = n.args[0].id
                if n.func.attr == "_write" and b not in self.buffers:
                    self.buffers[b] = n.func.value
                else:
                    self.buffers[b] = None
            if isinstance(n, ast.Call) and isinstance(n.func, ast.Attribute) and isinstance(n.func.value, ast.Name) and n.func.value.id in bufnames \
                    and n.func.attr in ("write", "seek", "truncate"):
                self.buffers[n.func.value.id] = None
        # events
        for cn in self.cfg.nodes:
            st = cn.stmt
            if st is None or cn.kind in ("handler", "join"):
                continue
            if cn.kind == "test":
                exprs = [st.test] if isinstance(st, ast.If) else ([st.value.test] if isinstance(st, ast.Expr) and isinstance(st.value, ast.IfExp) else [])
            elif cn.kind == "loop":
                exprs = [st.iter] if isinstance(st, ast.For) else [st.test]
            elif isinstance(st, ast.With):
                exprs = [i.context_expr for i in st.items]
            else:
                exprs = [st]
            for e in exprs:
                self._classify(cn, st, e)
        # removal by index (`del table[i]`, `table.pop(i)`) of the entry found together with that index is the removal of
        # that entry: normalise the event to carry the entry in .value and the index in .index
        for e in self.events:
            if e.kind == "table_remove":
                if e.how in ("del", "pop") and e.value is not None:
                    idx = e.value
                    if e.how == "pop" and isinstance(e.stmt, ast.Assign) and len(e.stmt.targets) == 1 and isinstance(e.stmt.targets[0], ast.Name) and e.stmt.value is e.call:
                        # removed = table.pop(i): the local IS the removed entry
                        self.entry_names[e.stmt.targets[0].id] = ("elem", "pop", idx)
                        e.index = idx
                        e.value = N(e.stmt.targets[0].id)
                        e.by_index = False
                        continue
                    ent = next((nm for nm, info in self.entry_names.items() if info[0] == "elem" and info[2] is not None and norm(info[2]) == norm(idx)
                                and info[1] in ("next", "subscript")), None)
                    e.index = idx
                    if ent is not None:
                        e.value = N(ent)
                        e.by_index = False
                    else:
                        e.by_index = True
                else:
                    e.by_index = False
                    # table.remove(table[i]) where a local names that element: the local is the removed entry
                    if isinstance(e.value, ast.Subscript) and self.ct.is_entries(e.value.value):
                        ent = next((nm for nm, info in self.entry_names.items() if info[0] == "elem" and info[2] is not None and norm(info[2]) == norm(e.value.slice)
                                    and info[1] in ("next", "subscript")), None)
                        if ent is not None:
                            e.value = N(ent)
                    info = self.entry_names.get(e.value.id) if isinstance(e.value, ast.Name) else None
                    e.index = info[2] if info and info[0] == "elem" else None
        self.events.sort(key=lambda e: (getattr(e.stmt, "lineno", 0), getattr(e.call, "col_offset", 0) if e.call is not None else 0))

    def _classify(self, cn, st, root):
        ct = self.ct
        if isinstance(st, ast.Raise) and root is st:
            exc = ""
            if st.exc is not None:
                e = st.exc.func if isinstance(st.exc, ast.Call) else st.exc
                exc = norm(e)
            self.events.append(Ev("raise", cn, st, exc=exc))
            return
        if isinstance(root, (ast.Assign, ast.AugAssign)):
            targets = root.targets if isinstance(root, ast.Assign) else [root.target]
            for t in targets:
                # self.entries[i] = e
                if isinstance(t, ast.Subscript) and ct.is_entries(t.value):
                    self.events.append(Ev("table_store", cn, st, index=t.slice, value=root.value))
                elif ct.is_entries(t):
                    self.events.append(Ev("table_rebind", cn, st, value=root.value))
                elif isinstance(t, ast.Attribute) and self.is_entry_expr(t.value):
                    self.events.append(Ev("field_assign", cn, st, entry=t.value, field=t.attr,
                                          op=type(root.op).__name__ if isinstance(root, ast.AugAssign) else "=", value=root.value))
                elif isinstance(t, ast.Attribute) and is_self_attr(t):
                    self.events.append(Ev("self_store", cn, st, attr=t.attr, value=root.value))
        if isinstance(root, ast.Delete):
            for t in root.targets:
                if isinstance(t, ast.Subscript) and ct.is_entries(t.value):
                    self.events.append(Ev("table_remove", cn, st, value=t.slice, how="del"))
        for c in [n for n in walk_no_nested(root) if isinstance(n, ast.Call)]:
            f = c.func
            if not isinstance(f, ast.Attribute):
                continue
            if ct.is_handle(f.value):
                if f.attr == "seek":
                    whence = c.args[1] if len(c.args) > 1 else next((k.value for k in c.keywords if k.arg == "whence"), C(0))
                    self.events.append(Ev("seek", cn, st, c, target=c.args[0] if c.args else None, whence=norm(whence)))
                elif f.attr == "write":
                    src = self.buffered_object(c.args[0]) if c.args else None
                    if src is not None and self.is_entry_expr(src):
                        self.events.append(Ev("entry_write", cn, st, c, entry=src, buffered=True))
                    elif src is not None:
                        self.events.append(Ev("block_write", cn, st, c, obj=src, buffered=True))
                    else:
                        self.events.append(Ev("raw_write", cn, st, c, value=c.args[0] if c.args else None))
                elif f.attr == "truncate":
                    self.events.append(Ev("truncate", cn, st, c, size=c.args[0] if c.args else None))
                elif f.attr == "flush":
                    self.events.append(Ev("flush", cn, st, c))
                elif f.attr in ("read", "readline", "readinto"):
                    self.events.append(Ev("read", cn, st, c, size=c.args[0] if c.args else None))
                elif f.attr == "close":
                    self.events.append(Ev("close", cn, st, c))
                elif f.attr in ("tell", "fileno", "seekable", "writable", "readable", "isatty"):
                    pass  # queries: they neither move the cursor nor change the file
                else:
                    self.events.append(Ev("handle_other", cn, st, c, meth=f.attr))
                continue
            if c.args and ct.is_handle(c.args[0]):
                if f.attr == "_write":
                    if self.is_entry_expr(f.value):
                        self.events.append(Ev("entry_write", cn, st, c, entry=f.value))
                    else:
                        self.events.append(Ev("block_write", cn, st, c, obj=f.value))
                elif f.attr in ("bwrite", "bpad"):
                    self.events.append(Ev("codec_write", cn, st, c))
                elif f.attr in ("_build", "bread", "skip"):
                    self.events.append(Ev("decode", cn, st, c, cls=f.value))
                else:
                    self.events.append(Ev("handle_passed", cn, st, c, meth=f.attr))
                continue
            if ct.is_entries(f.value):
                if f.attr in ("append", "insert", "extend"):
                    self.events.append(Ev("table_append", cn, st, c, value=c.args[-1] if c.args else None, how=f.attr))
                elif f.attr in ("remove", "pop", "clear"):
                    self.events.append(Ev("table_remove", cn, st, c, value=c.args[0] if c.args else None, how=f.attr))
                continue
            if isinstance(f.value, ast.Name) and f.value.id == "self" and f.attr in ct.method_names:
                self.events.append(Ev("self_call", cn, st, c, meth=f.attr))
                continue
        # property reads of self that are calls in disguise (has_x, blocks, ...)
        for n in walk_no_nested(root):
            if is_self_attr(n) and isinstance(n.ctx, ast.Load) and n.attr in ct.property_names:
                self.events.append(Ev("self_prop", cn, st, None, attr=n.attr))

    # ------------------------------------------------------------------------------ helpers
    def buffered_object(self, value):
        """If `value` is <buf>.getvalue() (directly or through a single-definition local) of a scratch buffer that holds
        exactly one serialisation X._write(buf), return X."""
        v = value
        if isinstance(v, ast.Name):
            d = self.defs.get(v.id, [])
            if len(d) == 1:
                v = d[0][0]
        if isinstance(v, ast.Call) and isinstance(v.func, ast.Attribute) and v.func.attr in ("getvalue", "getbuffer") and isinstance(v.func.value, ast.Name):
            return self.buffers.get(v.func.value.id)
        return None

    def is_entry_expr(self, node):
        if isinstance(node, ast.Name) and node.id in self.entry_names:
            return True
        if self.ct.is_entries_elem(node):
            return True
        return False

    def ev(self, *kinds):
        return [e for e in self.events if e.kind in kinds]

    def origins(self, name, _seen=None):
        """leaf defining expressions of a local, following plain name-to-name copies (all definitions, flow-insensitive)"""
        seen = _seen if _seen is not None else set()
        if name in seen:
            return []
        seen.add(name)
        out = []
        for v, st in self.defs.get(name, []):
            if isinstance(v, ast.Name) and v.id in self.defs:
                out += self.origins(v.id, seen)
            else:
                out.append((v, st))
        return out

    def expand_fresh(self, expr):
        """<fresh entry>.<field> -> the constructor argument that initialised it (fields of a freshly built entry that are never
        assigned afterwards), then single-definition locals"""
        ct = self.ct
        reassigned = {(norm(e.entry), e.field) for e in self.ev("field_assign")}
        ff = self

        class X(ast.NodeTransformer):
            def visit_Attribute(self, n):
                self.generic_visit(n)
                if isinstance(n.value, ast.Name) and isinstance(n.ctx, ast.Load):
                    info = ff.entry_names.get(n.value.id)
                    if info and info[0] == "fresh" and (n.value.id, n.attr) not in reassigned:
                        a = ct.entry_ctor_args(info[1]).get(n.attr)
                        if a is not None:
                            return copy.deepcopy(a)
                return n

        import copy
        e = X().visit(copy.deepcopy(expr))
        return self.resolve(e)

    def single_def(self, name):
        d = self.defs.get(name, [])
        return d[0] if len(d) == 1 else None

    def resolve(self, node, depth=0):
        """Substitute single-definition locals (pure expressions only)."""
        if depth > 6:
            return node
        env = {}
        for n in ast.walk(node):
            if isinstance(n, ast.Name) and n.id not in env:
                d = self.single_def(n.id)
                if d is not None and not any(isinstance(x, ast.Call) and norm(x.func) in ("next",) for x in ast.walk(d[0])) \
                        and n.id not in self.entry_names:
                    env[n.id] = self.resolve(d[0], depth + 1)
        return subst(node, env) if env else node

    def position_before(self, cn: Node):
        """Nearest position-changing events on every backward normal path from cn."""
        pos_kinds = ("seek", "raw_write", "entry_write", "block_write", "codec_write", "read", "truncate", "decode", "handle_passed")
        at = {}
        for e in self.events:
            if e.kind in pos_kinds:
                at.setdefault(e.node.id, []).append(e)
        found, seen, stack = [], set(), [cn.id]
        while stack:
            x = stack.pop()
            for p in self.cfg.pred[x]:
                if x in self.cfg.exc_succ[p]:
                    continue
                if p in seen:
                    continue
                seen.add(p)
                if p in at:
                    found.append(at[p][-1])
                    continue
                if p == self.cfg.entry.id:
                    found.append(None)
                    continue
                stack.append(p)
        return found


class Container:
    def __init__(self, prog: Program):
        self.prog = prog
        self.mod = prog.modules.get("basictdf")
        if self.mod is None:
            raise AnalysisError("anchor vanished: module basictdf.py")
        self.tdf = prog.need_cls("Tdf", "basictdf")
        self.entry_cls = prog.need_cls("TdfEntry", "basictdf")
        self.ctx = Ctx(prog, self.mod, self.tdf)
        self.handle = self._handle_attr()
        self.entries_attr = self._entries_attr()
        self.method_names = {n for n, fs in self.tdf.methods.items() if any(f.kind in ("method", "static", "classmethod") for f in fs)}
        self.property_names = {n for n, fs in self.tdf.methods.items() if any(f.kind == "getter" for f in fs)}
        self.HDR, self.ENT, self.NSLOTS = self._geometry()
        self._facts = {}

    # ------------------------------------------------------------------------------ anchors
    def _handle_attr(self):
        enter = self.prog.need_method(self.tdf, "__enter__")
        for n in walk_no_nested(enter.node):
            if isinstance(n, (ast.Assign, ast.AnnAssign)):
                v = n.value
                t = n.targets[0] if isinstance(n, ast.Assign) else n.target
                if isinstance(v, ast.Call) and isinstance(v.func, ast.Attribute) and v.func.attr == "open" and is_self_attr(t):
                    return t.attr
                # self.handler = h  where  h = <path>.open(..)
                if isinstance(v, ast.Name) and is_self_attr(t):
                    defs = [m for m in walk_no_nested(enter.node) if isinstance(m, ast.Assign) and len(m.targets) == 1 and isinstance(m.targets[0], ast.Name) and m.targets[0].id == v.id]
                    if len(defs) == 1 and isinstance(defs[0].value, ast.Call) and isinstance(defs[0].value.func, ast.Attribute) and defs[0].value.func.attr == "open":
                        return t.attr
        raise AnalysisError("anchor vanished: Tdf.__enter__ no longer assigns the handle from <path>.open(...)")

    def _entries_attr(self):
        enter = self.prog.need_method(self.tdf, "__enter__")
        for n in walk_no_nested(enter.node):
            if isinstance(n, ast.Assign) and len(n.targets) == 1 and is_self_attr(n.targets[0]):
                for c in ast.walk(n.value):
                    if isinstance(c, ast.Call) and norm(c.func) == "TdfEntry._build":
                        return n.targets[0].attr
        raise AnalysisError("anchor vanished: Tdf.__enter__ no longer builds the entry table from TdfEntry._build")

    def _geometry(self):
        """Header and entry sizes from the writers' layout terms (E2), not from the literals in the mutators."""
        hu = header_unit(self.prog)
        hdr = 0
        nslots = None
        for t in hu.wterms:
            if isinstance(t, Rep):
                if t.kind == "range":
                    nslots = self.ctx.const_int(ast.BinOp(left=t.hi, op=ast.Sub(), right=t.lo))
                break
            hdr += term_const_bytes(t, self.ctx) or 0
        eu = next((u for u in find_units(self.prog) if u.name == "TdfEntry"), None)
        if eu is None:
            raise AnalysisError("anchor vanished: TdfEntry codec unit")
        interpret_unit(self.prog, eu)
        ent = 0
        for t in eu.wterms:
            b = term_const_bytes(t, self.ctx)
            if b is None and isinstance(t, (Field, Str, Date, Raw)):
                raise AnalysisError("TdfEntry._write has a variable-width field")
            ent += b or 0
        self.header_unit = hu
        self.entry_unit = eu
        return hdr, ent, nslots

    def facts(self, name, kind=None) -> FuncFacts:
        key = (name, kind)
        if key not in self._facts:
            f = self.prog.need_method(self.tdf, name, kind)
            self._facts[key] = FuncFacts(self, f)
        return self._facts[key]

    def setters(self):
        return [f for f in self.tdf.all_funcs() if f.kind == "setter"]

    def all_facts(self):
        out = []
        for name, fs in self.tdf.methods.items():
            for f in fs:
                key = (name, f.kind)
                if key not in self._facts:
                    self._facts[key] = FuncFacts(self, f)
                out.append(self._facts[key])
        return out

    # ------------------------------------------------------------------------------ expression predicates
    def is_handle(self, node):
        return is_self_attr(node, self.handle)

    def is_entries(self, node):
        return is_self_attr(node, self.entries_attr)

    def is_entries_slice(self, node):
        if self.is_entries(node):
            return True
        return isinstance(node, ast.Subscript) and self.is_entries(node.value) and isinstance(node.slice, ast.Slice)

    def slice_lower(self, node):
        if self.is_entries(node):
            return C(0)
        return node.slice.lower if node.slice.lower is not None else C(0)

    def is_entries_elem(self, node):
        return isinstance(node, ast.Subscript) and self.is_entries(node.value) and not isinstance(node.slice, ast.Slice)

    def is_entry_ctor(self, node):
        return isinstance(node, ast.Call) and isinstance(node.func, ast.Name) and node.func.id == self.entry_cls.name

    def is_next_over_entries(self, node, pair=False):
        """next(<generator over self.entries / enumerate(self.entries)> [, default])"""
        if not (isinstance(node, ast.Call) and norm(node.func) == "next" and node.args):
            return False
        g = node.args[0]
        if not isinstance(g, (ast.GeneratorExp, ast.ListComp)):
            return False
        it = g.generators[0].iter
        if pair:
            return isinstance(it, ast.Call) and norm(it.func) == "enumerate" and it.args and self.is_entries(it.args[0])
        return self.is_entries(it)

    def entry_ctor_args(self, call: ast.Call):
        """keyword map of a TdfEntry(...) construction (positional args mapped by __init__)."""
        init = self.prog.need_method(self.entry_cls, "__init__")
        out = {}
        for p, a in zip(init.params, call.args):
            out[p] = a
        for k in call.keywords:
            if k.arg:
                out[k.arg] = k.value
        return out

    def slot_index(self, expr, ff: FuncFacts = None):
        """If expr == HDR + ENT*k return the index polynomial k (as Poly); else None.  Literals are not trusted:
        the polynomial must divide exactly by the entry size computed from TdfEntry._write."""
        e = ff.resolve(expr) if ff is not None else expr
        p = to_poly(e, self.ctx)
        if p is None:
            return None
        q = p - self.HDR
        out = {}
        if not self.ENT:
            raise AnalysisError("the size of a table entry could not be computed from TdfEntry._write (its codec is not interpretable)")
        for mono, coef in q.t.items():
            if coef % self.ENT != 0:
                return None
            out[mono] = coef // self.ENT
        return Poly(out)

    # ------------------------------------------------------------------------------ C02 container clause
    def check_c02(self, rep):
        mod = self.mod.path.name
        ff = self.facts("add_block")
        fn = ff.f
        block_param = fn.params[0] if fn.params else None
        if block_param is None:
            raise AnalysisError("Tdf.add_block has no block parameter")
        # (a) entry.size = newBlock.nBytes for the entry that is stored and written
        fresh = {n: v[1] for n, v in ff.entry_names.items() if v[0] == "fresh"}
        stored = [e for e in ff.ev("table_store", "table_append") if isinstance(e.value, ast.Name) and e.value.id in fresh]
        if not stored:
            raise AnalysisError("Tdf.add_block: no freshly built TdfEntry is stored into the table")
        new_entry = stored[0].value.id
        args = self.entry_ctor_args(fresh[new_entry])
        size = args.get("size")
        if size is not None and norm(ff.resolve(size)) == f"{block_param}.nBytes":
            rep.ok("container-size", f"add_block: entry.size = {block_param}.nBytes", nontrivial=True)
        else:
            rep.fail("container-size", mod, "Tdf.add_block", fresh[new_entry],
                     f"entry size is `{norm(size)}`, not `{block_param}.nBytes`: following blocks would be placed by a different size than the bytes written",
                     construct=f"TdfEntry(... size={norm(size)} ...)")
        # (a') the new block starts where the slot it takes over points: entry.offset = <table>[<that slot>].offset
        # (the free slots carry the end of the data - C09's invariant; any other source places the block somewhere else)
        off = args.get("offset")
        st0 = stored[0]
        if st0.kind == "table_store" and off is not None:
            r_off = ff.resolve(off)
            want_off = f"self.{self.entries_attr}[{norm(ff.resolve(st0.index))}].offset"

            def paired_with_index(expr):
                """`expr` is the element (or its .offset) that one `next(((n, e[.offset]) for n, e in enumerate(<table>) if ..))` pairs with
                the index the entry is stored at: by construction <table>[n] is e"""
                want_attr = None
                if isinstance(expr, ast.Attribute) and expr.attr == "offset" and isinstance(expr.value, ast.Name):
                    nm, want_attr = expr.value.id, "elem"
                elif isinstance(expr, ast.Name):
                    nm, want_attr = expr.id, "offset"
                else:
                    return False
                idx = st0.index
                if not isinstance(idx, ast.Name):
                    return False
                for a_ in walk_no_nested(fn.node):
                    if not (isinstance(a_, ast.Assign) and len(a_.targets) == 1 and isinstance(a_.targets[0], ast.Tuple) and isinstance(a_.value, ast.Call) and norm(a_.value.func) == "next"
                            and a_.value.args and isinstance(a_.value.args[0], ast.GeneratorExp) and isinstance(a_.value.args[0].elt, ast.Tuple)):
                        continue
                    tn = [t.id if isinstance(t, ast.Name) else None for t in a_.targets[0].elts]
                    g = a_.value.args[0]
                    if idx.id not in tn or nm not in tn or len(g.generators) != 1 or len(g.elt.elts) != len(tn):
                        continue
                    gen = g.generators[0]
                    it = gen.iter
                    if not (isinstance(it, ast.Call) and norm(it.func) == "enumerate" and len(it.args) == 1 and not it.keywords and self.is_entries(it.args[0])
                            and isinstance(gen.target, ast.Tuple) and len(gen.target.elts) == 2 and all(isinstance(x, ast.Name) for x in gen.target.elts)):
                        continue
                    n_, e_ = gen.target.elts[0].id, gen.target.elts[1].id
                    ei, en = g.elt.elts[tn.index(idx.id)], g.elt.elts[tn.index(nm)]
                    if not (isinstance(ei, ast.Name) and ei.id == n_):
                        continue
                    if want_attr == "elem" and isinstance(en, ast.Name) and en.id == e_:
                        return True
                    if want_attr == "offset" and norm(en) == f"{e_}.offset":
                        return True
                return False
            if norm(r_off) == want_off or paired_with_index(off) or paired_with_index(r_off):
                rep.ok("container-size", f"add_block: entry.offset = {want_off} (the slot it takes over)", nontrivial=True)
            else:
                rep.fail("container-size", mod, "Tdf.add_block", fresh[new_entry],
                         f"the new entry's offset is `{norm(r_off)}`, not the offset carried by the unused slot it takes over (`{want_off}`): "
                         "the block is not guaranteed to start at the end of the data",
                         construct=f"TdfEntry(... offset={norm(off)} ...)")
        # (b) block written at seek(new_entry.offset)
        bw = [e for e in ff.ev("block_write") if norm(e.obj) == block_param]
        if not bw:
            # definite when the block cannot reach the file at all: it is never the receiver / an argument of any call, or it
            # is serialised into a scratch buffer that no write to the handle mentions
            used_in_calls = [c for c in ast.walk(fn.node) if isinstance(c, ast.Call) and norm(c.func) not in ("isinstance", "type", "len", "str", "repr", "print")
                             and (any(isinstance(x, ast.Name) and x.id == block_param for a in list(c.args) + [k.value for k in c.keywords]
                                      for x in ([a.value] if isinstance(a, ast.Starred) else [a]))
                                  or (isinstance(c.func, ast.Attribute) and isinstance(c.func.value, ast.Name) and c.func.value.id == block_param))]
            ser = [c for c in used_in_calls if isinstance(c.func, ast.Attribute) and c.func.attr == "_write" and isinstance(c.func.value, ast.Name) and c.func.value.id == block_param
                   and c.args and (isinstance(c.args[0], ast.Name) or (isinstance(c.args[0], ast.Call) and norm(c.args[0].func) in ("BytesIO", "io.BytesIO")))]
            hw = [e.call for e in ff.ev("raw_write", "block_write", "entry_write", "handle_passed") if e.call is not None]
            if not used_in_calls:
                rep.fail("container-size", mod, "Tdf.add_block", fn.node, f"add_block never serialises `{block_param}`: the entry is recorded (with the block's size) but the block's bytes are not written to the file",
                         construct="Tdf.add_block block never serialised")
                return
            if ser and len(ser) == len(used_in_calls) and (not isinstance(ser[0].args[0], ast.Name)
                                                           or not any(isinstance(x, ast.Name) and x.id == ser[0].args[0].id for c in hw for x in ast.walk(c))):
                rep.fail("container-size", mod, "Tdf.add_block", ser[0], f"`{block_param}` is serialised into the scratch buffer `{norm(ser[0].args[0])}`, which is never written to the file handle",
                         construct="Tdf.add_block buffer never written")
                return
            raise AnalysisError("Tdf.add_block no longer serialises the block through <block>._write(handle)")
        for e in bw:
            prev = ff.position_before(e.node)
            okk = bool(prev)
            for p in prev:
                if p is None or p.kind != "seek" or p.whence not in ("0", "os.SEEK_SET", "io.SEEK_SET") \
                        or norm(ff.resolve(p.target)) not in (f"{new_entry}.offset", norm(ff.resolve(args.get("offset"))) if args.get("offset") is not None else ""):
                    okk = False
                    bad = p
            if okk:
                rep.ok("container-size", f"add_block: block written at seek({new_entry}.offset)", nontrivial=True)
            else:
                rep.fail("container-size", mod, "Tdf.add_block", e.stmt,
                         f"the block is not written at the offset recorded in its entry (position set by `{norm(head(bad.stmt)) if bad else 'function entry'}`)")
        # (c) later slots get offset + size
        fa = [e for e in ff.ev("field_assign") if e.field == "offset" and isinstance(e.entry, ast.Name) and ff.entry_names.get(e.entry.id, ("",))[0] == "elem"]
        if not fa:
            # definite when nothing in add_block assigns an `.offset` attribute at all (the only way a slot is re-pointed)
            any_off = [n for n in ast.walk(fn.node) if isinstance(n, ast.Attribute) and n.attr == "offset" and isinstance(n.ctx, ast.Store)]
            calls_out = ff.ev("self_call")
            if not any_off and not calls_out:
                rep.fail("container-size", mod, "Tdf.add_block", fn.node, "add_block never re-points the later unused slots: they keep the offset at which the new block now starts instead of the end of the data",
                         construct="Tdf.add_block later slots not re-pointed")
                return
            raise AnalysisError("Tdf.add_block no longer re-points later slots (no `.offset` assignment on table entries)")
        want = to_poly(ast.parse(f"{new_entry}.offset + {new_entry}.size", mode="eval").body, self.ctx)
        want_x = to_poly(ff.expand_fresh(ast.parse(f"{new_entry}.offset + {new_entry}.size", mode="eval").body), self.ctx)
        for e in fa:
            got = to_poly(ff.resolve(e.value), self.ctx)
            got_x = to_poly(ff.expand_fresh(e.value), self.ctx)
            if e.op == "=" and (got == want or (got_x is not None and got_x == want_x)):
                rep.ok("container-size", f"add_block: later slots get {new_entry}.offset + {new_entry}.size", nontrivial=True)
            else:
                rep.fail("container-size", mod, "Tdf.add_block", e.stmt,
                         f"later slot offset is `{norm(e.value)}` (op {e.op}), expected `{new_entry}.offset + {new_entry}.size`")


def term_const_bytes(t, ctx):
    if isinstance(t, Field):
        n = ctx.const_int(t.count) if t.count is not None else 1
        if t.role == "data" and t.value is not None:
            n = 1
        return None if n is None else n * t.dt.itemsize
    if isinstance(t, Str):
        return ctx.const_int(t.width)
    if isinstance(t, Date):
        return 4
    if isinstance(t, Raw):
        return ctx.const_int(t.nbytes) if t.nbytes is not None else None
    return None
