"""Symbolic expressions = python ast expression nodes; substitution, rewriting, canonical form.

Rewrites (closed list, DESIGN C01 rule 5):  np.array(x[,dtype]) -> x ;  Enum(x.value) -> x ;
IntEnum(x) -> x ;  int(x) -> x ;  len([]) -> 0 ;  (a if c else b) kept, len distributes over it ;
arithmetic is normalised through Poly.
"""
from __future__ import annotations

import ast
import copy

from .poly import Poly
from .report import norm


def N(id_):
    return ast.Name(id=id_, ctx=ast.Load())


def C(v):
    return ast.Constant(value=v)


def parse_expr(s: str):
    return ast.parse(s, mode="eval").body


class Subst(ast.NodeTransformer):
    def __init__(self, env):
        self.env = env

    def visit_Name(self, node):
        if node.id in self.env and isinstance(node.ctx, ast.Load):
            v = self.env[node.id]
            return copy.deepcopy(v) if isinstance(v, ast.AST) else node
        return node

    # do not substitute inside comprehension targets' own bound names
    def _comp(self, node):
        bound = set()
        for g in node.generators:
            for n in ast.walk(g.target):
                if isinstance(n, ast.Name):
                    bound.add(n.id)
        saved = {k: self.env[k] for k in bound if k in self.env}
        for k in saved:
            del self.env[k]
        try:
            return self.generic_visit(node)
        finally:
            self.env.update(saved)

    visit_ListComp = visit_GeneratorExp = visit_SetComp = _comp


def subst(node, env):
    if node is None:
        return None
    return Subst(dict(env)).visit(copy.deepcopy(node))


def names_in(node):
    return {n.id for n in ast.walk(node) if isinstance(n, ast.Name)}


class Ctx:
    """What the simplifier needs to know about the program: enum classes, int constants."""

    def __init__(self, prog, module, cls=None):
        self.prog = prog
        self.module = module
        self.cls = cls
        self.equiv = {}  # atom string -> representative atom string

    def enum_kind(self, name):
        k = self.prog.resolve_class(self.module, name)
        if k is None:
            return None
        return self.prog.is_enum(k)

    def const_int(self, node):
        return self.prog.const_int(self.module, node, self.cls)

    def len_self(self):
        """Expression returned by the class's __len__ (single return statement), or None."""
        if self.cls is None:
            return None
        f = self.prog.lookup_method(self.cls, "__len__")
        if f is None:
            return None
        body = [s for s in f.node.body if not (isinstance(s, ast.Expr) and isinstance(s.value, ast.Constant))]
        if len(body) == 1 and isinstance(body[0], ast.Return) and body[0].value is not None:
            return body[0].value
        return None


_ARRAY_FUNCS = ("np.array", "numpy.array", "np.asarray", "np.int32", "int", "float", "np.float32", "list", "np.uint16")


def simplify(node, ctx: Ctx):
    """Bottom-up rewrite; returns a new ast node."""
    if node is None:
        return None
    node = copy.deepcopy(node)
    return _simp(node, ctx)


def _simp(node, ctx):
    for fld, val in ast.iter_fields(node):
        if isinstance(val, ast.AST):
            setattr(node, fld, _simp(val, ctx))
        elif isinstance(val, list):
            setattr(node, fld, [_simp(v, ctx) if isinstance(v, ast.AST) else v for v in val])
    if isinstance(node, ast.Call):
        fn = norm(node.func)
        if isinstance(node.func, ast.Attribute) and node.func.attr in ("tolist", "copy") and not node.args and not node.keywords:
            return node.func.value
        if fn in _ARRAY_FUNCS and len(node.args) == 1 and all(k.arg in ("dtype", "copy") for k in node.keywords):
            return node.args[0]
        if isinstance(node.func, ast.Name) and len(node.args) == 1 and not node.keywords:
            ek = ctx.enum_kind(node.func.id)
            a = node.args[0]
            if ek is not None and isinstance(a, ast.Attribute) and a.attr == "value":
                return a.value
            if ek == "int" and isinstance(a, ast.Attribute) and a.attr != "value":
                root = a
                while isinstance(root, ast.Attribute):
                    root = root.value
                if isinstance(root, ast.Name) and root.id == "self":
                    return a
        if fn == "len" and len(node.args) == 1:
            a = node.args[0]
            if isinstance(a, ast.Name) and a.id == "self":
                ls = ctx.len_self()
                if ls is not None:
                    return _simp(copy.deepcopy(ls), ctx)
            if isinstance(a, (ast.List, ast.Tuple)):
                return C(len(a.elts))
            # len(np.array(ROWS, dtype=..)) / len([E for v in COLL]) : one row per element of COLL
            if isinstance(a, ast.Call) and norm(a.func) in ("np.array", "np.asarray", "numpy.array", "numpy.asarray") and a.args and isinstance(a.args[0], (ast.ListComp, ast.List)) \
                    and all(k.arg == "dtype" for k in a.keywords):
                return _simp(ast.Call(func=N("len"), args=[a.args[0]], keywords=[]), ctx)
            if isinstance(a, (ast.ListComp, ast.GeneratorExp)) and len(a.generators) == 1 and not a.generators[0].ifs:
                return _simp(ast.Call(func=N("len"), args=[a.generators[0].iter], keywords=[]), ctx)
            if isinstance(a, ast.IfExp):
                return ast.IfExp(
                    test=a.test,
                    body=_simp(ast.Call(func=N("len"), args=[a.body], keywords=[]), ctx),
                    orelse=_simp(ast.Call(func=N("len"), args=[a.orelse], keywords=[]), ctx),
                )
    if isinstance(node, ast.Attribute) and node.attr == "value":
        # Enum(x).value -> x
        v = node.value
        if isinstance(v, ast.Call) and isinstance(v.func, ast.Name) and len(v.args) == 1 and ctx.enum_kind(v.func.id):
            return v.args[0]
    if isinstance(node, ast.Compare) and len(node.ops) == 1 and isinstance(node.ops[0], (ast.In, ast.NotIn)):
        c = node.comparators[0]
        if isinstance(c, (ast.List, ast.Tuple, ast.Set)):
            elts = sorted(c.elts, key=norm)
            node.comparators = [ast.Tuple(elts=elts, ctx=ast.Load())]
    if isinstance(node, (ast.BinOp, ast.UnaryOp)):
        p = to_poly(node, ctx, _nosimp=True)
        if p is not None:
            return poly_to_ast(p)
    return node


def is_arith(node):
    return isinstance(node, ast.BinOp) and isinstance(node.op, (ast.Add, ast.Sub, ast.Mult))


def to_poly(node, ctx: Ctx, _nosimp=False) -> Poly | None:
    """Polynomial normal form of an integer-valued expression (atoms = canonical strings)."""
    if not _nosimp:
        node = simplify(node, ctx)
    return _poly(node, ctx)


def _poly(node, ctx):
    ci = ctx.const_int(node)
    if ci is not None:
        return Poly.const(ci)
    if isinstance(node, ast.BinOp):
        a = _poly(node.left, ctx)
        b = _poly(node.right, ctx)
        if a is None or b is None:
            return None
        if isinstance(node.op, ast.Add):
            return a + b
        if isinstance(node.op, ast.Sub):
            return a - b
        if isinstance(node.op, ast.Mult):
            return a * b
        return Poly.atom(_atom(node, ctx))
    if isinstance(node, ast.UnaryOp) and isinstance(node.op, ast.USub):
        a = _poly(node.operand, ctx)
        return None if a is None else -a
    if isinstance(node, ast.IfExp):
        a = _poly(node.body, ctx)
        b = _poly(node.orelse, ctx)
        if a is not None and b is not None:
            g = "[" + norm(node.test) + "]"
            # c ? a : b  ==  b + [c]*(a-b)
            return b + Poly.atom(g) * (a - b)
    if isinstance(node, ast.Name) and node.id.startswith("__poly__"):
        return _POLY_STASH[node.id]
    # <codec>.nBytes(n) = n * itemsize  (n symbolic)
    if isinstance(node, ast.Call) and isinstance(node.func, ast.Attribute) and node.func.attr == "nBytes" and isinstance(node.func.value, ast.Name) and len(node.args) <= 1:
        one = ctx.const_int(ast.Call(func=node.func, args=[], keywords=[]))
        if one is not None:
            n = node.args[0] if node.args else next((k.value for k in node.keywords if k.arg == "n"), None)
            if n is None:
                return Poly.const(one)
            pn = _poly(n, ctx)
            if pn is not None:
                return pn * Poly.const(one)
    return Poly.atom(_atom(node, ctx))


_POLY_STASH = {}


def poly_to_ast(p: Poly):
    """Canonical expression for a polynomial (re-parsable, deterministic)."""
    s = str(p)
    try:
        return parse_expr(s)
    except SyntaxError:
        key = f"__poly__{len(_POLY_STASH)}"
        _POLY_STASH[key] = p
        return N(key)


def _atom(node, ctx):
    s = norm(node)
    return ctx.equiv.get(s, s)


def canon(node, ctx: Ctx) -> str:
    if node is None:
        return "None"
    n = simplify(node, ctx)
    if isinstance(n, (ast.BinOp, ast.UnaryOp, ast.Constant)) or ctx.const_int(n) is not None:
        p = _poly(n, ctx)
        if p is not None:
            return str(p)
    s = norm(n)
    return ctx.equiv.get(s, s)


def equal(a, b, ctx: Ctx) -> bool:
    if a is None or b is None:
        return a is b
    pa, pb = to_poly(a, ctx), to_poly(b, ctx)
    if pa is not None and pb is not None:
        return apply_equiv(pa, ctx) == apply_equiv(pb, ctx)
    return canon(a, ctx) == canon(b, ctx)


def apply_equiv(p: Poly, ctx: Ctx) -> Poly:
    if not ctx.equiv:
        return p
    return p.map_atoms(lambda a: ctx.equiv.get(a, a))
