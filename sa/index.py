"""E0 program index + E1 dtype resolver.

Parses every module of /repo/src/basictdf from the working tree and resolves names lexically
(imports, module-level aliases, classes, methods with decorators, TdfType codec objects).
Nothing from the repository is imported or executed.
"""
from __future__ import annotations

import ast
import os
import re
from dataclasses import dataclass, field
from pathlib import Path

from .normalize import normalise_module
from .report import SRC, AnalysisError, norm

PKG = "basictdf"


# ----------------------------------------------------------------------------- E1: dtypes
@dataclass
class DType:
    kind: str  # i u f V(structured)
    size: int  # scalar size in bytes (0 for structured)
    shape: tuple = ()
    fields: list = field(default_factory=list)  # [(name, DType)]
    little: bool = True  # explicit little endian (or 1-byte)
    explicit_order: bool = True
    text: str = ""

    @property
    def nscalars(self):
        n = 1
        for s in self.shape:
            n *= s
        return n

    @property
    def itemsize(self):
        if self.kind == "V":
            return sum(d.itemsize for _, d in self.fields)
        return self.size * self.nscalars

    def scalars(self):
        """Flat list of (kind, size) scalars making up one item (for width/kind comparison)."""
        if self.kind == "V":
            out = []
            for _, d in self.fields:
                out += d.scalars()
            return out
        return [(self.kind, self.size)] * self.nscalars

    def describe(self):
        if self.kind == "V":
            return "{" + ",".join(f"{n}:{d.describe()}" for n, d in self.fields) + "}"
        return f"{self.kind}{self.size}" + (f"{list(self.shape)}" if self.shape else "")


_DT_RE = re.compile(
    r"^\s*(?:\((?P<shape>[\d,\s]+)\)|(?P<n1>\d+))?\s*(?P<bo>[<>=|])?(?P<n2>\d+)?(?P<kind>[iuf])(?P<size>\d)\s*$"
)


def parse_dtype_string(s: str) -> DType:
    m = _DT_RE.match(s)
    if not m:
        if re.match(r"^\s*[<>=|]?[SaU]\d+\s*$", s):
            # a numpy string field strips TRAILING NULs only: it neither cuts at the first NUL nor refuses over-long text
            from .report import DefiniteViolation
            raise DefiniteViolation("nul-cut", "<dtype>", "<dtype literal>", s,
                                    f"a fixed-width text field is declared as the numpy string dtype {s!r}: numpy keeps everything up to the LAST non-NUL byte, so bytes after the "
                                    "terminator become part of the text (text fields must go through BTSString, which cuts at the first NUL)",
                                    construct=f"string dtype {s}", props=("C01", "C06", "C12", "C13"))
        raise AnalysisError(f"dtype literal not understood: {s!r}")
    shape = ()
    if m.group("shape"):
        shape = tuple(int(x) for x in m.group("shape").replace(" ", "").split(",") if x)
    elif m.group("n1"):
        shape = (int(m.group("n1")),)
    elif m.group("n2"):
        shape = (int(m.group("n2")),)
    bo = m.group("bo")
    size = int(m.group("size"))
    return DType(
        kind=m.group("kind"),
        size=size,
        shape=shape,
        little=(bo == "<") or size == 1,
        explicit_order=bo is not None or size == 1,
        text=s,
    )


def parse_dtype_node(node: ast.AST, btype=None) -> DType:
    """np.dtype(<literal>) / literal string / list of (name, spec) tuples / <codec>.btype / (base, shape).
    btype: name -> DType of the codec object bound to that name (for `f32.btype` inside another dtype), or None."""
    import dataclasses
    if isinstance(node, ast.Call) and norm(node.func) in ("np.dtype", "numpy.dtype", "dtype") and node.args:
        return parse_dtype_node(node.args[0], btype)
    if isinstance(node, ast.Constant) and isinstance(node.value, str):
        return parse_dtype_string(node.value)
    if isinstance(node, ast.Attribute) and node.attr in ("btype", "base") and btype is not None:
        inner = node.value
        if node.attr == "base" and isinstance(inner, ast.Attribute) and inner.attr == "btype":
            inner = inner.value      # X.btype.base: the scalar type of X's items
            d = btype(inner.id) if isinstance(inner, ast.Name) else None
            if d is not None and d.kind != "V":
                return dataclasses.replace(d, shape=(), text=norm(node))
        elif isinstance(inner, ast.Name):
            d = btype(inner.id)
            if d is not None:
                return dataclasses.replace(d, text=norm(node))
    if isinstance(node, ast.Tuple) and len(node.elts) == 2:
        # (base, n) / (base, (a, b)): a sub-array of the base type
        base = parse_dtype_node(node.elts[0], btype)
        try:
            shp = ast.literal_eval(node.elts[1])
        except Exception:
            raise AnalysisError(f"dtype expression not understood: {norm(node)}")
        shp = tuple(shp) if isinstance(shp, (tuple, list)) else (int(shp),)
        if base.kind != "V":
            return dataclasses.replace(base, shape=shp + tuple(base.shape), text=norm(node))
    if isinstance(node, ast.List):
        fields = []
        for el in node.elts:
            if not (isinstance(el, ast.Tuple) and len(el.elts) >= 2 and isinstance(el.elts[0], ast.Constant)):
                raise AnalysisError(f"structured dtype element not understood: {norm(el)}")
            sub = parse_dtype_node(el.elts[1], btype)
            if len(el.elts) == 3:
                shp = ast.literal_eval(el.elts[2])
                import dataclasses as _dc
                shp = tuple(shp) if isinstance(shp, (tuple, list)) else (int(shp),)
                sub = _dc.replace(sub, shape=shp + (tuple(sub.shape) if sub.text.endswith("btype") else ()))
            fields.append((el.elts[0].value, sub))
        return DType(
            kind="V",
            size=0,
            fields=fields,
            little=all(d.little for _, d in fields),
            explicit_order=all(d.explicit_order for _, d in fields),
            text=norm(node),
        )
    raise AnalysisError(f"dtype expression not understood: {norm(node)}")


# ----------------------------------------------------------------------------- E0: index
@dataclass
class FuncInfo:
    name: str
    node: ast.FunctionDef
    module: "ModuleInfo"
    cls: "ClassInfo | None"
    decorators: list
    kind: str  # method | static | classmethod | getter | setter | function

    @property
    def qualname(self):
        return f"{self.cls.name}.{self.name}" if self.cls else self.name

    @property
    def params(self):
        a = self.node.args
        names = [x.arg for x in a.posonlyargs + a.args]
        if self.kind in ("method", "getter", "setter", "classmethod") and names:
            names = names[1:]
        return names

    @property
    def self_name(self):
        a = self.node.args
        names = [x.arg for x in a.posonlyargs + a.args]
        if self.kind in ("method", "getter", "setter") and names:
            return names[0]
        return None

    def defaults(self):
        """param name -> default node"""
        a = self.node.args
        pos = a.posonlyargs + a.args
        out = {}
        for p, d in zip(pos[len(pos) - len(a.defaults):], a.defaults):
            out[p.arg] = d
        for p, d in zip(a.kwonlyargs, a.kw_defaults):
            if d is not None:
                out[p.arg] = d
        return out


@dataclass
class ClassInfo:
    name: str
    node: ast.ClassDef
    module: "ModuleInfo"
    bases: list
    methods: dict = field(default_factory=dict)  # name -> [FuncInfo]
    assigns: dict = field(default_factory=dict)  # class-level name -> value node

    def get(self, name, kind=None):
        for f in self.methods.get(name, []):
            if kind is None or f.kind == kind or (kind == "callable" and f.kind in ("method", "static", "classmethod")):
                return f
        return None

    def all_funcs(self):
        for lst in self.methods.values():
            yield from lst


@dataclass
class ModuleInfo:
    name: str
    path: Path
    tree: ast.Module
    source: str
    classes: dict = field(default_factory=dict)
    functions: dict = field(default_factory=dict)
    assigns: dict = field(default_factory=dict)  # module-level name -> value node
    imports: dict = field(default_factory=dict)  # local -> (module, name|None)


def _decorator_names(fn):
    out = []
    for d in fn.decorator_list:
        out.append(norm(d))
    return out


def _kind(fn, in_class):
    if not in_class:
        return "function"
    decs = _decorator_names(fn)
    if "staticmethod" in decs:
        return "static"
    if "classmethod" in decs:
        return "classmethod"
    if "property" in decs:
        return "getter"
    if any(d.split("(")[0].split(".")[-1] in ("cached_property", "lru_cache", "cache") for d in decs):
        return "cached"
    if any(d.endswith(".setter") for d in decs):
        return "setter"
    return "method"


class Program:
    def __init__(self, src: Path = SRC):
        self.src = Path(src)
        self.modules: dict[str, ModuleInfo] = {}
        self.normalised: dict[str, dict] = {}
        files = sorted(self.src.glob("*.py"))
        if not files:
            raise AnalysisError(f"no python sources under {self.src}")
        raw = {}
        for p in files:
            try:
                raw[p.stem] = ast.parse(p.read_text(), filename=str(p))
            except SyntaxError as e:
                raise AnalysisError(f"{p.name} does not parse: {e}")
        trees = {}
        cache_file = None
        if not os.environ.get("SA_NO_NORMALISE") and not os.environ.get("SA_NO_CACHE"):
            # the normal form depends on the sources and on the normaliser only: the 20 checks of one tree share it through a
            # scratch cache keyed by both digests (purely an optimisation - a miss or an unreadable entry recomputes)
            import hashlib, pickle, tempfile
            h = hashlib.sha256()
            for p in files:
                h.update(p.name.encode() + b"\0" + p.read_bytes() + b"\0")
            here = Path(__file__).resolve().parent
            for nm in ("normalize.py", "normalize2.py", "index.py"):
                h.update((here / nm).read_bytes())
            cdir = Path(os.environ.get("SA_CACHE_DIR") or (Path(tempfile.gettempdir()) / f"basictdf-sa-cache-{os.getuid()}"))
            cache_file = cdir / (h.hexdigest()[:32] + ".pickle")
            try:
                if cache_file.exists():
                    with open(cache_file, "rb") as fh:
                        cached = pickle.load(fh)
                    trees = {stem: (self.src / f"{stem}.py", tree, text) for stem, (tree, text) in cached["trees"].items()}
                    self.normalised = cached["normalised"]
            except Exception:
                trees = {}
                self.normalised = {}
        from_cache = bool(trees)
        for p in ([] if from_cache else files):
            text = p.read_text()
            tree = ast.parse(text, filename=str(p))
            if not os.environ.get("SA_NO_NORMALISE"):
                try:
                    from .normalize import import_private_helpers, import_private_methods, copy_inherited_private_methods
                    from . import normalize as _nz
                    _nz.FOREIGN_PRIVATE_PROPS.clear()
                    _nz.FOREIGN_PRIVATE_PROPS.update(_nz.collect_package_private_props(raw))
                    shared = copy_inherited_private_methods(tree, raw, PKG)
                    shared += import_private_helpers(tree, raw, PKG)
                    shared += import_private_methods(tree, raw, PKG, p.stem)
                    self.normalised[p.stem] = normalise_module(tree)
                    # constant fields of module-level helper objects that inlining has brought into the codec methods (`LABEL.size`)
                    import_private_methods(tree, raw, PKG, p.stem, fold_only=True)
                    if shared:
                        self.normalised[p.stem]["helpers_copied_from_other_modules"] = shared
                except RecursionError as e:  # pragma: no cover
                    raise AnalysisError(f"{p.name}: normalisation failed: {e}")
            trees[p.stem] = (p, tree, text)
        if not os.environ.get("SA_NO_NORMALISE") and not from_cache:
            # a private module-level function that no module of the package names any more (every importer inlined its copy)
            # is dead code of the normal form
            named = set()
            for _, tree, _ in trees.values():
                for n in ast.walk(tree):
                    if isinstance(n, ast.Name) and isinstance(n.ctx, ast.Load):
                        named.add(n.id)
                    elif isinstance(n, ast.Attribute):
                        named.add(n.attr)
                    elif isinstance(n, (ast.ImportFrom, ast.Import)):
                        for a in n.names:
                            named.add(a.name.split(".")[-1])
                    elif isinstance(n, ast.Constant) and isinstance(n.value, str) and n.value.isidentifier():
                        named.add(n.value)      # __all__, getattr(..., "name")
            for stem, (p, tree, text) in trees.items():
                dead = [st for st in tree.body if isinstance(st, ast.FunctionDef) and st.name.startswith("_") and not st.name.startswith("__")
                        and st.name not in named and not st.decorator_list]
                if dead:
                    tree.body = [st for st in tree.body if not any(st is d for d in dead)]
                    self.normalised.setdefault(stem, {})["dead_private_functions_dropped"] = [d.name for d in dead]
        if cache_file is not None and not from_cache:
            try:
                import pickle
                cache_file.parent.mkdir(parents=True, exist_ok=True)
                tmpf = cache_file.with_suffix(f".{os.getpid()}.tmp")
                with open(tmpf, "wb") as fh:
                    pickle.dump({"trees": {stem: (tree, text) for stem, (p, tree, text) in trees.items()}, "normalised": self.normalised}, fh, protocol=pickle.HIGHEST_PROTOCOL)
                os.replace(tmpf, cache_file)
                # keep the scratch directory small
                old_files = sorted(cache_file.parent.glob("*.pickle"), key=lambda q: q.stat().st_mtime)
                for q in old_files[:-40]:
                    q.unlink(missing_ok=True)
            except Exception:
                pass
        for stem, (p, tree, text) in trees.items():
            m = ModuleInfo(stem, p, tree, text)
            self._index_module(m)
            self.modules[m.name] = m
        self._dtype_cache = {}
        self.dynamic_hits = self._dynamic_features()

    # -- indexing ------------------------------------------------------------------------------
    def _index_module(self, m: ModuleInfo):
        for st in m.tree.body:
            if isinstance(st, ast.ImportFrom):
                mod = (st.module or "").split(".")
                modname = mod[-1] if mod and mod[0] == PKG else (st.module or "")
                internal = bool(mod) and mod[0] == PKG
                for a in st.names:
                    m.imports[a.asname or a.name] = (modname if internal else "ext:" + (st.module or ""), a.name)
            elif isinstance(st, ast.Import):
                for a in st.names:
                    m.imports[a.asname or a.name.split(".")[0]] = ("ext:" + a.name, None)
            elif isinstance(st, ast.ClassDef):
                c = ClassInfo(st.name, st, m, [norm(b) for b in st.bases])
                for s in st.body:
                    if isinstance(s, (ast.FunctionDef, ast.AsyncFunctionDef)):
                        f = FuncInfo(s.name, s, m, c, _decorator_names(s), _kind(s, True))
                        c.methods.setdefault(s.name, []).append(f)
                    elif isinstance(s, ast.Assign):
                        for t in s.targets:
                            if isinstance(t, ast.Name):
                                c.assigns[t.id] = s.value
                    elif isinstance(s, ast.AnnAssign) and isinstance(s.target, ast.Name) and s.value is not None:
                        c.assigns[s.target.id] = s.value
                m.classes[st.name] = c
            elif isinstance(st, (ast.FunctionDef, ast.AsyncFunctionDef)):
                m.functions[st.name] = FuncInfo(st.name, st, m, None, _decorator_names(st), "function")
            elif isinstance(st, ast.Assign):
                for t in st.targets:
                    if isinstance(t, ast.Name):
                        m.assigns[t.id] = st.value
            elif isinstance(st, ast.AnnAssign) and isinstance(st.target, ast.Name) and st.value is not None:
                m.assigns[st.target.id] = st.value

    def _dynamic_features(self):
        hits = []
        for m in self.modules.values():
            for n in ast.walk(m.tree):
                if isinstance(n, ast.Call) and isinstance(n.func, ast.Name) and n.func.id in (
                    "exec", "eval", "setattr", "globals", "locals", "__import__", "delattr"
                ):
                    hits.append(f"{m.name}:{n.lineno} {n.func.id}")
                if isinstance(n, ast.Attribute) and n.attr == "__dict__":
                    hits.append(f"{m.name}:{n.lineno} __dict__")
        return hits

    # -- resolution ----------------------------------------------------------------------------
    def resolve(self, m: ModuleInfo, name: str, _depth=0):
        """Resolve a bare name used in module m.
        Returns ('class', ClassInfo) | ('func', FuncInfo) | ('value', ModuleInfo, node) | ('ext', text) | None"""
        if _depth > 8:
            return None
        if name in m.classes:
            return ("class", m.classes[name])
        if name in m.functions:
            return ("func", m.functions[name])
        if name in m.assigns:
            v = m.assigns[name]
            if isinstance(v, ast.Name):
                r = self.resolve(m, v.id, _depth + 1)
                if r:
                    return r
            return ("value", m, v)
        if name in m.imports:
            mod, orig = m.imports[name]
            if mod.startswith("ext:"):
                return ("ext", f"{mod[4:]}.{orig}" if orig else mod[4:])
            tm = self.modules.get(mod)
            if tm is None:
                return ("ext", f"{mod}.{orig}")
            if orig is None:
                return ("module", tm)
            return self.resolve(tm, orig, _depth + 1)
        return None

    def cls(self, name: str, module: str | None = None) -> ClassInfo | None:
        if module:
            m = self.modules.get(module)
            return m.classes.get(name) if m else None
        for m in self.modules.values():
            if name in m.classes:
                return m.classes[name]
        return None

    def need_cls(self, name, module=None) -> ClassInfo:
        c = self.cls(name, module)
        if c is None:
            raise AnalysisError(f"anchor vanished: class {module + '.' if module else ''}{name}")
        return c

    def need_method(self, c: ClassInfo, name, kind=None) -> FuncInfo:
        f = c.get(name, kind)
        if f is None:
            # inherited from a base class of the package (the nearest one that defines it)
            for k in self.mro(c)[1:]:
                f = k.get(name, kind)
                if f is not None:
                    return f
        if f is None:
            raise AnalysisError(f"anchor vanished: {c.module.name}.{c.name}.{name}" + (f" ({kind})" if kind else ""))
        return f

    def resolve_class(self, m: ModuleInfo, name: str) -> ClassInfo | None:
        r = self.resolve(m, name)
        if r and r[0] == "class":
            return r[1]
        return None

    def mro(self, c: ClassInfo):
        out, seen = [], set()

        def rec(k):
            if k is None or id(k) in seen:
                return
            seen.add(id(k))
            out.append(k)
            for b in k.bases:
                rec(self.resolve_class(k.module, b.split("[")[0]))

        rec(c)
        return out

    def lookup_method(self, c: ClassInfo, name, kind=None):
        for k in self.mro(c):
            f = k.get(name, kind)
            if f:
                return f
        return None

    def class_attr(self, c: ClassInfo, name):
        for k in self.mro(c):
            if name in k.assigns:
                return k, k.assigns[name]
        return None

    def is_enum(self, c: ClassInfo):
        for k in self.mro(c):
            for b in k.bases:
                if b in ("Enum", "IntEnum", "enum.Enum", "enum.IntEnum", "IntFlag", "Flag"):
                    return "int" if "Int" in b else "enum"
        return None

    def enum_members(self, c: ClassInfo):
        out = {}
        for k, v in c.assigns.items():
            if isinstance(v, ast.Constant):
                out[k] = v.value
        return out

    # -- codec objects -------------------------------------------------------------------------
    def codec(self, m: ModuleInfo, name: str):
        """If `name` (in module m) is bound to TdfType(np.dtype(...)), return (canonical id, DType)."""
        r = self.resolve(m, name)
        if not r or r[0] != "value":
            return None
        dm, node = r[1], r[2]
        if not (isinstance(node, ast.Call) and norm(node.func) == "TdfType" and node.args):
            return None
        key = (dm.name, id(node))
        if key not in self._dtype_cache:
            self._dtype_cache[key] = parse_dtype_node(node.args[0], btype=lambda nm, _dm=dm: (self.codec(_dm, nm) or (None, None))[1] if nm != name else None)
        # canonical id: defining module + first name bound to that node
        cname = next((n for n, v in dm.assigns.items() if v is node), name)
        return (f"{dm.name}.{cname}", self._dtype_cache[key])

    def all_codecs(self):
        out = {}
        for m in self.modules.values():
            for n in m.assigns:
                c = self.codec(m, n)
                if c:
                    out.setdefault(c[0], c[1])
        return out

    def const_int(self, m: ModuleInfo, node, cls: ClassInfo | None = None, env=None):
        """Fold an integer constant expression (literals, + - * //, T.btype.itemsize, T.nBytes(n),
        class constants). Returns int or None."""
        env = env or {}
        if isinstance(node, ast.Constant) and isinstance(node.value, int) and not isinstance(node.value, bool):
            return node.value
        if isinstance(node, ast.UnaryOp) and isinstance(node.op, ast.USub):
            v = self.const_int(m, node.operand, cls, env)
            return -v if v is not None else None
        if isinstance(node, ast.BinOp):
            a = self.const_int(m, node.left, cls, env)
            b = self.const_int(m, node.right, cls, env)
            if a is None or b is None:
                return None
            if isinstance(node.op, ast.Add):
                return a + b
            if isinstance(node.op, ast.Sub):
                return a - b
            if isinstance(node.op, ast.Mult):
                return a * b
            if isinstance(node.op, ast.FloorDiv) and b:
                return a // b
            return None
        if isinstance(node, ast.Name):
            if node.id in env:
                return env[node.id] if isinstance(env[node.id], int) else None
            r = self.resolve(m, node.id)
            if r and r[0] == "value":
                return self.const_int(r[1], r[2], None, None)
            return None
        if isinstance(node, ast.Attribute):
            # T.btype.itemsize
            if node.attr == "itemsize" and isinstance(node.value, ast.Attribute) and node.value.attr in ("btype",) and isinstance(node.value.value, ast.Name):
                c = self.codec(m, node.value.value.id)
                if c:
                    return c[1].itemsize
            if node.attr == "itemsize" and isinstance(node.value, ast.Attribute) and node.value.attr == "base":
                inner = node.value.value
                if isinstance(inner, ast.Attribute) and inner.attr == "btype" and isinstance(inner.value, ast.Name):
                    c = self.codec(m, inner.value.id)
                    if c:
                        return c[1].size if c[1].kind != "V" else None
            # Enum.member.value (int-valued member)
            if node.attr == "value" and isinstance(node.value, ast.Attribute) and isinstance(node.value.value, ast.Name):
                k = self.resolve_class(m, node.value.value.id)
                if k is not None and self.is_enum(k):
                    mv = self.enum_members(k).get(node.value.attr)
                    if isinstance(mv, int) and not isinstance(mv, bool):
                        return mv
                if k is not None and not self.is_enum(k):
                    # Cls.CONST.value where the class constant is itself an enum member (`UnusedBlock.type.value`)
                    ca = self.class_attr(k, node.value.attr)
                    if ca and isinstance(ca[1], ast.Attribute):
                        return self.const_int(ca[0].module, ast.Attribute(value=ca[1], attr="value", ctx=ast.Load()), ca[0], None)
            # Cls.CONST / self.CONST
            if isinstance(node.value, ast.Name):
                k = None
                if node.value.id in ("self", "cls") and cls is not None:
                    k = cls
                else:
                    k = self.resolve_class(m, node.value.id)
                if k is not None:
                    ca = self.class_attr(k, node.attr)
                    if ca:
                        return self.const_int(ca[0].module, ca[1], ca[0], None)
            return None
        if isinstance(node, ast.Call):
            # T.nBytes(n)
            if isinstance(node.func, ast.Attribute) and node.func.attr == "nBytes" and isinstance(node.func.value, ast.Name):
                c = self.codec(m, node.func.value.id)
                if c:
                    n = 1
                    if node.args:
                        n = self.const_int(m, node.args[0], cls, env)
                    return None if n is None else n * c[1].itemsize
            if isinstance(node.func, ast.Name) and node.func.id == "len" and node.args:
                a = node.args[0]
                if isinstance(a, ast.Constant) and isinstance(a.value, (bytes, str)):
                    return len(a.value)
                if isinstance(a, ast.Attribute) and isinstance(a.value, ast.Name):
                    k = cls if a.value.id in ("self", "cls") else self.resolve_class(m, a.value.id)
                    if k is not None:
                        ca = self.class_attr(k, a.attr)
                        if ca and isinstance(ca[1], ast.Constant) and isinstance(ca[1].value, (bytes, str)):
                            return len(ca[1].value)
            return None
        return None

    # -- summaries used by several rules ------------------------------------------------------------
    def functions(self):
        for m in self.modules.values():
            for f in m.functions.values():
                yield f
            for c in m.classes.values():
                yield from c.all_funcs()

    def stats(self):
        nf = sum(1 for _ in self.functions())
        nc = sum(len(m.classes) for m in self.modules.values())
        return {"modules_parsed": len(self.modules), "classes": nc, "functions_analysed": nf,
                "lines": sum(m.source.count("\n") + 1 for m in self.modules.values())}


# ----------------------------------------------------------------------------- helpers on ASTs
def is_self_attr(node, attr=None, self_name="self"):
    return (
        isinstance(node, ast.Attribute)
        and isinstance(node.value, ast.Name)
        and node.value.id == self_name
        and (attr is None or node.attr == attr)
    )


def walk_no_nested(node):
    """ast.walk that does not descend into nested function/class definitions or lambdas."""
    stack = [node]
    first = True
    while stack:
        n = stack.pop()
        if not first and isinstance(n, (ast.FunctionDef, ast.AsyncFunctionDef, ast.ClassDef, ast.Lambda)):
            continue
        first = False
        yield n
        stack.extend(reversed(list(ast.iter_child_nodes(n))))


def init_attr_stores(prog: Program, c: ClassInfo):
    """All `self.x = value` stores in __init__ (in order): list of (attr, value node, stmt)."""
    f = c.get("__init__")
    out = []
    if not f:
        return out
    sn = f.self_name or "self"
    for n in walk_no_nested(f.node):
        if isinstance(n, ast.Assign):
            for t in n.targets:
                if is_self_attr(t, self_name=sn):
                    out.append((t.attr, n.value, n))
        elif isinstance(n, ast.AnnAssign) and n.value is not None and is_self_attr(n.target, self_name=sn):
            out.append((n.target.attr, n.value, n))
    out.sort(key=lambda x: (x[2].lineno, x[2].col_offset))
    return out
