"""E8 self-test: single-site variants of the current /repo sources, applied to a scratch copy outside /repo and
/verif.  `break` variants must be reported as VIOLATION (naming the expected rule/construct), `preserve` variants
(behaviour-preserving refactorings) must stay silent.  A rule that no longer fires on its own breaking variants, or
fires on a preserving one, makes the thorough tier exit 2."""
from __future__ import annotations

import concurrent.futures as cf
import sys
import time

import json
import os
import shutil
import subprocess

from .mutate import PY, VariantError, run_check
from .report import VERIF, AnalysisError
from .variants import VARIANTS


def seeded_variants():
    """The confirmed changes written by independent sub-agents (seeded/<id>/patch.diff) are breaking variants too,
    except the ones recorded as not decided by the static rules (meta.json checks.own_property_check.verdict)."""
    out = []
    for d in sorted((VERIF / "seeded").glob("*")):
        mp, pp = d / "meta.json", d / "patch.diff"
        if not (mp.exists() and pp.exists()):
            continue
        meta = json.loads(mp.read_text())
        if meta.get("checks", {}).get("own_property_check", {}).get("verdict") != "detected":
            continue
        out.append(dict(id="S-" + meta["id"], prop=meta["property"], kind="break", what="seeded: " + meta["id"], patch=str(pp), edits=[]))
    return out


def refactoring_variants():
    """Behaviour-preserving refactorings written by independent sub-agents (refactorings/<Cxx>-round<k>-r<n>.diff, each checked
    by its author against the 39 tests and a behaviour digest): the check of the property the author was working next to must
    stay silent on them. (All 20 checks are run on all of them by `python -m sa.eval_refactors /verif/refactorings '*.diff'`.)"""
    out = []
    import json
    rfile = VERIF / "refactorings" / "RESIDUAL.json"
    residual = {d["diff"] for d in json.loads(rfile.read_text())["residual"]} if rfile.exists() else set()
    for pth in sorted((VERIF / "refactorings").glob("C??-round*-r*.diff")):
        if pth.name in residual:
            continue    # a documented, uncorrected false alarm of the machinery: no silence is promised (DESIGN.md section G)
        prop = pth.name[:3]
        what = "refactoring: " + pth.stem
        md = pth.with_suffix(".md")
        if md.exists():
            what += " - " + md.read_text().strip().splitlines()[0][:60]
        out.append(dict(id="R-" + pth.stem[4:], prop=prop, kind="preserve", what=what, patch=str(pth), edits=[]))
    return out


def run_patch(prop, patch):
    from .try_patch import scratch_with_patch
    try:
        tmp = scratch_with_patch(patch)
    except RuntimeError as e:
        raise VariantError(str(e)[:200])
    try:
        env = dict(os.environ)
        env["SA_REPO"] = str(tmp)
        env["SA_OUT"] = str(tmp / "evidence")
        env.pop("VERIF_TIER", None)
        p = subprocess.run([PY, "-B", "-m", "sa.run", prop, "quick"], cwd=str(VERIF), env=env, capture_output=True, text=True, timeout=300)
        return p.returncode, p.stdout + p.stderr
    finally:
        shutil.rmtree(tmp, ignore_errors=True)


def run_variant(v):
    t0 = time.time()
    try:
        if v.get("patch"):
            code, out = run_patch(v["prop"], v["patch"])
        else:
            code, out = run_check(v["prop"], v["edits"])
    except VariantError as e:
        return v, "skipped", str(e), 0.0
    dt = time.time() - t0
    lines = [l for l in out.splitlines() if l.startswith("  ") or l.startswith("ANALYSIS-ERROR") or l.startswith("VIOLATION")]
    if v["kind"] == "break":
        if code == 1:
            exp = v.get("expect")
            if exp and not any(exp in l for l in lines):
                return v, "wrong-report", f"violation reported but not naming `{exp}`: " + " | ".join(l.strip()[:160] for l in lines[:3]), dt
            return v, "ok", next((l.strip()[:200] for l in lines if l.startswith("  ")), ""), dt
        if code == 2:
            return v, "undecided", next((l for l in lines if "ANALYSIS-ERROR" in l), out[-300:]), dt
        return v, "missed", "check stayed silent", dt
    else:
        if code == 0:
            return v, "ok", "silent", dt
        if code == 2:
            return v, "undecided", next((l for l in lines if "ANALYSIS-ERROR" in l), out[-300:]), dt
        return v, "false-alarm", " | ".join(l.strip()[:200] for l in lines if l.startswith("  "))[:400], dt


def run_all(props=None, jobs=16):
    vs = [v for v in VARIANTS + seeded_variants() + refactoring_variants() if props is None or v["prop"] in props]
    with cf.ThreadPoolExecutor(max_workers=jobs) as ex:
        return list(ex.map(run_variant, vs))


def run_for(prop, rep):
    """thorough tier hook: self-test the rules of one property; raises AnalysisError on a failing rule."""
    res = run_all({prop})
    bad = []
    applied = 0
    for v, status, text, dt in res:
        if status == "skipped":
            rep.note(f"self-test variant {v['id']} skipped: {text}")
            continue
        applied += 1
        if status == "ok":
            rep.ok("self-test", f"{v['id']} ({v['kind']}): {v.get('what', '')} -> {text[:120]}", nontrivial=True)
        else:
            bad.append(f"{v['id']} ({v['kind']}): {status}: {text[:200]}")
    rep.extra["self_test"] = {"variants": len(res), "applied": applied, "breaking": sum(1 for v, *_ in res if v["kind"] == "break"),
                              "preserving": sum(1 for v, *_ in res if v["kind"] == "preserve")}
    if res and applied * 2 < len(res):
        raise AnalysisError(f"self-test: only {applied} of {len(res)} variants of {prop} still apply to the source (anchors moved)")
    if bad:
        raise AnalysisError("self-test of the rules failed: " + " ;; ".join(bad))


def main(argv):
    props = set(a.upper() for a in argv) or None
    t0 = time.time()
    res = run_all(props)
    bad = 0
    for v, status, text, dt in res:
        flag = "ok " if status == "ok" else status.upper()
        if status != "ok":
            bad += 1
        print(f"[{flag:11s}] {v['id']:12s} {v['kind']:8s} {v.get('what', '')[:70]:70s} {text[:150] if status != 'ok' else ''}")
    print(f"{len(res)} variants, {bad} not ok, {time.time() - t0:.1f}s")
    return 1 if bad else 0


if __name__ == "__main__":
    sys.exit(main(sys.argv[1:]))
