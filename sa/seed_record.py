"""Records confirmed seeded changes under /verif/seeded/<id>/ and (re)computes which checks report each of them.
    python -m sa.seed_record import /tmp/wt      # copy confirmed mutants produced by the sub-agents
    python -m sa.seed_record detect              # run all 20 checks against every seeded patch, update meta.json
"""
from __future__ import annotations

import json
import shutil
import sys
from concurrent.futures import ThreadPoolExecutor
from pathlib import Path

from .report import VERIF
from .try_patch import ALL, run

SEEDED = VERIF / "seeded"


def import_from(root: Path):
    for wt in sorted(root.glob("C??")):
        conf = {}
        for cf in list(wt.glob("confirm*.json")):
            conf.update({d["mutant"]: d for d in json.loads(cf.read_text()) if d})
        if not conf:
            continue
        for k in range(1, 28):
            mid = f"{wt.name}-m{k}"
            d = conf.get(mid)
            diff = wt / "mutants" / f"m{k}.diff"
            if not d or not diff.exists():
                continue
            ok = d["demo_clean_exit"] == 0 and d["patch_applied"] == 0 and d["tests"].startswith("39 passed") and d["demo_mutant_exit"] != 0
            if not ok:
                continue
            out = SEEDED / mid
            if (out / "meta.json").exists():
                continue
            out.mkdir(parents=True, exist_ok=True)
            shutil.copy(diff, out / "patch.diff")
            shutil.copy(wt / "mutants" / f"m{k}_demo.py", out / "demo.py")
            md = (wt / "mutants" / f"m{k}.md")
            desc = md.read_text() if md.exists() else ""
            meta = {
                "id": mid,
                "property": wt.name,
                "source": "independent sub-agent given only the property text and a scratch worktree" + (" (round 2: asked for changes different in kind and place from m1-m3)" if 3 < k <= 6 else " (round 3, after the normalisation pre-pass was added: different from m1-m6)" if 6 < k <= 9 else " (round 4, held out after the rules were strengthened on round 3: different from m1-m9)" if 9 < k <= 12 else " (round 5, held out after the rules were strengthened on round 4: different from m1-m12)" if 12 < k <= 15 else " (round 6, held out after the rules were strengthened on round 5: different from m1-m15)" if 15 < k <= 18 else " (round 7, held out after the rules were strengthened on round 6: different from m1-m18)" if 18 < k <= 21 else " (round 8, held out after the rules were strengthened on round 7: different from m1-m21)" if 21 < k <= 24 else " (round 9, held out after the rules were strengthened on round 8: different from m1-m24)" if k > 24 else ""),
                "description_and_what_it_needs_to_manifest": desc.strip(),
                "confirmed": {
                    "how": "in the scratch worktree: demo on clean sources, git apply patch.diff, the 39 baseline tests, demo on the changed sources, restore",
                    "demo_exit_on_clean_sources": d["demo_clean_exit"],
                    "baseline_tests_with_change": d["tests"],
                    "demo_exit_with_change": d["demo_mutant_exit"],
                },
            }
            (out / "meta.json").write_text(json.dumps(meta, indent=1))
            print("recorded", mid)


def detect(only_new=False):
    dirs = sorted(p for p in SEEDED.glob("*") if (p / "patch.diff").exists())
    if only_new:
        dirs = [d for d in dirs if "checks" not in json.loads((d / "meta.json").read_text())]

    def one(d):
        res = run(d / "patch.diff", ALL)
        det = {}
        for p, (code, out) in res.items():
            lines = [l.strip() for l in out.splitlines() if l.startswith("  ") and "rule=" in l]
            det[p] = {"exit": code, "rules": sorted({l.split("rule=")[1].split(" ")[0] for l in lines})}
        meta = json.loads((d / "meta.json").read_text())
        own = meta["property"]
        meta["checks"] = {
            "own_property_check": {"exit": det[own]["exit"], "verdict": {0: "missed", 1: "detected", 2: "undecided"}.get(det[own]["exit"]), "rules": det[own]["rules"]},
            "other_checks_reporting": {p: v["rules"] for p, v in det.items() if p != own and v["exit"] == 1},
            "ran": "python -m sa.try_patch seeded/<id>/patch.diff all  (patch applied to a scratch copy of /repo/src outside /repo and /verif)",
        }
        (d / "meta.json").write_text(json.dumps(meta, indent=1))
        return d.name, det[own]["exit"], det[own]["rules"], sorted(meta["checks"]["other_checks_reporting"])

    with ThreadPoolExecutor(max_workers=4) as ex:
        for name, code, rules, others in ex.map(one, dirs):
            print(f"{name}: own check exit={code} rules={rules} also={others}")


if __name__ == "__main__":
    if sys.argv[1] == "import":
        import_from(Path(sys.argv[2]))
    elif sys.argv[1] == "detect":
        detect(only_new=len(sys.argv) > 2 and sys.argv[2] == "new")
