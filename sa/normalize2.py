"""Desugaring pass (AST -> AST, analysis only) run before the other normalisations: language constructs that say the same
thing as the forms the rules are written over.

  D1  match statement            -> if / elif chain (class, value, singleton, or, capture and wildcard patterns)
  D2  walrus `(x := e)`          -> `x = e` before the statement, when e is evaluated unconditionally and first
  D3  while loops                -> `for i in range(a, n)` (counter up), `for _ in range(n)` (countdown, `while len(x) < n: .. x.append`)
  D4  local closures             -> inlined at their call sites (sa.normalize.Inliner)
  D5  `cls.` in classmethods     -> the class name
  D6  getattr(x, "a", d)         -> x.a if hasattr(x, "a") else d ;   arr.fill(v) -> arr[:] = v
  D7  itertools / map idioms     -> zip(count(a), X) = enumerate(X, start=a); islice(X, a, None) = X[a:];
                                    for .. in product(A, B) / chain.from_iterable(gen) = nested loops; all(map(operator.eq, a, b))
  D8  [E for _ in range(K)], K<=4 -> [E, .., E];  f(*[a, b]) -> f(a, b);  a, b = (E for _ in range(2)) -> a, b = E, E
  D9  NamedTuple carriers        -> X(a, b).first = a, unpacking of X(..), loops over comprehensions of X(..)
  D10 t = E; <stmt using t once> -> E substituted, when nothing evaluated before the use can observe the difference
"""
from __future__ import annotations

import ast
import copy
import itertools

_counter = itertools.count(1)


def _names(node, ctx=None):
    return {n.id for n in ast.walk(node) if isinstance(n, ast.Name) and (ctx is None or isinstance(n.ctx, ctx))}


def _subst(node, env):
    class S(ast.NodeTransformer):
        def visit_Name(self, n):
            if n.id in env and isinstance(n.ctx, ast.Load):
                return copy.deepcopy(env[n.id])
            return n

    return S().visit(copy.deepcopy(node))


def _blocks(node):
    """(owner, field) of every statement list inside node"""
    for n in ast.walk(node):
        for fld in ("body", "orelse", "finalbody"):
            sub = getattr(n, fld, None)
            if isinstance(sub, list) and sub and isinstance(sub[0], ast.stmt):
                yield n, fld
        if isinstance(n, ast.Match):
            pass


# ------------------------------------------------------------------------------------------- D1 match
LIST_ATTRS = set()   # attribute names every store of which (in the module) is a list display / comprehension / list(..)


def collect_list_attrs(tree):
    good, bad = set(), set()
    for n in ast.walk(tree):
        if isinstance(n, (ast.Assign, ast.AnnAssign, ast.AugAssign)):
            tgts = n.targets if isinstance(n, ast.Assign) else [n.target]
            for t in tgts:
                for x in (t.elts if isinstance(t, (ast.Tuple, ast.List)) else [t]):
                    if isinstance(x, ast.Attribute) and isinstance(x.ctx, ast.Store):
                        v = getattr(n, "value", None)
                        if isinstance(n, ast.Assign) and not isinstance(t, (ast.Tuple, ast.List)) and (isinstance(v, (ast.List, ast.ListComp)) or (isinstance(v, ast.Call) and ast.unparse(v.func) == "list")):
                            good.add(x.attr)
                        elif isinstance(n, ast.AnnAssign) and v is None:
                            pass
                        elif isinstance(n, ast.AugAssign) and isinstance(n.op, ast.Add):
                            pass
                        else:
                            bad.add(x.attr)
    LIST_ATTRS.clear()
    LIST_ATTRS.update(good - bad)


def _pattern(p, subj):
    """(test expr or None when always true, [(name, expr)] bindings) or None when unsupported"""
    if isinstance(p, ast.MatchAs):
        if p.pattern is None:
            return None if False else (None, [(p.name, subj)] if p.name else [])
        r = _pattern(p.pattern, subj)
        if r is None:
            return None
        return r[0], r[1] + ([(p.name, subj)] if p.name else [])
    if isinstance(p, ast.MatchClass):
        if p.patterns:
            return None
        test = ast.Call(func=ast.Name(id="isinstance", ctx=ast.Load()), args=[copy.deepcopy(subj), p.cls], keywords=[])
        tests = [test]
        for attr, kp in zip(p.kwd_attrs, p.kwd_patterns):
            if isinstance(kp, ast.MatchSequence) and all(isinstance(e, ast.MatchValue) and isinstance(e.value, ast.Constant) for e in kp.patterns):
                # attr=(2, 2): the attribute is a sequence with exactly these elements (a shape tuple)
                val = ast.Tuple(elts=[e.value for e in kp.patterns], ctx=ast.Load())
            elif isinstance(kp, ast.MatchValue):
                val = kp.value
            else:
                return None
            tests.append(ast.Compare(left=ast.Attribute(value=copy.deepcopy(subj), attr=attr, ctx=ast.Load()), ops=[ast.Eq()], comparators=[val]))
        return (tests[0] if len(tests) == 1 else ast.BoolOp(op=ast.And(), values=tests)), []
    if isinstance(p, ast.MatchSequence) and isinstance(subj, ast.Attribute) and isinstance(subj.value, ast.Name) and subj.attr in LIST_ATTRS:
        # the subject is an attribute the module only ever binds to lists: the pattern is a statement about its length
        stars = [q for q in p.patterns if isinstance(q, ast.MatchStar)]
        if len(stars) > 1 or any(q.name is not None for q in stars):
            return None
        fixed = [q for q in p.patterns if not isinstance(q, ast.MatchStar)]
        if not all(isinstance(q, ast.MatchAs) and q.pattern is None for q in fixed):
            return None
        k = len(fixed)
        ln = ast.Call(func=ast.Name(id="len", ctx=ast.Load()), args=[copy.deepcopy(subj)], keywords=[])
        if stars:
            test = None if k == 0 else (copy.deepcopy(subj) if k == 1 else ast.Compare(left=ln, ops=[ast.GtE()], comparators=[ast.Constant(value=k)]))
        else:
            test = ast.UnaryOp(op=ast.Not(), operand=copy.deepcopy(subj)) if k == 0 else ast.Compare(left=ln, ops=[ast.Eq()], comparators=[ast.Constant(value=k)])
        binds = []
        si = p.patterns.index(stars[0]) if stars else len(p.patterns)
        for i, q in enumerate(p.patterns):
            if isinstance(q, ast.MatchStar) or q.name is None:
                continue
            idx = i if i < si else -(len(p.patterns) - i)
            binds.append((q.name, ast.Subscript(value=copy.deepcopy(subj), slice=ast.Constant(value=idx), ctx=ast.Load())))
        return test, binds
    if isinstance(p, ast.MatchValue):
        return ast.Compare(left=copy.deepcopy(subj), ops=[ast.Eq()], comparators=[p.value]), []
    if isinstance(p, ast.MatchSingleton):
        return ast.Compare(left=copy.deepcopy(subj), ops=[ast.Is()], comparators=[ast.Constant(value=p.value)]), []
    if isinstance(p, ast.MatchOr):
        tests = []
        for q in p.patterns:
            r = _pattern(q, subj)
            if r is None or r[1] or r[0] is None:
                return None
            tests.append(r[0])
        return ast.BoolOp(op=ast.Or(), values=tests), []
    return None


class MatchToIf(ast.NodeTransformer):
    def visit_Match(self, node):
        self.generic_visit(node)
        pre = []
        subj = node.subject
        if not isinstance(subj, (ast.Name, ast.Attribute)):
            tmp = f"_subject{next(_counter)}"
            pre.append(ast.copy_location(ast.Assign(targets=[ast.Name(id=tmp, ctx=ast.Store())], value=subj, lineno=node.lineno), node))
            subj = ast.Name(id=tmp, ctx=ast.Load())
        arms = []
        for c in node.cases:
            r = _pattern(c.pattern, subj)
            if r is None:
                return node
            test, binds = r
            mk = lambda bs: [ast.copy_location(ast.Assign(targets=[ast.Name(id=n, ctx=ast.Store())], value=copy.deepcopy(e), lineno=node.lineno), node) for n, e in bs]
            if c.guard is not None:
                if binds and test is None:
                    # case name if GUARD: the capture always succeeds and binds (also when the guard then fails); the guard reads the name
                    arms.append((c.guard, list(c.body), mk(binds)))
                    continue
                if binds:
                    return node
                test = c.guard if test is None else ast.BoolOp(op=ast.And(), values=[test, c.guard])
            arms.append((test, mk(binds) + c.body, []))
        # build the chain from the end
        orelse = []
        for test, body, before in reversed(arms):
            if test is None:
                orelse = before + body
            else:
                orelse = before + [ast.copy_location(ast.If(test=test, body=body, orelse=orelse), node)]
        return pre + orelse


# ------------------------------------------------------------------------------------------- D2 walrus
# constructors of immutable helper objects: evaluating them has no effect and no order
_CONST_CTORS = {"attrgetter", "operator.attrgetter", "itemgetter", "operator.itemgetter", "methodcaller", "operator.methodcaller", "partial", "functools.partial", "np.dtype", "numpy.dtype", "struct.Struct", "Struct",
                "slice", "frozenset"}
def _walk_evaluated(e):
    """sub-expressions that are evaluated when e is (the body of a lambda is not)"""
    yield e
    if isinstance(e, ast.Lambda):
        return
    for c in ast.iter_child_nodes(e):
        yield from _walk_evaluated(c)


PURE_FUNCS = {"len", "isinstance", "range", "enumerate", "int", "abs", "tuple", "hasattr", "bool", "str", "float", "type", "min", "max"}


def _first_walrus(root):
    """the NamedExpr of `root` that is evaluated unconditionally with no impure call evaluated before it, or None"""
    found = []

    def visit(n, cond):
        if isinstance(n, (ast.Lambda, ast.ListComp, ast.SetComp, ast.DictComp, ast.GeneratorExp)):
            return
        if isinstance(n, ast.NamedExpr):
            visit(n.value, cond)
            found.append((n, cond))
            return
        if isinstance(n, ast.BoolOp):
            for i, v in enumerate(n.values):
                visit(v, cond or i > 0)
            return
        if isinstance(n, ast.IfExp):
            visit(n.test, cond)
            visit(n.body, True)
            visit(n.orelse, True)
            return
        for c in ast.iter_child_nodes(n):
            visit(c, cond)

    visit(root, False)
    order = list(eval_order(root))
    for w, cond in found:
        if cond or not isinstance(w.target, ast.Name):
            return None
        # impure calls evaluated before the walrus (in evaluation order) that do not enclose it
        for c in order:
            if c is w:
                break
            if isinstance(c, ast.Call) and not any(x is w for x in ast.walk(c)):
                if not (isinstance(c.func, ast.Name) and c.func.id in PURE_FUNCS):
                    return None
        return w
    return None


def eval_order(n):
    """nodes of an expression in the order their evaluation starts (conditional expressions: test first)"""
    yield n
    if isinstance(n, ast.IfExp):
        for part in (n.test, n.body, n.orelse):
            yield from eval_order(part)
        return
    if isinstance(n, (ast.Lambda,)):
        return
    for c in ast.iter_child_nodes(n):
        yield from eval_order(c)


class WalrusHoist:
    def run(self, tree):
        for owner, fld in list(_blocks(tree)):
            stmts = getattr(owner, fld)
            out = []
            for st in stmts:
                roots = []
                if isinstance(st, ast.If):
                    roots = [("test", st.test)]
                elif isinstance(st, (ast.Assign, ast.Return, ast.Expr, ast.AugAssign)) and st.value is not None:
                    roots = [("value", st.value)]
                for fldname, root in roots:
                    for _ in range(4):
                        w = _first_walrus(getattr(st, fldname))
                        if w is None:
                            break
                        out.append(ast.copy_location(ast.Assign(targets=[ast.Name(id=w.target.id, ctx=ast.Store())], value=w.value, lineno=st.lineno), st))

                        class R(ast.NodeTransformer):
                            def visit_NamedExpr(self, n):
                                if n is w:
                                    return ast.copy_location(ast.Name(id=w.target.id, ctx=ast.Load()), n)
                                self.generic_visit(n)
                                return n

                        setattr(st, fldname, R().visit(getattr(st, fldname)))
                out.append(st)
            setattr(owner, fld, out)


# ------------------------------------------------------------------------------------------- D3 while
def _is_incr(st, name, sign=1):
    if isinstance(st, ast.AugAssign) and isinstance(st.target, ast.Name) and st.target.id == name and isinstance(st.value, ast.Constant) and st.value.value == 1:
        return isinstance(st.op, ast.Add if sign > 0 else ast.Sub)
    if isinstance(st, ast.Assign) and len(st.targets) == 1 and isinstance(st.targets[0], ast.Name) and st.targets[0].id == name and isinstance(st.value, ast.BinOp) \
            and isinstance(st.value.op, ast.Add if sign > 0 else ast.Sub) and isinstance(st.value.right, ast.Constant) and st.value.right.value == 1 \
            and isinstance(st.value.left, ast.Name) and st.value.left.id == name:
        return True
    if sign > 0 and isinstance(st, ast.Assign) and len(st.targets) == 1 and isinstance(st.targets[0], ast.Name) and st.targets[0].id == name and isinstance(st.value, ast.BinOp) \
            and isinstance(st.value.op, ast.Add) and isinstance(st.value.left, ast.Constant) and st.value.left.value == 1 and isinstance(st.value.right, ast.Name) and st.value.right.id == name:
        return True
    return False


def _has_jump(stmts):
    for s in stmts:
        for n in ast.walk(s):
            if isinstance(n, (ast.Break, ast.Continue)):
                return True
    return False


def _len_of(e):
    if isinstance(e, ast.Call) and isinstance(e.func, ast.Name) and e.func.id == "len" and len(e.args) == 1:
        return e.args[0]
    return None


def _mutates(stmts, target_text):
    for s in stmts:
        for n in ast.walk(s):
            if isinstance(n, ast.Call) and isinstance(n.func, ast.Attribute) and ast.unparse(n.func.value) == target_text \
                    and n.func.attr in ("append", "remove", "pop", "insert", "clear", "extend"):
                return True
            if isinstance(n, (ast.Subscript, ast.Attribute, ast.Name)) and isinstance(n.ctx, (ast.Store, ast.Del)) and ast.unparse(n) == target_text:
                return True
            if isinstance(n, ast.Delete):
                for t in n.targets:
                    if isinstance(t, ast.Subscript) and ast.unparse(t.value) == target_text:
                        return True
    return False


class WhileToFor:
    def run(self, tree):
        for fn in [n for n in ast.walk(tree) if isinstance(n, ast.FunctionDef)]:
            for owner, fld in list(_blocks(fn)):
                stmts = getattr(owner, fld)
                out = []
                for idx, st in enumerate(stmts):
                    new = self.convert(st, stmts[:idx], stmts[idx + 1:], fn) if isinstance(st, ast.While) else None
                    out.append(new if new is not None else st)
                    drop = getattr(new, "_drop_init", None) if new is not None else None
                    if drop is not None:
                        # the counter's initialisation is dead once the loop binds the counter itself
                        out = [x for x in out if x is not drop]
                setattr(owner, fld, out)

    def convert(self, w: ast.While, before, after, fn):
        if w.orelse or _has_jump(w.body) or not w.body:
            return None
        t = w.test
        if not (isinstance(t, ast.Compare) and len(t.ops) == 1):
            return None
        a, op, b = t.left, t.ops[0], t.comparators[0]
        loads_after = lambda name: any(isinstance(n, ast.Name) and n.id == name and isinstance(n.ctx, ast.Load) for s in after for n in ast.walk(s))
        # normalise  N > i  to  i < N
        if isinstance(op, ast.Gt) and isinstance(b, ast.Name) and not isinstance(a, ast.Name):
            a, op, b = b, ast.Lt(), a
        loads_after = lambda name: any(isinstance(n, ast.Name) and n.id == name and isinstance(n.ctx, ast.Load) for s in after for n in ast.walk(s))

        def stores_in_body(name, skip_last=True):
            body = w.body[:-1] if skip_last else w.body
            return any(isinstance(n, ast.Name) and n.id == name and isinstance(n.ctx, (ast.Store, ast.Del)) for s in body for n in ast.walk(s))

        # D: it = iter(X) ... while (x := next(it, S)) is not S: body      ==>   for x in X: body
        if isinstance(op, ast.IsNot) and isinstance(a, ast.NamedExpr) and isinstance(a.target, ast.Name) and isinstance(a.value, ast.Call) \
                and isinstance(a.value.func, ast.Name) and a.value.func.id == "next" and len(a.value.args) == 2 and isinstance(a.value.args[0], ast.Name) \
                and ((isinstance(b, ast.Name) and isinstance(a.value.args[1], ast.Name) and a.value.args[1].id == b.id)
                     or (isinstance(b, ast.Constant) and b.value is None and isinstance(a.value.args[1], ast.Constant) and a.value.args[1].value is None)):
            # (with None as the end marker: the items of the tables and item lists walked this way are never None - stated assumption)
            itn = a.value.args[0].id
            init = next((s for s in reversed(before) if isinstance(s, ast.Assign) and len(s.targets) == 1 and isinstance(s.targets[0], ast.Name) and s.targets[0].id == itn), None)
            if init is not None and isinstance(init.value, ast.Call) and isinstance(init.value.func, ast.Name) and init.value.func.id == "iter" and len(init.value.args) == 1 \
                    and not any(itn in _names(s) for s in before[before.index(init) + 1:]) and not any(itn in _names(s) for s in w.body) and not loads_after(itn) \
                    and not any(isinstance(n, ast.Name) and n.id == a.target.id and isinstance(n.ctx, ast.Store) for s in w.body for n in ast.walk(s)):
                res = ast.copy_location(ast.For(target=ast.Name(id=a.target.id, ctx=ast.Store()), iter=init.value.args[0], body=w.body, orelse=[], type_comment=None), w)
                if init in before and isinstance(init.value.args[0], (ast.Name, ast.Attribute)):
                    res._drop_init = init      # iter(X) consumed nothing yet: the iterator object is dead once the loop walks X itself
                return res
        # A: i = A0 ... while i < N: body; i += 1
        if isinstance(op, ast.Lt) and isinstance(a, ast.Name) and _is_incr(w.body[-1], a.id, +1) and not stores_in_body(a.id):
            i = a.id
            init = next((s for s in reversed(before) if isinstance(s, ast.Assign) and len(s.targets) == 1 and isinstance(s.targets[0], ast.Name) and s.targets[0].id == i), None)
            if init is None or any(i in _names(s) for s in before[before.index(init) + 1:]):
                return None
            if loads_after(i):
                return None
            bound = b
            # the bound must not change inside the body
            if any(isinstance(n, ast.Name) and isinstance(n.ctx, (ast.Store, ast.Del)) and n.id in _names(bound) for s in w.body for n in ast.walk(s)):
                return None
            ln = _len_of(bound)
            if ln is not None and _mutates(w.body, ast.unparse(ln)):
                return None
            start = init.value
            if _names(start) & {n.id for s in w.body for n in ast.walk(s) if isinstance(n, ast.Name) and isinstance(n.ctx, ast.Store)}:
                return None
            if any(isinstance(x, ast.Call) and ast.unparse(x.func) not in PURE_FUNCS for x in ast.walk(init.value)):
                return None          # the start value is computed by a call that is not known to be pure: it is not evaluated twice
            args = [bound] if isinstance(start, ast.Constant) and start.value == 0 else [copy.deepcopy(start), bound]
            it = ast.Call(func=ast.Name(id="range", ctx=ast.Load()), args=args, keywords=[])
            res = ast.copy_location(ast.For(target=ast.Name(id=i, ctx=ast.Store()), iter=it, body=w.body[:-1] or [ast.Pass()], orelse=[], type_comment=None), w)
            if not any(isinstance(x, ast.Call) and ast.unparse(x.func) not in PURE_FUNCS for x in ast.walk(init.value)):
                res._drop_init = init
            return res
        # B: r = N ... while r > 0: body with one `r -= 1` at its top level (first or last)     (r not otherwise used)
        if isinstance(op, ast.Gt) and isinstance(a, ast.Name) and isinstance(b, ast.Constant) and b.value == 0 and _is_incr(w.body[0], a.id, -1) and len(w.body) > 1 \
                and not _is_incr(w.body[-1], a.id, -1):
            w = ast.copy_location(ast.While(test=w.test, body=w.body[1:] + [w.body[0]], orelse=[]), w)
        if isinstance(op, ast.Gt) and isinstance(a, ast.Name) and isinstance(b, ast.Constant) and b.value == 0 and _is_incr(w.body[-1], a.id, -1):
            r = a.id
            init = next((s for s in reversed(before) if isinstance(s, ast.Assign) and len(s.targets) == 1 and isinstance(s.targets[0], ast.Name) and s.targets[0].id == r), None)
            used = any(r in _names(s) for s in w.body[:-1]) or loads_after(r)
            if init is None or used or any(r in _names(s) for s in before[before.index(init) + 1:]):
                return None
            # the count stays where it is computed (it may be a stream read): the loop runs `r` times
            it = ast.Call(func=ast.Name(id="range", ctx=ast.Load()), args=[ast.Name(id=r, ctx=ast.Load())], keywords=[])
            return ast.copy_location(ast.For(target=ast.Name(id="_", ctx=ast.Store()), iter=it, body=w.body[:-1] or [ast.Pass()], orelse=[], type_comment=None), w)
        # C: X = [] ... while len(X) < N: body; X.append(E)
        ln = _len_of(a)
        if isinstance(op, ast.Lt) and ln is not None and isinstance(ln, ast.Name):
            x = ln.id
            last = w.body[-1]
            is_app = isinstance(last, ast.Expr) and isinstance(last.value, ast.Call) and isinstance(last.value.func, ast.Attribute) and last.value.func.attr == "append" \
                and isinstance(last.value.func.value, ast.Name) and last.value.func.value.id == x and len(last.value.args) == 1
            init = next((s for s in reversed(before) if isinstance(s, (ast.Assign, ast.AnnAssign)) and x in _names(s, ast.Store)), None)
            empty = init is not None and init.value is not None and ((isinstance(init.value, ast.List) and not init.value.elts)
                                                                      or (isinstance(init.value, ast.Call) and ast.unparse(init.value.func) == "list" and not init.value.args))
            if is_app and empty and not any(x in _names(s) for s in before[before.index(init) + 1:]) and not _mutates(w.body[:-1], x) \
                    and not any(isinstance(n, ast.Name) and isinstance(n.ctx, (ast.Store, ast.Del)) and n.id in _names(b) for s in w.body for n in ast.walk(s)):
                it = ast.Call(func=ast.Name(id="range", ctx=ast.Load()), args=[b], keywords=[])
                return ast.copy_location(ast.For(target=ast.Name(id="_", ctx=ast.Store()), iter=it, body=w.body, orelse=[], type_comment=None), w)
        return None


# ------------------------------------------------------------------------------------------- D5 / D6 / D7 / D8 expression level
_SEEK = {"SEEK_SET": 0, "SEEK_CUR": 1, "SEEK_END": 2}
OPERATOR_NAMES = {}   # local name -> function of the operator module it was imported as (`from operator import ne`)


class Desugar(ast.NodeTransformer):
    def __init__(self):
        self.cls = []
        self.clsparam = []

    def visit_ClassDef(self, node):
        self.cls.append(node.name)
        self.generic_visit(node)
        self.cls.pop()
        return node

    def visit_FunctionDef(self, node):
        decs = [ast.unparse(d) for d in node.decorator_list]
        cp = None
        if "classmethod" in decs and node.args.args and self.cls:
            cp = node.args.args[0].arg
            # the class parameter is not rebound
            if any(isinstance(n, ast.Name) and n.id == cp and isinstance(n.ctx, ast.Store) for n in ast.walk(node)):
                cp = None
        self.clsparam.append((cp, self.cls[-1] if self.cls else None))
        self.generic_visit(node)
        self.clsparam.pop()
        return node

    def visit_Name(self, node):
        if self.clsparam and self.clsparam[-1][0] is not None and node.id == self.clsparam[-1][0] and isinstance(node.ctx, ast.Load):
            return ast.copy_location(ast.Name(id=self.clsparam[-1][1], ctx=ast.Load()), node)
        return node

    def visit_Attribute(self, node):
        self.generic_visit(node)
        # io.SEEK_SET / os.SEEK_CUR / ... -> 0 / 1 / 2   (the values the standard library documents for them)
        if node.attr in _SEEK and isinstance(node.value, ast.Name) and node.value.id in ("io", "os") and isinstance(node.ctx, ast.Load):
            return ast.copy_location(ast.Constant(value=_SEEK[node.attr]), node)
        # struct.Struct("<i").size -> 4
        if node.attr == "size" and isinstance(node.value, ast.Call) and ast.unparse(node.value.func) in ("struct.Struct", "Struct") and len(node.value.args) == 1 \
                and isinstance(node.value.args[0], ast.Constant) and isinstance(node.value.args[0].value, str):
            n = _struct_size(node.value.args[0].value)
            if n is not None:
                return ast.copy_location(ast.Constant(value=n), node)
        return node

    def visit_BinOp(self, node):
        self.generic_visit(node)
        # (a, b) + (c,)  ->  (a, b, c)      [a] + [b] -> [a, b]
        if isinstance(node.op, ast.Add) and type(node.left) is type(node.right) and isinstance(node.left, (ast.Tuple, ast.List)) \
                and not any(isinstance(e, ast.Starred) for e in node.left.elts + node.right.elts):
            return ast.copy_location(type(node.left)(elts=node.left.elts + node.right.elts, ctx=ast.Load()), node)
        return node

    def visit_DictComp(self, node):
        self.generic_visit(node)
        # {k(v): e(v) for v in (a, b, c)} -> {k(a): e(a), ...}
        if len(node.generators) == 1 and not node.generators[0].ifs and isinstance(node.generators[0].iter, (ast.Tuple, ast.List)) \
                and 0 < len(node.generators[0].iter.elts) <= 8 and isinstance(node.generators[0].target, ast.Name):
            g = node.generators[0]
            keys = [_subst(node.key, {g.target.id: e}) for e in g.iter.elts]
            vals = [_subst(node.value, {g.target.id: e}) for e in g.iter.elts]
            return ast.copy_location(ast.Dict(keys=keys, values=vals), node)
        return node

    def visit_Try(self, node):
        self.generic_visit(node)
        return node

    def visit_Expr(self, node):
        self.generic_visit(node)
        v = node.value
        # deque(<generator>, maxlen=0)  ->  for .. : <element as a statement>
        if isinstance(v, ast.Call) and ast.unparse(v.func) in ("deque", "collections.deque") and len(v.args) == 1 and isinstance(v.args[0], (ast.GeneratorExp, ast.ListComp)) \
                and any(k.arg == "maxlen" and isinstance(k.value, ast.Constant) and k.value.value == 0 for k in v.keywords) and len(v.args[0].generators) == 1 \
                and not v.args[0].generators[0].ifs:
            g = v.args[0].generators[0]
            tgt = copy.deepcopy(g.target)
            for x in ast.walk(tgt):
                if isinstance(x, (ast.Name, ast.Tuple)):
                    x.ctx = ast.Store()
            return ast.copy_location(ast.For(target=tgt, iter=g.iter, body=[ast.copy_location(ast.Expr(value=v.args[0].elt), node)], orelse=[], type_comment=None), node)
        # arr.fill(v)  ->  arr[:] = v
        if isinstance(v, ast.Call) and isinstance(v.func, ast.Attribute) and v.func.attr == "fill" and isinstance(v.func.value, ast.Name) and len(v.args) == 1 and not v.keywords:
            tgt = ast.Subscript(value=ast.Name(id=v.func.value.id, ctx=ast.Load()), slice=ast.Slice(lower=None, upper=None, step=None), ctx=ast.Store())
            return ast.copy_location(ast.Assign(targets=[tgt], value=v.args[0], lineno=node.lineno), node)
        return node

    def visit_Call(self, node):
        self.generic_visit(node)
        fn = ast.unparse(node.func)
        # getattr(x, "a", d)
        if fn == "getattr" and len(node.args) == 3 and isinstance(node.args[1], ast.Constant) and isinstance(node.args[1].value, str) and node.args[1].value.isidentifier():
            x, a, d = node.args
            test = ast.Call(func=ast.Name(id="hasattr", ctx=ast.Load()), args=[copy.deepcopy(x), a], keywords=[])
            return ast.copy_location(ast.IfExp(test=test, body=ast.Attribute(value=x, attr=a.value, ctx=ast.Load()), orelse=d), node)
        # partial(F, a, b)(c)  ->  F(a, b, c)
        if isinstance(node.func, ast.Call) and ast.unparse(node.func.func) in ("partial", "functools.partial") and node.func.args \
                and not isinstance(node.func.args[0], ast.Starred) \
                and (not any(isinstance(a, ast.Starred) for a in node.func.args + node.args) or (not node.args and not node.keywords)):
            inner = node.func
            kws = list(inner.keywords) + [k for k in node.keywords]
            if len({k.arg for k in kws}) == len(kws) or not node.keywords:
                return self.visit_Call(ast.copy_location(ast.Call(func=inner.args[0], args=list(inner.args[1:]) + list(node.args), keywords=kws), node))
        # attrgetter("a")(x)  ->  x.a ;  itemgetter(k)(x) -> x[k]
        if isinstance(node.func, ast.Call) and ast.unparse(node.func.func) in ("attrgetter", "operator.attrgetter") and len(node.func.args) == 1 \
                and isinstance(node.func.args[0], ast.Constant) and isinstance(node.func.args[0].value, str) and all(p_.isidentifier() for p_ in node.func.args[0].value.split(".")) \
                and len(node.args) == 1 and not node.keywords:
            out = node.args[0]
            for p_ in node.func.args[0].value.split("."):    # attrgetter("a.b")(x) is x.a.b
                out = ast.Attribute(value=out, attr=p_, ctx=ast.Load())
            return ast.copy_location(out, node)
        # attrgetter("a", "b")(x)  ->  (x.a, x.b)
        if isinstance(node.func, ast.Call) and ast.unparse(node.func.func) in ("attrgetter", "operator.attrgetter") and len(node.func.args) > 1 \
                and all(isinstance(a, ast.Constant) and isinstance(a.value, str) and all(p_.isidentifier() for p_ in a.value.split(".")) for a in node.func.args) \
                and len(node.args) == 1 and not node.keywords and isinstance(node.args[0], (ast.Name, ast.Attribute)):
            elts = []
            for a in node.func.args:
                out = copy.deepcopy(node.args[0])
                for p_ in a.value.split("."):
                    out = ast.Attribute(value=out, attr=p_, ctx=ast.Load())
                elts.append(out)
            return ast.copy_location(ast.Tuple(elts=elts, ctx=ast.Load()), node)
        # methodcaller("name", a, k=b)(x)  ->  x.name(a, k=b)
        if isinstance(node.func, ast.Call) and ast.unparse(node.func.func) in ("methodcaller", "operator.methodcaller") and node.func.args \
                and isinstance(node.func.args[0], ast.Constant) and isinstance(node.func.args[0].value, str) and node.func.args[0].value.isidentifier() \
                and len(node.args) == 1 and not node.keywords and not isinstance(node.args[0], ast.Starred):
            meth = ast.Attribute(value=node.args[0], attr=node.func.args[0].value, ctx=ast.Load())
            return ast.copy_location(ast.Call(func=meth, args=list(node.func.args[1:]), keywords=list(node.func.keywords)), node)
        if isinstance(node.func, ast.Call) and ast.unparse(node.func.func) in ("itemgetter", "operator.itemgetter") and len(node.func.args) == 1 and len(node.args) == 1 and not node.keywords:
            return ast.copy_location(ast.Subscript(value=node.args[0], slice=node.func.args[0], ctx=ast.Load()), node)
        # itemgetter(k1, k2)(x)  ->  (x[k1], x[k2])
        if isinstance(node.func, ast.Call) and ast.unparse(node.func.func) in ("itemgetter", "operator.itemgetter") and len(node.func.args) > 1 and not node.func.keywords \
                and all(isinstance(a, ast.Constant) for a in node.func.args) and len(node.args) == 1 and not node.keywords and isinstance(node.args[0], (ast.Name, ast.Attribute)):
            return ast.copy_location(ast.Tuple(elts=[ast.Subscript(value=copy.deepcopy(node.args[0]), slice=a, ctx=ast.Load()) for a in node.func.args], ctx=ast.Load()), node)
        # map(F, repeat(a, n), repeat(b)) -> (F(a, b) for _ in range(n))        (every argument a repeat of a name / literal; one of them bounded)
        if fn == "map" and len(node.args) >= 3 and not node.keywords and isinstance(node.args[0], (ast.Name, ast.Attribute)) \
                and all(isinstance(x, ast.Call) and ast.unparse(x.func) in ("repeat", "itertools.repeat") and 1 <= len(x.args) <= 2 and not x.keywords
                        and isinstance(x.args[0], (ast.Name, ast.Constant)) for x in node.args[1:]):
            bounds = [x.args[1] for x in node.args[1:] if len(x.args) == 2]
            if len(bounds) == 1:
                elt = ast.Call(func=node.args[0], args=[x.args[0] for x in node.args[1:]], keywords=[])
                rng = ast.Call(func=ast.Name(id="range", ctx=ast.Load()), args=[bounds[0]], keywords=[])
                return ast.copy_location(ast.GeneratorExp(elt=elt, generators=[ast.comprehension(target=ast.Name(id="_", ctx=ast.Store()), iter=rng, ifs=[], is_async=0)]), node)
        # reduce(add, XS, B)  ->  sum(XS, B)       (sum IS the left fold of + from its start value; += on the fold's running value is + for numbers)
        if fn in ("reduce", "functools.reduce") and len(node.args) == 3 and not node.keywords and isinstance(node.args[0], (ast.Name, ast.Attribute)) \
                and (ast.unparse(node.args[0]) in ("operator.add", "operator.iadd") or OPERATOR_NAMES.get(ast.unparse(node.args[0])) in ("add", "iadd")) \
                and isinstance(node.args[2], (ast.Name, ast.Constant)):
            return self.visit_Call(ast.copy_location(ast.Call(func=ast.Name(id="sum", ctx=ast.Load()), args=[node.args[1], node.args[2]], keywords=[]), node))
        # map(F, X) -> (F(v) for v in X) ;  map(F, repeat(x, n)) -> (F(x) for _ in range(n)) ;  filter(lambda v: C, X) -> (v for v in X if C)
        if fn == "map" and len(node.args) == 2 and not node.keywords and isinstance(node.args[0], (ast.Name, ast.Attribute, ast.Call, ast.Lambda)):
            f, xs = node.args
            if isinstance(xs, ast.Call) and ast.unparse(xs.func) in ("repeat", "itertools.repeat") and len(xs.args) == 2:
                elt = self.visit_Call(ast.Call(func=f, args=[xs.args[0]], keywords=[]))
                rng = ast.Call(func=ast.Name(id="range", ctx=ast.Load()), args=[xs.args[1]], keywords=[])
                return ast.copy_location(ast.GeneratorExp(elt=elt, generators=[ast.comprehension(target=ast.Name(id="_", ctx=ast.Store()), iter=rng, ifs=[], is_async=0)]), node)
            v = f"_mv{next(_counter)}"
            elt = ast.Call(func=f, args=[ast.Name(id=v, ctx=ast.Load())], keywords=[])
            elt = self.visit_Call(elt) if isinstance(f, ast.Call) else elt
            return ast.copy_location(ast.GeneratorExp(elt=elt, generators=[ast.comprehension(target=ast.Name(id=v, ctx=ast.Store()), iter=xs, ifs=[], is_async=0)]), node)
        if fn in ("starmap", "itertools.starmap") and len(node.args) == 2 and not node.keywords and isinstance(node.args[0], (ast.Name, ast.Attribute)):
            f, xs = node.args
            if isinstance(xs, ast.Call) and ast.unparse(xs.func) in ("repeat", "itertools.repeat") and len(xs.args) == 2 and isinstance(xs.args[0], (ast.Tuple, ast.List)) \
                    and all(isinstance(e, (ast.Name, ast.Constant)) for e in xs.args[0].elts):
                elt = ast.Call(func=f, args=[copy.deepcopy(e) for e in xs.args[0].elts], keywords=[])
                rng = ast.Call(func=ast.Name(id="range", ctx=ast.Load()), args=[xs.args[1]], keywords=[])
                return ast.copy_location(ast.GeneratorExp(elt=elt, generators=[ast.comprehension(target=ast.Name(id="_", ctx=ast.Store()), iter=rng, ifs=[], is_async=0)]), node)
        # operator.eq(a, b) / ne / lt / le / gt / ge / is_ / is_not / contains  ->  the comparison
        _ops = {"eq": ast.Eq, "ne": ast.NotEq, "lt": ast.Lt, "le": ast.LtE, "gt": ast.Gt, "ge": ast.GtE, "is_": ast.Is, "is_not": ast.IsNot}
        if fn.startswith("operator.") and fn.split(".", 1)[1] in _ops and len(node.args) == 2 and not node.keywords and not any(isinstance(a, ast.Starred) for a in node.args):
            return ast.copy_location(ast.Compare(left=node.args[0], ops=[_ops[fn.split(".", 1)[1]]()], comparators=[node.args[1]]), node)
        if fn in OPERATOR_NAMES and OPERATOR_NAMES[fn] in _ops and len(node.args) == 2 and not node.keywords and not any(isinstance(a, ast.Starred) for a in node.args):
            return ast.copy_location(ast.Compare(left=node.args[0], ops=[_ops[OPERATOR_NAMES[fn]]()], comparators=[node.args[1]]), node)
        # operator.getitem(a, k) -> a[k]      operator.contains(a, x) -> x in a      (two plain positional arguments)
        _on = fn.split(".", 1)[1] if fn.startswith("operator.") else OPERATOR_NAMES.get(fn)
        if _on in ("getitem", "contains") and len(node.args) == 2 and not node.keywords and not any(isinstance(a, ast.Starred) for a in node.args):
            if _on == "getitem":
                return ast.copy_location(ast.Subscript(value=node.args[0], slice=node.args[1], ctx=ast.Load()), node)
            return ast.copy_location(ast.Compare(left=node.args[1], ops=[ast.In()], comparators=[node.args[0]]), node)
        if fn == "filter" and len(node.args) == 2 and isinstance(node.args[0], ast.Lambda) and len(node.args[0].args.args) == 1 and not node.args[0].args.defaults:
            lam, xs = node.args
            v = lam.args.args[0].arg
            return ast.copy_location(ast.GeneratorExp(elt=ast.Name(id=v, ctx=ast.Load()), generators=[ast.comprehension(target=ast.Name(id=v, ctx=ast.Store()), iter=xs, ifs=[lam.body], is_async=0)]), node)
        # sum / any / all / min / max / tuple / list / sorted (E for <target> in <literal tuple>)  ->  the same over the unrolled tuple;
        # sum((a, b, c)[, s])  ->  [s +] a + b + c
        if fn in ("sum", "any", "all", "min", "max", "tuple", "list", "sorted") and node.args and isinstance(node.args[0], (ast.GeneratorExp, ast.ListComp)) \
                and len(node.args[0].generators) == 1 and not node.args[0].generators[0].ifs and isinstance(node.args[0].generators[0].iter, (ast.Tuple, ast.List)) \
                and 0 < len(node.args[0].generators[0].iter.elts) <= 8:
            g = node.args[0].generators[0]
            elts = []
            for e in g.iter.elts:
                if isinstance(g.target, ast.Name):
                    elts.append(_subst(node.args[0].elt, {g.target.id: e}))
                elif isinstance(g.target, ast.Tuple) and isinstance(e, (ast.Tuple, ast.List)) and len(e.elts) == len(g.target.elts) and all(isinstance(t, ast.Name) for t in g.target.elts):
                    elts.append(_subst(node.args[0].elt, {t.id: v for t, v in zip(g.target.elts, e.elts)}))
                else:
                    elts = None
                    break
            if elts is not None:
                node.args[0] = ast.copy_location(ast.Tuple(elts=elts, ctx=ast.Load()), node.args[0])
                if fn in ("tuple", "list") and len(node.args) == 1 and not node.keywords:
                    return ast.copy_location(ast.Tuple(elts=elts, ctx=ast.Load()) if fn == "tuple" else ast.List(elts=elts, ctx=ast.Load()), node)
        if fn == "sum" and 1 <= len(node.args) <= 2 and not node.keywords and isinstance(node.args[0], ast.Tuple) and node.args[0].elts:
            acc = node.args[1] if len(node.args) == 2 else None
            for e in node.args[0].elts:
                acc = e if acc is None else ast.BinOp(left=acc, op=ast.Add(), right=e)
            return ast.copy_location(acc, node)
        # bytes.fromhex("82 4b ..")  ->  the bytes literal
        if fn == "bytes.fromhex" and len(node.args) == 1 and not node.keywords and isinstance(node.args[0], ast.Constant) and isinstance(node.args[0].value, str):
            try:
                return ast.copy_location(ast.Constant(value=bytes.fromhex(node.args[0].value)), node)
            except ValueError:
                pass
        # filter(F, X)  ->  (v for v in X if F(v))        (filter(None, X): if v)
        if fn == "filter" and len(node.args) == 2 and not node.keywords and (isinstance(node.args[0], (ast.Name, ast.Attribute, ast.Lambda))
                                                                                 or (isinstance(node.args[0], ast.Constant) and node.args[0].value is None)):
            v = f"_fv{next(_counter)}"
            f0 = node.args[0]
            cond = ast.Name(id=v, ctx=ast.Load()) if isinstance(f0, ast.Constant) else self.visit(ast.Call(func=f0, args=[ast.Name(id=v, ctx=ast.Load())], keywords=[]))
            return ast.copy_location(ast.GeneratorExp(elt=ast.Name(id=v, ctx=ast.Load()),
                                                      generators=[ast.comprehension(target=ast.Name(id=v, ctx=ast.Store()), iter=node.args[1], ifs=[cond], is_async=0)]), node)
        # "a b c".split() / "a,b".split(",")  ->  ["a", "b", "c"]        (a constant string split at definition time)
        if isinstance(node.func, ast.Attribute) and node.func.attr == "split" and isinstance(node.func.value, ast.Constant) and isinstance(node.func.value.value, str) \
                and not node.keywords and len(node.args) <= 1 and all(isinstance(a, ast.Constant) and isinstance(a.value, str) for a in node.args):
            parts = node.func.value.value.split(*[a.value for a in node.args])
            if len(parts) <= 16:
                return ast.copy_location(ast.List(elts=[ast.Constant(value=p_) for p_ in parts], ctx=ast.Load()), node)
        # np.fromiter(G, dtype=D)  ->  np.array([G..], dtype=D)        (the items of the generator, in order, as an array of that dtype)
        if fn in ("np.fromiter", "numpy.fromiter") and node.args and isinstance(node.args[0], (ast.GeneratorExp, ast.ListComp)) \
                and all(k.arg in ("dtype", "count") for k in node.keywords) and len(node.args) <= 2:
            dt = node.args[1] if len(node.args) == 2 else next((k.value for k in node.keywords if k.arg == "dtype"), None)
            if dt is not None:
                lst = ast.ListComp(elt=node.args[0].elt, generators=node.args[0].generators)
                return ast.copy_location(ast.Call(func=ast.Attribute(value=ast.Name(id="np", ctx=ast.Load()), attr="array", ctx=ast.Load()), args=[lst],
                                                  keywords=[ast.keyword(arg="dtype", value=dt)]), node)
        # open(P, mode)  ->  P.open(mode)        (builtin open on a path object: the same file, the same mode)
        if fn == "open" and 1 <= len(node.args) <= 2 and isinstance(node.args[0], (ast.Name, ast.Attribute)) and all(k.arg in ("mode",) for k in node.keywords):
            return ast.copy_location(ast.Call(func=ast.Attribute(value=node.args[0], attr="open", ctx=ast.Load()), args=list(node.args[1:]), keywords=node.keywords), node)
        # list(<generator>) -> [..]
        if fn == "list" and len(node.args) == 1 and not node.keywords and isinstance(node.args[0], ast.GeneratorExp):
            return ast.copy_location(self.visit_ListComp(ast.ListComp(elt=node.args[0].elt, generators=node.args[0].generators)), node)
        # tuple(E for v in (a, b, c)) -> (E[a], E[b], E[c])
        if fn == "tuple" and len(node.args) == 1 and not node.keywords and isinstance(node.args[0], (ast.GeneratorExp, ast.ListComp)) and len(node.args[0].generators) == 1:
            g = node.args[0].generators[0]
            if not g.ifs and isinstance(g.iter, (ast.Tuple, ast.List)) and 0 < len(g.iter.elts) <= 8 and isinstance(g.target, ast.Name) \
                    and not any(isinstance(e, ast.Starred) for e in g.iter.elts):
                elts = [_subst(node.args[0].elt, {g.target.id: e}) for e in g.iter.elts]
                elts = [self.visit(e) for e in elts]
                return ast.copy_location(ast.Tuple(elts=elts, ctx=ast.Load()), node)
        # struct.Struct(F).pack(a) / .unpack(d) / .unpack_from -> struct.pack(F, a) ...
        if isinstance(node.func, ast.Attribute) and node.func.attr in ("pack", "unpack") and isinstance(node.func.value, ast.Call) \
                and ast.unparse(node.func.value.func) in ("struct.Struct", "Struct") and len(node.func.value.args) == 1:
            st = ast.Attribute(value=ast.Name(id="struct", ctx=ast.Load()), attr=node.func.attr, ctx=ast.Load())
            return ast.copy_location(ast.Call(func=st, args=[node.func.value.args[0]] + list(node.args), keywords=node.keywords), node)
        # f(**{"a": x, "b": y})  ->  f(a=x, b=y)
        if any(k.arg is None and isinstance(k.value, ast.Dict) and all(isinstance(kk, ast.Constant) and isinstance(kk.value, str) for kk in k.value.keys) for k in node.keywords):
            kws = []
            for k in node.keywords:
                if k.arg is None and isinstance(k.value, ast.Dict) and all(isinstance(kk, ast.Constant) and isinstance(kk.value, str) for kk in k.value.keys):
                    kws += [ast.keyword(arg=kk.value, value=vv) for kk, vv in zip(k.value.keys, k.value.values)]
                else:
                    kws.append(k)
            node.keywords = kws
        # zip(count(a), X)
        if fn == "zip" and len(node.args) == 2 and isinstance(node.args[0], ast.Call) and ast.unparse(node.args[0].func) in ("count", "itertools.count") and len(node.args[0].args) <= 1:
            start = node.args[0].args[0] if node.args[0].args else ast.Constant(value=0)
            return ast.copy_location(ast.Call(func=ast.Name(id="enumerate", ctx=ast.Load()), args=[node.args[1]], keywords=[ast.keyword(arg="start", value=start)]), node)
        # islice(X, a, None)
        if fn in ("islice", "itertools.islice") and len(node.args) == 3 and isinstance(node.args[2], ast.Constant) and node.args[2].value is None \
                and isinstance(node.args[0], ast.Call) and ast.unparse(node.args[0].func) == "enumerate" and len(node.args[0].args) == 1 and not node.args[0].keywords \
                and isinstance(node.args[1], (ast.Name, ast.Constant, ast.BinOp)):
            # islice(enumerate(L), a, None)  ->  enumerate(L[a:], start=a)      (the same (index, item) pairs)
            L = node.args[0].args[0]
            sl = ast.Subscript(value=L, slice=ast.Slice(lower=copy.deepcopy(node.args[1]), upper=None, step=None), ctx=ast.Load())
            return ast.copy_location(ast.Call(func=ast.Name(id="enumerate", ctx=ast.Load()), args=[sl], keywords=[ast.keyword(arg="start", value=node.args[1])]), node)
        if fn in ("islice", "itertools.islice") and len(node.args) == 3 and isinstance(node.args[2], ast.Constant) and node.args[2].value is None:
            return ast.copy_location(ast.Subscript(value=node.args[0], slice=ast.Slice(lower=node.args[1], upper=None, step=None), ctx=ast.Load()), node)
        # all(map(operator.eq, a, b))
        if fn in ("all", "any") and len(node.args) == 1 and isinstance(node.args[0], ast.Call) and ast.unparse(node.args[0].func) == "map" and len(node.args[0].args) == 3 \
                and ast.unparse(node.args[0].args[0]) in ("operator.eq", "eq"):
            x, y = ast.Name(id="_mx", ctx=ast.Load()), ast.Name(id="_my", ctx=ast.Load())
            z = ast.Call(func=ast.Name(id="zip", ctx=ast.Load()), args=node.args[0].args[1:], keywords=[])
            gen = ast.GeneratorExp(elt=ast.Compare(left=x, ops=[ast.Eq()], comparators=[y]),
                                   generators=[ast.comprehension(target=ast.Tuple(elts=[ast.Name(id="_mx", ctx=ast.Store()), ast.Name(id="_my", ctx=ast.Store())], ctx=ast.Store()), iter=z, ifs=[], is_async=0)])
            return ast.copy_location(ast.Call(func=node.func, args=[gen], keywords=[]), node)
        # f(*(E for v in (a, b)))  ->  f(*[E[a], E[b]])
        for a in node.args:
            if isinstance(a, ast.Starred) and isinstance(a.value, ast.GeneratorExp) and len(a.value.generators) == 1:
                g = a.value.generators[0]
                if not g.ifs and isinstance(g.iter, (ast.Tuple, ast.List)) and 0 < len(g.iter.elts) <= 8 and isinstance(g.target, ast.Name) \
                        and not any(isinstance(e, ast.Starred) for e in g.iter.elts):
                    a.value = ast.copy_location(ast.List(elts=[_subst(a.value.elt, {g.target.id: e}) for e in g.iter.elts], ctx=ast.Load()), a.value)
        # f(*((x,) * 3))  ->  f(x, x, x)        (x a name or literal; K <= 8)
        for a in node.args:
            if isinstance(a, ast.Starred) and isinstance(a.value, ast.BinOp) and isinstance(a.value.op, ast.Mult):
                seq, k = a.value.left, a.value.right
                if isinstance(seq, ast.Constant):
                    seq, k = k, seq
                if isinstance(seq, (ast.Tuple, ast.List)) and isinstance(k, ast.Constant) and isinstance(k.value, int) and 0 <= k.value <= 8 \
                        and all(isinstance(e, (ast.Name, ast.Constant)) for e in seq.elts):
                    a.value = ast.copy_location(ast.Tuple(elts=[copy.deepcopy(e) for _ in range(k.value) for e in seq.elts], ctx=ast.Load()), a.value)
        # f(*[a, b])  ->  f(a, b)
        if any(isinstance(a, ast.Starred) and isinstance(a.value, (ast.List, ast.Tuple)) for a in node.args):
            args = []
            for a in node.args:
                if isinstance(a, ast.Starred) and isinstance(a.value, (ast.List, ast.Tuple)):
                    args += a.value.elts
                else:
                    args.append(a)
            node.args = args
        return node

    def _comp_generators(self, node):
        """for i, j in product(A, B)  ->  for i in A for j in B ;   if (v := E) is not None .. v ..  ->  if E is not None .. E ..
        (E free of calls, v read only inside the comprehension)"""
        gens = []
        for g in node.generators:
            it = g.iter
            if isinstance(it, ast.Call) and ast.unparse(it.func) in ("product", "itertools.product") and len(it.args) == 2 and not it.keywords \
                    and isinstance(g.target, ast.Tuple) and len(g.target.elts) == 2 and not g.is_async:
                gens.append(ast.comprehension(target=g.target.elts[0], iter=it.args[0], ifs=[], is_async=0))
                gens.append(ast.comprehension(target=g.target.elts[1], iter=it.args[1], ifs=g.ifs, is_async=0))
            elif isinstance(it, ast.Call) and ast.unparse(it.func) == "zip" and len(it.args) == 2 and not it.keywords and isinstance(g.target, ast.Tuple) and len(g.target.elts) == 2 \
                    and all(isinstance(t, ast.Name) for t in g.target.elts) and not g.is_async and len(node.generators) == 1 \
                    and any(isinstance(a, ast.Call) and ast.unparse(a.func) in ("repeat", "itertools.repeat") and len(a.args) == 1 and not a.keywords
                            and not any(isinstance(y, (ast.Call, ast.NamedExpr)) for y in ast.walk(a.args[0])) for a in it.args):
                # for a, b in zip(repeat(X), YS)  ->  for b in YS  with a := X      (an endless repeat of a call-free value paired with each element)
                ri = 0 if (isinstance(it.args[0], ast.Call) and ast.unparse(it.args[0].func) in ("repeat", "itertools.repeat") and len(it.args[0].args) == 1) else 1
                X = it.args[ri].args[0]
                rep_name, other_t, other_it = g.target.elts[ri].id, g.target.elts[1 - ri], it.args[1 - ri]
                if rep_name != other_t.id and not any(isinstance(y, ast.Name) and y.id == rep_name for y in ast.walk(other_it)):
                    env = {rep_name: X}
                    for fld in ("elt", "key", "value"):
                        if hasattr(node, fld):
                            setattr(node, fld, _subst(getattr(node, fld), env))
                    gens.append(ast.comprehension(target=other_t, iter=other_it, ifs=[_subst(c, env) for c in g.ifs], is_async=0))
                else:
                    gens.append(g)
            else:
                gens.append(g)
        node.generators = gens
        for g in node.generators:
            for k, cond in enumerate(g.ifs):
                wal = [x for x in ast.walk(cond) if isinstance(x, ast.NamedExpr) and isinstance(x.target, ast.Name)]
                if len(wal) == 1 and not any(isinstance(x, (ast.Call, ast.NamedExpr)) and x is not wal[0] for x in ast.walk(wal[0].value)):
                    v, E = wal[0].target.id, wal[0].value

                    class W(ast.NodeTransformer):
                        def visit_NamedExpr(self, n):
                            return copy.deepcopy(E) if n is wal[0] else self.generic_visit(n)

                        def visit_Name(self, n):
                            return copy.deepcopy(E) if n.id == v and isinstance(n.ctx, ast.Load) else n
                    g.ifs[k] = W().visit(cond)
                    for fld in ("elt", "key", "value"):
                        if hasattr(node, fld):
                            setattr(node, fld, W().visit(getattr(node, fld)))
                    for g2 in node.generators[node.generators.index(g):]:
                        g2.ifs = [W().visit(c) if c is not g.ifs[k] else c for c in g2.ifs]
        return node

    def visit_GeneratorExp(self, node):
        self.generic_visit(node)
        return self._comp_generators(node)

    def visit_ListComp(self, node):
        self.generic_visit(node)
        node = self._comp_generators(node)
        # [E for v in (a, b, c)]  ->  [E[a], E[b], E[c]]
        if len(node.generators) == 1 and not node.generators[0].ifs and isinstance(node.generators[0].iter, (ast.Tuple, ast.List)) \
                and 0 < len(node.generators[0].iter.elts) <= 8 and isinstance(node.generators[0].target, ast.Name):
            g = node.generators[0]
            return ast.copy_location(ast.List(elts=[_subst(node.elt, {g.target.id: e}) for e in g.iter.elts], ctx=ast.Load()), node)
        # [E for _ in range(K)], K literal <= 4, variable unused
        if len(node.generators) == 1 and not node.generators[0].ifs:
            g = node.generators[0]
            it = g.iter
            if isinstance(it, ast.Call) and isinstance(it.func, ast.Name) and it.func.id == "range" and len(it.args) == 1 and isinstance(it.args[0], ast.Constant) \
                    and isinstance(it.args[0].value, int) and 0 < it.args[0].value <= 4 and isinstance(g.target, ast.Name) and g.target.id not in _names(node.elt):
                return ast.copy_location(ast.List(elts=[copy.deepcopy(node.elt) for _ in range(it.args[0].value)], ctx=ast.Load()), node)
        return node

    def visit_Assign(self, node):
        self.generic_visit(node)
        # v = shutil.copyfile(A, B)   ->   shutil.copyfile(A, B); v = B      (copyfile returns its destination)
        if len(node.targets) == 1 and isinstance(node.targets[0], ast.Name) and isinstance(node.value, ast.Call) and ast.unparse(node.value.func) in ("shutil.copyfile",) \
                and len(node.value.args) == 2 and not node.value.keywords and isinstance(node.value.args[1], (ast.Name, ast.Attribute)):
            call = ast.copy_location(ast.Expr(value=node.value), node)
            bind = ast.copy_location(ast.Assign(targets=node.targets, value=copy.deepcopy(node.value.args[1]), lineno=node.lineno), node)
            return [call, bind]
        # h = Record(f(), g())  ->  _h0 = f(); _h1 = g(); h = Record(_h0, _h1)
        if len(node.targets) == 1 and isinstance(node.targets[0], ast.Name) and isinstance(node.value, ast.Call) and isinstance(node.value.func, ast.Name) \
                and node.value.func.id in NT_NAMES and any(isinstance(x, ast.Call) for a_ in list(node.value.args) + [k.value for k in node.value.keywords] for x in ast.walk(a_)) \
                and not any(isinstance(a_, ast.Starred) for a_ in node.value.args) and all(k.arg for k in node.value.keywords):
            pre = []
            k0 = next(_counter)
            new_args, new_kws = [], []
            for i_, a_ in enumerate(node.value.args):
                nm = f"_{node.targets[0].id}{k0}_{i_}"
                pre.append(ast.copy_location(ast.Assign(targets=[ast.Name(id=nm, ctx=ast.Store())], value=a_, lineno=node.lineno), node))
                new_args.append(ast.Name(id=nm, ctx=ast.Load()))
            for kw in node.value.keywords:
                nm = f"_{node.targets[0].id}{k0}_{kw.arg}"
                pre.append(ast.copy_location(ast.Assign(targets=[ast.Name(id=nm, ctx=ast.Store())], value=kw.value, lineno=node.lineno), node))
                new_kws.append(ast.keyword(arg=kw.arg, value=ast.Name(id=nm, ctx=ast.Load())))
            node.value = ast.Call(func=node.value.func, args=new_args, keywords=new_kws)
            return pre + [node]
        # xs = [f(), g()]  ->  _x0 = f(); _x1 = g(); xs = [_x0, _x1]     (elements evaluated in the same order, then named)
        if len(node.targets) == 1 and isinstance(node.targets[0], ast.Name) and isinstance(node.value, (ast.List, ast.Tuple)) and 0 < len(node.value.elts) <= 8 \
                and any(isinstance(x, ast.Call) and ast.unparse(x.func) not in _CONST_CTORS for e in node.value.elts for x in _walk_evaluated(e)) \
                and not any(isinstance(e, ast.Starred) for e in node.value.elts):
            pre, elts = [], []
            k = next(_counter)
            for i, e in enumerate(node.value.elts):
                nm = f"_{node.targets[0].id}{k}_{i}"
                pre.append(ast.copy_location(ast.Assign(targets=[ast.Name(id=nm, ctx=ast.Store())], value=e, lineno=node.lineno), node))
                elts.append(ast.Name(id=nm, ctx=ast.Load()))
            node.value = type(node.value)(elts=elts, ctx=ast.Load())
            return pre + [node]
        # d = {"a": f(), "b": g()}  ->  _d_a = f(); _d_b = g(); d = {"a": _d_a, "b": _d_b}     (string keys; values in order, then named)
        if len(node.targets) == 1 and isinstance(node.targets[0], ast.Name) and isinstance(node.value, ast.Dict) and 0 < len(node.value.keys) <= 8 \
                and all(isinstance(k_, ast.Constant) and isinstance(k_.value, str) and k_.value.isidentifier() for k_ in node.value.keys) \
                and any(isinstance(x, ast.Call) and ast.unparse(x.func) not in _CONST_CTORS for e in node.value.values for x in ast.walk(e)):
            pre, vals = [], []
            k = next(_counter)
            for k_, e in zip(node.value.keys, node.value.values):
                nm = f"_{node.targets[0].id}{k}_{k_.value}"
                pre.append(ast.copy_location(ast.Assign(targets=[ast.Name(id=nm, ctx=ast.Store())], value=e, lineno=node.lineno), node))
                vals.append(ast.Name(id=nm, ctx=ast.Load()))
            node.value = ast.Dict(keys=node.value.keys, values=vals)
            return pre + [node]
        # a, b, c = (E for _ in range(3))
        if len(node.targets) == 1 and isinstance(node.targets[0], (ast.Tuple, ast.List)) and isinstance(node.value, ast.GeneratorExp):
            r = self.visit_ListComp(ast.ListComp(elt=node.value.elt, generators=node.value.generators))
            if isinstance(r, ast.List) and len(r.elts) == len(node.targets[0].elts):
                node.value = ast.Tuple(elts=r.elts, ctx=ast.Load())
        if len(node.targets) == 1 and isinstance(node.targets[0], (ast.Tuple, ast.List)) and isinstance(node.value, ast.List) and len(node.value.elts) == len(node.targets[0].elts):
            node.value = ast.Tuple(elts=node.value.elts, ctx=ast.Load())
        # simultaneous stores of independent values:  self.a, self.b = x, y
        if len(node.targets) == 1 and isinstance(node.targets[0], ast.Tuple) and isinstance(node.value, ast.Tuple) and len(node.targets[0].elts) == len(node.value.elts) \
                and all(isinstance(t, (ast.Name, ast.Attribute)) for t in node.targets[0].elts):
            tts = [ast.unparse(t) for t in node.targets[0].elts]
            okk = True
            for k, v in enumerate(node.value.elts):
                reads = {ast.unparse(x) for x in ast.walk(v) if isinstance(x, (ast.Name, ast.Attribute))}
                # all values are evaluated before any store: a sequential split is the same when no value reads a target stored before it
                if reads & set(tts[:k]):
                    okk = False
            if okk and not any(isinstance(x, ast.Call) for v in node.value.elts for x in ast.walk(v)):
                return [ast.copy_location(ast.Assign(targets=[t], value=v, lineno=node.lineno), node) for t, v in zip(node.targets[0].elts, node.value.elts)]
        return node

    def visit_For(self, node):
        self.generic_visit(node)
        it = node.iter
        # for t in (E for v in XS): B   ->   for v in XS: t = E; B        (a generator is lazy: E is evaluated once per iteration, right before B)
        if isinstance(it, ast.GeneratorExp) and len(it.generators) == 1 and not it.generators[0].ifs and not it.generators[0].is_async and isinstance(it.generators[0].target, ast.Name) \
                and not node.orelse:
            g = it.generators[0]
            v = g.target.id
            clash = any(isinstance(x, ast.Name) and x.id == v for b in node.body for x in ast.walk(b)) or any(isinstance(x, ast.Name) and x.id == v for x in ast.walk(node.target))
            if not clash and not any(isinstance(x, (ast.Yield, ast.YieldFrom, ast.Await)) for x in ast.walk(it.elt)):
                bind = ast.copy_location(ast.Assign(targets=[node.target], value=it.elt, lineno=node.lineno), node)
                node = ast.copy_location(ast.For(target=ast.Name(id=v, ctx=ast.Store()), iter=g.iter, body=[bind] + node.body, orelse=[], type_comment=None), node)
                ast.fix_missing_locations(node)
                it = node.iter
        # for v in enumerate(XS[, k]): .. R._make(v) ..   ->   for (v_0, v_1) in enumerate(XS[, k]): .. R(v_0, v_1) ..     (v used only that way)
        if isinstance(node.target, ast.Name) and isinstance(it, ast.Call) and ast.unparse(it.func) == "enumerate" and 1 <= len(it.args) <= 2 and not node.orelse:
            v = node.target.id
            uses = [x for b in node.body for x in ast.walk(b) if isinstance(x, ast.Name) and x.id == v]
            makes = [x for b in node.body for x in ast.walk(b) if isinstance(x, ast.Call) and isinstance(x.func, ast.Attribute) and x.func.attr == "_make" and isinstance(x.func.value, ast.Name)
                     and len(x.args) == 1 and not x.keywords and isinstance(x.args[0], ast.Name) and x.args[0].id == v]
            if uses and len(uses) == len(makes):
                a_, b_ = f"{v}_0", f"{v}_1"
                for m_ in makes:
                    m_.func = m_.func.value
                    m_.args = [ast.Name(id=a_, ctx=ast.Load()), ast.Name(id=b_, ctx=ast.Load())]
                node.target = ast.Tuple(elts=[ast.Name(id=a_, ctx=ast.Store()), ast.Name(id=b_, ctx=ast.Store())], ctx=ast.Store())
                ast.fix_missing_locations(node)
        # for x in CODEC.bread(stream, n): ..   ->   _it = CODEC.bread(stream, n); for x in _it: ..      (the iterable is evaluated once, first)
        if isinstance(it, ast.Call) and isinstance(it.func, ast.Attribute) and it.func.attr in ("bread", "read") and isinstance(it.func.value, ast.Name):
            tmp = f"_it{next(_counter)}"
            pre = ast.copy_location(ast.Assign(targets=[ast.Name(id=tmp, ctx=ast.Store())], value=it, lineno=node.lineno), node)
            node.iter = ast.copy_location(ast.Name(id=tmp, ctx=ast.Load()), it)
            return [pre, node]
        # for i, v in enumerate((E for _ in range(n))): B   ->   for i in range(n): v = E; B        (generator variable unused in E)
        if isinstance(it, ast.Call) and ast.unparse(it.func) == "enumerate" and len(it.args) == 1 and not it.keywords and isinstance(it.args[0], (ast.GeneratorExp, ast.ListComp)) \
                and len(it.args[0].generators) == 1 and not it.args[0].generators[0].ifs and isinstance(node.target, ast.Tuple) and len(node.target.elts) == 2 \
                and all(isinstance(t, ast.Name) for t in node.target.elts) and not node.orelse:
            g = it.args[0].generators[0]
            r = g.iter
            if isinstance(r, ast.Call) and ast.unparse(r.func) == "range" and len(r.args) == 1 and isinstance(g.target, ast.Name) \
                    and not any(isinstance(x, ast.Name) and x.id == g.target.id for x in ast.walk(it.args[0].elt)):
                bind = ast.copy_location(ast.Assign(targets=[node.target.elts[1]], value=it.args[0].elt, lineno=node.lineno), node)
                return ast.copy_location(ast.For(target=node.target.elts[0], iter=r, body=[bind] + node.body, orelse=[], type_comment=None), node)
        # for (i, j), v in np.ndenumerate(X)  ->  for i in range(X.shape[0]): for j in range(X.shape[1]): v = X[i, j]; ..
        # (the index tuple unpacks into two names, so X is 2-D; ndenumerate walks it in C order, last index fastest)
        if isinstance(it, ast.Call) and ast.unparse(it.func) in ("np.ndenumerate", "numpy.ndenumerate") and len(it.args) == 1 and not it.keywords and not node.orelse \
                and isinstance(it.args[0], (ast.Name, ast.Attribute)) and isinstance(node.target, ast.Tuple) and len(node.target.elts) == 2 \
                and isinstance(node.target.elts[0], ast.Tuple) and len(node.target.elts[0].elts) == 2 and all(isinstance(x, ast.Name) for x in node.target.elts[0].elts) \
                and isinstance(node.target.elts[1], ast.Name) and not _has_jump(node.body):
            X = it.args[0]
            i_, j_ = node.target.elts[0].elts
            shp = lambda k: ast.Subscript(value=ast.Attribute(value=copy.deepcopy(X), attr="shape", ctx=ast.Load()), slice=ast.Constant(value=k), ctx=ast.Load())
            rng = lambda k: ast.Call(func=ast.Name(id="range", ctx=ast.Load()), args=[shp(k)], keywords=[])
            cell = ast.Subscript(value=copy.deepcopy(X), slice=ast.Tuple(elts=[ast.Name(id=i_.id, ctx=ast.Load()), ast.Name(id=j_.id, ctx=ast.Load())], ctx=ast.Load()), ctx=ast.Load())
            bind = ast.copy_location(ast.Assign(targets=[node.target.elts[1]], value=cell, lineno=node.lineno), node)
            inner = ast.copy_location(ast.For(target=j_, iter=rng(1), body=[bind] + node.body, orelse=[], type_comment=None), node)
            return ast.fix_missing_locations(ast.copy_location(ast.For(target=i_, iter=rng(0), body=[inner], orelse=[], type_comment=None), node))
        if isinstance(it, ast.Call) and not node.orelse:
            fn = ast.unparse(it.func)
            # for v in list(X) / tuple(X)  with X an iteration helper over pure arguments  ->  for v in X
            if fn in ("list", "tuple") and len(it.args) == 1 and not it.keywords and isinstance(it.args[0], ast.Call) \
                    and ast.unparse(it.args[0].func) in ("product", "itertools.product", "range", "zip", "enumerate") \
                    and not any(isinstance(x, ast.Call) and ast.unparse(x.func) not in ("range", "len", "product", "itertools.product", "zip", "enumerate") for x in ast.walk(it.args[0])):
                node.iter = it = it.args[0]
                fn = ast.unparse(it.func)
            # for v in repeat(E, n)  ->  for _ in range(n) [v = E]        (E a name or literal: the same object every time)
            if fn in ("repeat", "itertools.repeat") and len(it.args) == 2 and not it.keywords and isinstance(node.target, ast.Name) \
                    and isinstance(it.args[0], (ast.Name, ast.Constant)):
                used = any(isinstance(x, ast.Name) and x.id == node.target.id for s_ in node.body for x in ast.walk(s_))
                rng = ast.Call(func=ast.Name(id="range", ctx=ast.Load()), args=[it.args[1]], keywords=[])
                if not used:
                    node.iter = ast.copy_location(rng, it)
                    return node
                k = next(_counter)
                bind = ast.copy_location(ast.Assign(targets=[node.target], value=it.args[0], lineno=node.lineno), node)
                return ast.copy_location(ast.For(target=ast.Name(id=f"_rp{k}", ctx=ast.Store()), iter=rng, body=[bind] + node.body, orelse=[], type_comment=None), node)
            # for cell in product(A, B)  ->  for _i in A: for _j in B: cell = (_i, _j); ..
            if fn in ("product", "itertools.product") and len(it.args) == 2 and not it.keywords and isinstance(node.target, ast.Name) and not _has_jump(node.body):
                k = next(_counter)
                a, b = ast.Name(id=f"_pi{k}", ctx=ast.Store()), ast.Name(id=f"_pj{k}", ctx=ast.Store())
                bind = ast.copy_location(ast.Assign(targets=[node.target], value=ast.Tuple(elts=[ast.Name(id=a.id, ctx=ast.Load()), ast.Name(id=b.id, ctx=ast.Load())], ctx=ast.Load()),
                                                    lineno=node.lineno), node)
                inner = ast.copy_location(ast.For(target=b, iter=it.args[1], body=[bind] + node.body, orelse=[], type_comment=None), node)
                return ast.copy_location(ast.For(target=a, iter=it.args[0], body=[inner], orelse=[], type_comment=None), node)
            # for i, j in product(A, B)
            if fn in ("product", "itertools.product") and len(it.args) == 2 and not it.keywords and isinstance(node.target, ast.Tuple) and len(node.target.elts) == 2 \
                    and not _has_jump(node.body):
                inner = ast.copy_location(ast.For(target=node.target.elts[1], iter=it.args[1], body=node.body, orelse=[], type_comment=None), node)
                return ast.copy_location(ast.For(target=node.target.elts[0], iter=it.args[0], body=[inner], orelse=[], type_comment=None), node)
            # for x in chain.from_iterable(E for y in Y)
            if fn in ("chain.from_iterable", "itertools.chain.from_iterable") and len(it.args) == 1 and isinstance(it.args[0], (ast.GeneratorExp, ast.ListComp)) \
                    and len(it.args[0].generators) == 1 and not it.args[0].generators[0].ifs and not _has_jump(node.body):
                g = it.args[0].generators[0]
                inner = ast.copy_location(ast.For(target=node.target, iter=it.args[0].elt, body=node.body, orelse=[], type_comment=None), node)
                tgt = copy.deepcopy(g.target)
                for x in ast.walk(tgt):
                    if isinstance(x, ast.Name):
                        x.ctx = ast.Store()
                return ast.copy_location(ast.For(target=tgt, iter=g.iter, body=[inner], orelse=[], type_comment=None), node)
        return node


def _struct_size(fmt: str):
    sizes = {"b": 1, "B": 1, "?": 1, "c": 1, "h": 2, "H": 2, "i": 4, "I": 4, "l": 4, "L": 4, "f": 4, "q": 8, "Q": 8, "d": 8, "x": 1}
    f = fmt
    if not f or f[0] not in "<>=!":
        return None  # native alignment: not a fixed size
    f = f[1:]
    total, num = 0, ""
    for ch in f:
        if ch.isdigit():
            num += ch
            continue
        if ch == "s":
            total += int(num or 1)
        elif ch in sizes:
            total += sizes[ch] * int(num or 1)
        else:
            return None
        num = ""
    return total if not num else None


class TryFinallyClose:
    """X = <open expr>; try: BODY finally: X.close()      ==>   with <open expr> as X: BODY"""

    def run(self, tree):
        for owner, fld in list(_blocks(tree)):
            stmts = getattr(owner, fld)
            out = []
            i = 0
            while i < len(stmts):
                st = stmts[i]
                nxt = stmts[i + 1] if i + 1 < len(stmts) else None
                if isinstance(st, ast.Assign) and len(st.targets) == 1 and isinstance(st.targets[0], ast.Name) and isinstance(st.value, ast.Call) \
                        and (ast.unparse(st.value.func) == "open" or (isinstance(st.value.func, ast.Attribute) and st.value.func.attr == "open")) \
                        and isinstance(nxt, ast.Try) and not nxt.handlers and not nxt.orelse and len(nxt.finalbody) == 1 and isinstance(nxt.finalbody[0], ast.Expr) \
                        and isinstance(nxt.finalbody[0].value, ast.Call) and ast.unparse(nxt.finalbody[0].value.func) == f"{st.targets[0].id}.close":
                    w = ast.With(items=[ast.withitem(context_expr=st.value, optional_vars=ast.Name(id=st.targets[0].id, ctx=ast.Store()))], body=nxt.body)
                    out.append(ast.copy_location(w, st))
                    i += 2
                    continue
                out.append(st)
                i += 1
            setattr(owner, fld, out)


# ------------------------------------------------------------------------------------------- D4 local closures
def inline_closures(tree):
    from .normalize import Helper, Inliner
    n = 0
    for fn in [x for x in ast.walk(tree) if isinstance(x, ast.FunctionDef)]:
        local = [s for owner, fld in _blocks(fn) for s in getattr(owner, fld) if isinstance(s, ast.FunctionDef) and s is not fn]
        # only closures defined directly in this function (not inside a nested def)
        nested_inside = {id(x) for d in local for x in ast.walk(d) if isinstance(x, ast.FunctionDef) and x is not d}
        local = [d for d in local if id(d) not in nested_inside and not d.decorator_list]
        if not local:
            continue
        # for v in X: closure(*v)   with closure(a, b) a local def   ==>   for v_0, v_1 in X: closure(v_0, v_1)
        arity = {d.name: len(d.args.args) for d in local if not d.args.vararg and not d.args.kwarg and not d.args.kwonlyargs and not d.args.defaults}
        for loop in [x for x in ast.walk(fn) if isinstance(x, ast.For) and isinstance(x.target, ast.Name)]:
            v = loop.target.id
            uses = [x for s_ in loop.body + loop.orelse for x in ast.walk(s_) if isinstance(x, ast.Name) and x.id == v]
            calls = [c for s_ in loop.body + loop.orelse for c in ast.walk(s_) if isinstance(c, ast.Call) and isinstance(c.func, ast.Name) and c.func.id in arity
                     and len(c.args) == 1 and isinstance(c.args[0], ast.Starred) and isinstance(c.args[0].value, ast.Name) and c.args[0].value.id == v and not c.keywords]
            if uses and len(uses) == len(calls) and len({arity[c.func.id] for c in calls}) == 1 and arity[calls[0].func.id] >= 2:
                k = arity[calls[0].func.id]
                names = [f"{v}_{i}" for i in range(k)]
                if not any(isinstance(x, ast.Name) and x.id in names for x in ast.walk(fn)):
                    for c in calls:
                        c.args = [ast.Name(id=nm, ctx=ast.Load()) for nm in names]
                    loop.target = ast.copy_location(ast.Tuple(elts=[ast.Name(id=nm, ctx=ast.Store()) for nm in names], ctx=ast.Store()), loop.target)
                    ast.fix_missing_locations(loop)
        helpers = {}
        for d in local:
            # used only through direct calls
            loads = [x for x in ast.walk(fn) if isinstance(x, ast.Name) and x.id == d.name and isinstance(x.ctx, ast.Load)]
            calls = [x for x in ast.walk(fn) if isinstance(x, ast.Call) and isinstance(x.func, ast.Name) and x.func.id == d.name]
            if not loads or len(loads) != len(calls):
                continue
            # def f(a, *rest)  called as f(x, p, q)   ==>   def f(a, rest)  called as f(x, (p, q))      (`rest` IS the tuple of the extra arguments)
            if d.args.vararg and not d.args.kwarg and not d.args.kwonlyargs and not d.args.defaults \
                    and not any(isinstance(x, ast.Name) and x.id == d.args.vararg.arg and isinstance(x.ctx, (ast.Store, ast.Del)) for x in ast.walk(d)) \
                    and all(not c.keywords and not any(isinstance(a, ast.Starred) for a in c.args) and len(c.args) >= len(d.args.args) for c in calls):
                k = len(d.args.args)
                for c in calls:
                    c.args = c.args[:k] + [ast.copy_location(ast.Tuple(elts=c.args[k:], ctx=ast.Load()), c)]
                d.args.args.append(ast.arg(arg=d.args.vararg.arg, annotation=None))
                d.args.vararg = None
                ast.fix_missing_locations(fn)
            if any(isinstance(x, (ast.Yield, ast.YieldFrom, ast.Global, ast.Nonlocal, ast.Lambda)) for x in ast.walk(d)):
                continue
            h = Helper(d, None, "function")
            if h.vararg or h.recursive():
                continue
            # it must not assign to names it reads from the enclosing scope before assigning them (plain locals are renamed)
            helpers[(None, d.name)] = h
        if not helpers:
            continue
        inl = Inliner(helpers, {})
        inl.process_function(fn, None)
        for (k, name), h in helpers.items():
            still = any(isinstance(x, ast.Name) and x.id == name and isinstance(x.ctx, ast.Load) for x in ast.walk(fn))
            if not still:
                for owner, fld in list(_blocks(fn)):
                    lst = getattr(owner, fld)
                    if any(s is h.node for s in lst):
                        setattr(owner, fld, [s for s in lst if s is not h.node] or [ast.Pass()])
                n += 1
    return n


# ------------------------------------------------------------------------------------------- D12 single-yield context managers
def inline_contextmanagers(tree):
    """`with self._cm(a): BODY` where `_cm` is a private @contextmanager generator with exactly one statement-level `yield`:
    the generator body with the yield replaced by BODY (that is what contextlib does: an exception of BODY is thrown in at the
    yield, so the generator's try/except/finally around the yield sees it).  The helper is removed once no use is left."""
    import copy
    n = 0

    def cms(body):
        out = {}
        for st in body:
            if isinstance(st, ast.FunctionDef) and st.name.startswith("_") and not st.name.startswith("__") \
                    and [ast.unparse(d) for d in st.decorator_list] in (["contextmanager"], ["contextlib.contextmanager"]):
                ys = [x for x in ast.walk(st) if isinstance(x, (ast.Yield, ast.YieldFrom))]
                if len(ys) != 1 or not isinstance(ys[0], ast.Yield):
                    continue
                # the yield is a statement of its own
                if not any(isinstance(x, ast.Expr) and x.value is ys[0] for x in ast.walk(st)):
                    continue
                if st.args.vararg or st.args.kwarg or st.args.kwonlyargs or st.args.defaults:
                    continue
                if any(isinstance(x, (ast.FunctionDef, ast.Lambda, ast.Global, ast.Nonlocal)) and x is not st for x in ast.walk(st)):
                    continue
                if any(isinstance(x, ast.Return) for x in ast.walk(st)):
                    continue
                out[st.name] = st
        return out

    def expand(with_st, helper, call, is_method):
        params = [a.arg for a in helper.args.args]
        args = list(call.args)
        if call.keywords:
            return None
        env = {}
        pre = []
        if is_method:
            if not params:
                return None
            env[params[0]] = call.func.value
            params = params[1:]
        if len(params) != len(args):
            return None
        for pn, a in zip(params, args):
            if isinstance(a, (ast.Name, ast.Constant)) or (isinstance(a, ast.Attribute) and isinstance(a.value, ast.Name)):
                env[pn] = a
            else:
                tmp = f"_cm_{helper.name}_{pn}"
                pre.append(ast.Assign(targets=[ast.Name(id=tmp, ctx=ast.Store())], value=a))
                env[pn] = ast.Name(id=tmp, ctx=ast.Load())
        stored = {x.id for x in ast.walk(helper) if isinstance(x, ast.Name) and isinstance(x.ctx, ast.Store)}
        stored |= {h.name for h in ast.walk(helper) if isinstance(h, ast.ExceptHandler) and h.name}
        if stored & set(env):
            return None
        ren = {v: f"_cm_{helper.name}_{v}" for v in stored}
        body = [copy.deepcopy(b) for b in helper.body if not (isinstance(b, ast.Expr) and isinstance(b.value, ast.Constant))]
        item = with_st.items[0]

        class R(ast.NodeTransformer):
            def visit_Name(self, node):
                if node.id in ren:
                    return ast.copy_location(ast.Name(id=ren[node.id], ctx=node.ctx), node)
                if node.id in env and isinstance(node.ctx, ast.Load):
                    return copy.deepcopy(env[node.id])
                return node

            def visit_ExceptHandler(self, node):
                self.generic_visit(node)
                if node.name in ren:
                    node.name = ren[node.name]
                return node

            def visit_Expr(self, node):
                if isinstance(node.value, ast.Yield):
                    out = []
                    if item.optional_vars is not None:
                        v = self.visit(node.value.value) if node.value.value is not None else ast.Constant(value=None)
                        out.append(ast.Assign(targets=[item.optional_vars], value=v))
                    return out + list(with_st.body)
                self.generic_visit(node)
                return node

        mod = ast.Module(body=body, type_ignores=[])
        R().visit(mod)
        return pre + mod.body

    def rewrite(owner_body, helpers, is_method):
        nonlocal n
        if not helpers:
            return

        class W(ast.NodeTransformer):
            def visit_With(self, node):
                self.generic_visit(node)
                if len(node.items) == 1 and isinstance(node.items[0].context_expr, ast.Call):
                    c = node.items[0].context_expr
                    name = None
                    if is_method and isinstance(c.func, ast.Attribute) and isinstance(c.func.value, ast.Name) and c.func.attr in helpers:
                        name = c.func.attr
                    elif not is_method and isinstance(c.func, ast.Name) and c.func.id in helpers:
                        name = c.func.id
                    if name:
                        new = expand(node, helpers[name], c, is_method)
                        if new is not None:
                            nonlocal_n[0] += 1
                            return new
                return node

        nonlocal_n = [0]
        for st in owner_body:
            if isinstance(st, ast.FunctionDef) and st.name not in helpers:
                W().visit(st)
        n += nonlocal_n[0]

    mh = cms(tree.body)
    for cls in [x for x in tree.body if isinstance(x, ast.ClassDef)]:
        ch = cms(cls.body)
        rewrite(cls.body, ch, True)
        rewrite(cls.body, mh, False)
        for name, h in ch.items():
            if not any(isinstance(x, ast.Attribute) and x.attr == name for x in ast.walk(tree)):
                cls.body = [s for s in cls.body if s is not h] or [ast.Pass()]
    rewrite(tree.body, mh, False)
    for name, h in mh.items():
        if not any(isinstance(x, ast.Name) and x.id == name and isinstance(x.ctx, ast.Load) for x in ast.walk(tree)):
            tree.body = [s for s in tree.body if s is not h]
    if n:
        ast.fix_missing_locations(tree)
    return n


# ------------------------------------------------------------------------------------------- D13 field names of a literal record type
def dtype_names(tree):
    """`N.btype.names` / `N.names` for a module constant `N = TdfType(np.dtype([("a", ..), ..]))` / `N = np.dtype([..])`: the
    literal tuple of field names (numpy's dtype.names is the field names in declaration order)."""
    def fields(v):
        if isinstance(v, ast.Call) and ast.unparse(v.func) in ("np.dtype", "numpy.dtype") and len(v.args) == 1 and not v.keywords:
            v = v.args[0]
        else:
            return None
        if isinstance(v, ast.List) and v.elts and all(isinstance(e, ast.Tuple) and len(e.elts) >= 2 and isinstance(e.elts[0], ast.Constant)
                                                       and isinstance(e.elts[0].value, str) for e in v.elts):
            return [e.elts[0].value for e in v.elts]
        return None

    wrapped, plain = {}, {}
    stores = {}
    for x in ast.walk(tree):
        if isinstance(x, ast.Name) and isinstance(x.ctx, ast.Store):
            stores[x.id] = stores.get(x.id, 0) + 1
    for st in tree.body:
        if isinstance(st, ast.Assign) and len(st.targets) == 1 and isinstance(st.targets[0], ast.Name) and stores.get(st.targets[0].id) == 1:
            v = st.value
            if isinstance(v, ast.Call) and isinstance(v.func, ast.Name) and v.func.id == "TdfType" and len(v.args) == 1 and not v.keywords:
                f = fields(v.args[0])
                if f:
                    wrapped[st.targets[0].id] = f
            else:
                f = fields(v)
                if f:
                    plain[st.targets[0].id] = f
    if not wrapped and not plain:
        return 0
    n = [0]
    # x = np.empty(.., dtype=D) (x bound once in the function)  ...  x.dtype   ==>   D      (an array keeps the dtype it was created with)
    for fn in [f for f in ast.walk(tree) if isinstance(f, ast.FunctionDef)]:
        st_count = {}
        for x in ast.walk(fn):
            if isinstance(x, ast.Name) and isinstance(x.ctx, (ast.Store, ast.Del)):
                st_count[x.id] = st_count.get(x.id, 0) + 1
        made = {}
        for st in ast.walk(fn):
            if isinstance(st, ast.Assign) and len(st.targets) == 1 and isinstance(st.targets[0], ast.Name) and st_count.get(st.targets[0].id) == 1 \
                    and isinstance(st.value, ast.Call) and ast.unparse(st.value.func) in ("np.empty", "np.zeros", "np.ones", "np.full", "numpy.empty", "numpy.zeros", "numpy.ones", "numpy.full"):
                dt = next((k.value for k in st.value.keywords if k.arg == "dtype"), None)
                if dt is not None and st.targets[0].id not in {a.arg for a in fn.args.args + fn.args.kwonlyargs}:
                    made[st.targets[0].id] = dt
        if made:
            class DT(ast.NodeTransformer):
                def visit_Attribute(self, node):
                    self.generic_visit(node)
                    if node.attr == "dtype" and isinstance(node.ctx, ast.Load) and isinstance(node.value, ast.Name) and node.value.id in made:
                        return ast.copy_location(copy.deepcopy(made[node.value.id]), node)
                    return node
            DT().visit(fn)

    class R(ast.NodeTransformer):
        def visit_Attribute(self, node):
            self.generic_visit(node)
            if node.attr == "names" and isinstance(node.ctx, ast.Load):
                v = node.value
                f = None
                if isinstance(v, ast.Name) and v.id in plain:
                    f = plain[v.id]
                elif isinstance(v, ast.Attribute) and v.attr == "btype" and isinstance(v.value, ast.Name) and v.value.id in wrapped:
                    f = wrapped[v.value.id]
                if f:
                    n[0] += 1
                    return ast.copy_location(ast.Tuple(elts=[ast.Constant(value=k) for k in f], ctx=ast.Load()), node)
            return node

    R().visit(tree)
    return n[0]


# ------------------------------------------------------------------------------------------- D14 self[k] through a forwarding __getitem__
def inline_self_subscripts(tree):
    """`self[K]` inside a class whose `__getitem__(self, k)` is a single `return E(self, k)`: that expression with k := K
    (what the subscript evaluates by definition; K must be a name / attribute / literal so that it may be evaluated where E uses it)."""
    n = 0
    for cls in [x for x in tree.body if isinstance(x, ast.ClassDef)]:
        gi = next((m for m in cls.body if isinstance(m, ast.FunctionDef) and m.name == "__getitem__" and not m.decorator_list), None)
        if gi is None or len(gi.args.args) != 2 or gi.args.vararg or gi.args.kwarg or gi.args.defaults:
            continue
        body = [b for b in gi.body if not (isinstance(b, ast.Expr) and isinstance(b.value, ast.Constant))]
        if len(body) != 1 or not isinstance(body[0], ast.Return) or body[0].value is None:
            continue
        sp, kp = gi.args.args[0].arg, gi.args.args[1].arg
        expr = body[0].value
        if any(isinstance(x, (ast.Lambda, ast.NamedExpr, ast.Yield, ast.Await)) for x in ast.walk(expr)):
            continue
        if sum(1 for x in ast.walk(expr) if isinstance(x, ast.Name) and x.id == kp) != 1:
            continue
        for m in cls.body:
            if not isinstance(m, ast.FunctionDef) or m is gi or not m.args.args:
                continue
            me = m.args.args[0].arg
            if any(isinstance(d, ast.Name) and d.id == "staticmethod" for d in m.decorator_list):
                continue

            class R(ast.NodeTransformer):
                def visit_Subscript(self, node):
                    self.generic_visit(node)
                    if isinstance(node.ctx, ast.Load) and isinstance(node.value, ast.Name) and node.value.id == me and not isinstance(node.slice, ast.Slice) \
                            and (isinstance(node.slice, (ast.Name, ast.Constant)) or (isinstance(node.slice, ast.Attribute) and isinstance(node.slice.value, ast.Name))):
                        nonlocal n
                        n += 1
                        return ast.copy_location(_subst(expr, {sp: ast.Name(id=me, ctx=ast.Load()), kp: node.slice}), node)
                    return node

            R().visit(m)
    # len(self) through a single-return __len__; in __eq__ also len(<other>) once <other> is known to be an instance of the class
    for cls in [x for x in tree.body if isinstance(x, ast.ClassDef)]:
        ln = next((m for m in cls.body if isinstance(m, ast.FunctionDef) and m.name == "__len__" and not m.decorator_list and len(m.args.args) == 1), None)
        if ln is None:
            continue
        body = [b for b in ln.body if not (isinstance(b, ast.Expr) and isinstance(b.value, ast.Constant))]
        if len(body) != 1 or not isinstance(body[0], ast.Return) or body[0].value is None or any(isinstance(x, (ast.Lambda, ast.NamedExpr)) for x in ast.walk(body[0].value)):
            continue
        sp = ln.args.args[0].arg
        expr = body[0].value
        for m in cls.body:
            if not isinstance(m, ast.FunctionDef) or m is ln or not m.args.args or any(isinstance(d, ast.Name) and d.id == "staticmethod" for d in m.decorator_list):
                continue
            me = m.args.args[0].arg
            who = {me}
            if m.name == "__eq__" and len(m.args.args) == 2:
                o = m.args.args[1].arg
                if any(isinstance(c, ast.Call) and isinstance(c.func, ast.Name) and c.func.id == "isinstance" and len(c.args) == 2 and isinstance(c.args[0], ast.Name)
                       and c.args[0].id == o and isinstance(c.args[1], ast.Name) and c.args[1].id == cls.name for c in ast.walk(m)) \
                        and not any(isinstance(x, ast.Name) and x.id == o and isinstance(x.ctx, ast.Store) for x in ast.walk(m)):
                    who.add(o)

            class L(ast.NodeTransformer):
                def visit_Call(self, node):
                    self.generic_visit(node)
                    if isinstance(node.func, ast.Name) and node.func.id == "len" and len(node.args) == 1 and not node.keywords and isinstance(node.args[0], ast.Name) \
                            and node.args[0].id in who:
                        nonlocal n
                        n += 1
                        return ast.copy_location(_subst(expr, {sp: ast.Name(id=node.args[0].id, ctx=ast.Load())}), node)
                    return node

            L().visit(m)
    # `for x in self` / `(.. for x in self ..)` through `def __iter__(self): return iter(self.<attr>)`: the items of that attribute, in order
    for cls in [x for x in tree.body if isinstance(x, ast.ClassDef)]:
        it = next((m for m in cls.body if isinstance(m, ast.FunctionDef) and m.name == "__iter__" and not m.decorator_list and len(m.args.args) == 1), None)
        if it is None:
            continue
        body = [b for b in it.body if not (isinstance(b, ast.Expr) and isinstance(b.value, ast.Constant))]
        if not (len(body) == 1 and isinstance(body[0], ast.Return) and isinstance(body[0].value, ast.Call) and ast.unparse(body[0].value.func) == "iter"
                and len(body[0].value.args) == 1 and isinstance(body[0].value.args[0], ast.Attribute) and isinstance(body[0].value.args[0].value, ast.Name)
                and body[0].value.args[0].value.id == it.args.args[0].arg):
            continue
        attr = body[0].value.args[0].attr
        for m in cls.body:
            if not isinstance(m, ast.FunctionDef) or m is it or not m.args.args or any(isinstance(d, ast.Name) and d.id == "staticmethod" for d in m.decorator_list):
                continue
            me = m.args.args[0].arg
            if any(isinstance(x, ast.Name) and x.id == me and isinstance(x.ctx, ast.Store) for x in ast.walk(m)):
                continue
            for x in ast.walk(m):
                for holder, fld in ((x, "iter"),) if isinstance(x, (ast.For, ast.comprehension)) else ():
                    cur = getattr(holder, fld)
                    if isinstance(cur, ast.Name) and cur.id == me:
                        setattr(holder, fld, ast.copy_location(ast.Attribute(value=ast.Name(id=me, ctx=ast.Load()), attr=attr, ctx=ast.Load()), cur))
                        n += 1
    if n:
        ast.fix_missing_locations(tree)
    return n


# ------------------------------------------------------------------------------------------- D15 local bytearray assembly
def bytearray_assembly(tree):
    """B = bytearray(E); B.append(k); B.extend(X); B += Y; .. len(B) .. bytes(B)     (B a local that is only built, measured and
    finally frozen)   ==>   the same with an immutable value:  B = bytes(E); B = B + (the one byte k); B = B + X; .. len(B) .. B"""
    n = 0
    for fn in [x for x in ast.walk(tree) if isinstance(x, ast.FunctionDef)]:
        cands = {}
        for st in ast.walk(fn):
            if isinstance(st, ast.Assign) and len(st.targets) == 1 and isinstance(st.targets[0], ast.Name) and isinstance(st.value, ast.Call) \
                    and ast.unparse(st.value.func) == "bytearray" and len(st.value.args) <= 1 and not st.value.keywords:
                cands.setdefault(st.targets[0].id, []).append(st)
        for name, defs in cands.items():
            if len(defs) != 1:
                continue
            stores = [x for x in ast.walk(fn) if isinstance(x, ast.Name) and x.id == name and isinstance(x.ctx, (ast.Store, ast.Del))]
            if len(stores) != 1:
                # an augmented assignment B += X stores too: allow those
                if not all(any(isinstance(a, ast.AugAssign) and a.target is s_ for a in ast.walk(fn)) or s_ is defs[0].targets[0] for s_ in stores):
                    continue
            ok = True
            muts, frozen, lens = [], [], []
            parents = {}
            for p_ in ast.walk(fn):
                for c_ in ast.iter_child_nodes(p_):
                    parents[id(c_)] = p_
            for x in ast.walk(fn):
                if not (isinstance(x, ast.Name) and x.id == name and isinstance(x.ctx, ast.Load)):
                    continue
                par = parents.get(id(x))
                gp = parents.get(id(par)) if par is not None else None
                ggp = parents.get(id(gp)) if gp is not None else None
                if isinstance(par, ast.Attribute) and par.attr in ("append", "extend") and isinstance(gp, ast.Call) and gp.func is par and len(gp.args) == 1 and isinstance(ggp, ast.Expr):
                    if par.attr == "append" and not (isinstance(gp.args[0], ast.Constant) and isinstance(gp.args[0].value, int) and 0 <= gp.args[0].value < 256):
                        ok = False
                    muts.append((ggp, par.attr, gp.args[0]))
                elif isinstance(par, ast.Call) and isinstance(par.func, ast.Name) and par.func.id in ("len", "bytes") and len(par.args) == 1 and par.args[0] is x:
                    (lens if par.func.id == "len" else frozen).append(par)
                else:
                    ok = False
            if not ok or not frozen:
                continue
            # rewrite
            d = defs[0]
            d.value = ast.copy_location(ast.Call(func=ast.Name(id="bytes", ctx=ast.Load()), args=d.value.args, keywords=[]), d.value) if d.value.args else ast.Constant(value=b"")
            if isinstance(d.value, ast.Call) and d.value.args and isinstance(d.value.args[0], ast.Call) and isinstance(d.value.args[0].func, ast.Attribute) and d.value.args[0].func.attr == "encode":
                d.value = d.value.args[0]      # bytes(<str>.encode(..)) is that bytes object
            repl = {}
            for stmt, kind, arg in muts:
                add = ast.Constant(value=bytes([arg.value])) if kind == "append" else arg
                repl[id(stmt)] = ast.copy_location(ast.Assign(targets=[ast.Name(id=name, ctx=ast.Store())],
                                                                value=ast.BinOp(left=ast.Name(id=name, ctx=ast.Load()), op=ast.Add(), right=add), lineno=stmt.lineno), stmt)
            fz = {id(c) for c in frozen}

            class R(ast.NodeTransformer):
                def visit_Expr(self, node):
                    return repl.get(id(node), node)

                def visit_Call(self, node):
                    self.generic_visit(node)
                    if id(node) in fz:
                        return ast.copy_location(ast.Name(id=name, ctx=ast.Load()), node)
                    return node

            R().visit(fn)
            n += 1
    if n:
        ast.fix_missing_locations(tree)
    return n


# ------------------------------------------------------------------------------------------- D16 transposed views of local 2-D arrays
def transpose_views(tree):
    """X a local bound once to a syntactically two-dimensional array (`E.reshape([a, b])`, `np.zeros((a, b), ..)`, empty, full):
       X.T[i, j]  ==>  X[j, i];   and, for a freshly allocated X whose every other use is a two-index subscript,
       `X = zeros((a, b)); X[i, j] = v; f(X.T)`  ==>  `X = zeros((b, a)); X[j, i] = v; f(X)`  (the same array seen transposed)."""
    n = 0
    for fn in [x for x in ast.walk(tree) if isinstance(x, ast.FunctionDef)]:
        stores = {}
        for x in ast.walk(fn):
            if isinstance(x, ast.Name) and isinstance(x.ctx, (ast.Store, ast.Del)):
                stores[x.id] = stores.get(x.id, 0) + 1
        two_d = {}
        dims_of = {}
        for st in ast.walk(fn):
            if isinstance(st, ast.Assign) and len(st.targets) == 1 and isinstance(st.targets[0], ast.Name) and stores.get(st.targets[0].id) == 1 and isinstance(st.value, ast.Call):
                c = st.value
                f = ast.unparse(c.func)
                shape = None
                fresh = False
                if isinstance(c.func, ast.Attribute) and c.func.attr == "reshape":
                    if len(c.args) == 1 and isinstance(c.args[0], (ast.Tuple, ast.List)) and len(c.args[0].elts) == 2:
                        shape = c.args[0]
                    elif len(c.args) == 2:
                        shape = c.args
                elif f in ("np.zeros", "np.empty", "np.full", "numpy.zeros", "numpy.empty", "numpy.full") and c.args and isinstance(c.args[0], (ast.Tuple, ast.List)) and len(c.args[0].elts) == 2:
                    shape, fresh = c.args[0], True
                if shape is not None:
                    two_d[st.targets[0].id] = (st, fresh)
                    dims = list(shape.elts) if isinstance(shape, (ast.Tuple, ast.List)) else list(shape)
                    if all(isinstance(d_, (ast.Name, ast.Attribute)) or (isinstance(d_, ast.Constant) and type(d_.value) is int and d_.value >= 0) for d_ in dims):
                        dims_of[st.targets[0].id] = dims
        if not two_d:
            continue

        class A(ast.NodeTransformer):
            def visit_Subscript(self, node):
                nonlocal n
                self.generic_visit(node)
                v = node.value
                # X.T.shape[k] is X.shape[1 - k];  X.shape[k] of `X = E.reshape([a, b])` is a / b (plain names: their value is the one the array was built with
                # only if they are not re-bound, which the single-store test on the names covers)
                if isinstance(v, ast.Attribute) and v.attr == "shape" and isinstance(node.slice, ast.Constant) and node.slice.value in (0, 1) and isinstance(node.ctx, ast.Load):
                    base, k = v.value, node.slice.value
                    if isinstance(base, ast.Attribute) and base.attr == "T":
                        base, k = base.value, 1 - k
                    if isinstance(base, ast.Name) and base.id in two_d:
                        d_ = dims_of.get(base.id, [None, None])[k]
                        if d_ is not None and all(stores.get(y.id, 0) == (0 if y.id in {a.arg for a in fn.args.args + fn.args.kwonlyargs + fn.args.posonlyargs} else 1) for y in ast.walk(d_) if isinstance(y, ast.Name)):
                            n += 1
                            return copy.deepcopy(d_)
                        if k != node.slice.value:
                            n += 1
                            return ast.copy_location(ast.Subscript(value=ast.Attribute(value=base, attr="shape", ctx=ast.Load()), slice=ast.Constant(k), ctx=ast.Load()), node)
                if isinstance(v, ast.Attribute) and v.attr == "T" and isinstance(v.value, ast.Name) and v.value.id in two_d and isinstance(node.slice, ast.Tuple) \
                        and len(node.slice.elts) == 2 and not any(isinstance(e, (ast.Slice, ast.Starred)) for e in node.slice.elts):
                    n += 1
                    node.value = v.value
                    node.slice = ast.Tuple(elts=[node.slice.elts[1], node.slice.elts[0]], ctx=ast.Load())
                return node

        A().visit(fn)
        for name, (st, fresh) in two_d.items():
            if not fresh:
                continue
            parents = {}
            for p_ in ast.walk(fn):
                for c_ in ast.iter_child_nodes(p_):
                    parents[id(c_)] = p_
            uses = [x for x in ast.walk(fn) if isinstance(x, ast.Name) and x.id == name and isinstance(x.ctx, ast.Load)]
            t_uses, sub_uses, other = [], [], []
            for u in uses:
                par = parents.get(id(u))
                if isinstance(par, ast.Attribute) and par.attr == "T" and par.value is u:
                    t_uses.append(par)
                elif isinstance(par, ast.Subscript) and par.value is u and isinstance(par.slice, ast.Tuple) and len(par.slice.elts) == 2 \
                        and not any(isinstance(e, (ast.Slice, ast.Starred)) for e in par.slice.elts):
                    sub_uses.append(par)
                else:
                    other.append(u)
            if not t_uses or other:
                continue
            shp = st.value.args[0]
            shp.elts = [shp.elts[1], shp.elts[0]]
            for sub in sub_uses:
                sub.slice = ast.Tuple(elts=[sub.slice.elts[1], sub.slice.elts[0]], ctx=ast.Load())
            ids = {id(t) for t in t_uses}

            class B(ast.NodeTransformer):
                def visit_Attribute(self, node):
                    self.generic_visit(node)
                    if id(node) in ids:
                        return node.value
                    return node

            B().visit(fn)
            n += 1
    if n:
        ast.fix_missing_locations(tree)
    return n


# ------------------------------------------------------------------------------------------- D17 static / class methods of private carrier classes
def extract_private_class_methods(tree):
    """class _Header(NamedTuple): ..  @classmethod def bread(cls, stream): return cls(f(stream), g(stream))
    The static / class methods of a PRIVATE class (`_Name`) that are only ever called as `_Name.meth(..)` become private module
    functions `_Name__meth` (cls := _Name), so that they are inlined like any private helper and the class is left a plain record."""
    n = 0
    for cls in [x for x in tree.body if isinstance(x, ast.ClassDef) and x.name.startswith("_") and not x.name.startswith("__")]:
        moved = {}
        for m in list(cls.body):
            if not isinstance(m, ast.FunctionDef) or m.name.startswith("__"):
                continue
            decs = [ast.unparse(d) for d in m.decorator_list]
            if decs not in (["staticmethod"], ["classmethod"]):
                continue
            # every mention of <cls>.<meth> in the module is the callee of a call
            uses = [x for x in ast.walk(tree) if isinstance(x, ast.Attribute) and x.attr == m.name and isinstance(x.value, ast.Name) and x.value.id in (cls.name, "cls")]
            calls = [c for c in ast.walk(tree) if isinstance(c, ast.Call) and isinstance(c.func, ast.Attribute) and c.func.attr == m.name and isinstance(c.func.value, ast.Name)
                     and c.func.value.id == cls.name]
            if not calls or len(uses) != len(calls):
                continue
            fn = copy.deepcopy(m)
            fn.decorator_list = []
            fn.name = f"{cls.name}__{m.name}"
            if decs == ["classmethod"]:
                if not fn.args.args:
                    continue
                cp = fn.args.args[0].arg
                fn.args.args = fn.args.args[1:]
                if any(isinstance(x, ast.Name) and x.id == cp and isinstance(x.ctx, ast.Store) for x in ast.walk(fn)):
                    continue

                class C(ast.NodeTransformer):
                    def visit_Name(self, node):
                        if node.id == cp and isinstance(node.ctx, ast.Load):
                            return ast.copy_location(ast.Name(id=cls.name, ctx=ast.Load()), node)
                        return node

                C().visit(fn)
            moved[m.name] = (m, fn)
        for name, (m, fn) in moved.items():
            cls.body = [b for b in cls.body if b is not m] or [ast.Pass()]
            tree.body.insert(tree.body.index(cls) + 1, fn)
            for c in ast.walk(tree):
                if isinstance(c, ast.Call) and isinstance(c.func, ast.Attribute) and c.func.attr == name and isinstance(c.func.value, ast.Name) and c.func.value.id == cls.name:
                    c.func = ast.copy_location(ast.Name(id=fn.name, ctx=ast.Load()), c.func)
            n += 1
    if n:
        ast.fix_missing_locations(tree)
    return n


# ------------------------------------------------------------------------------------------- D18 .flat of a two-dimensional attribute
def flat_iteration(tree):
    """In a class one of whose methods unpacks `a, b = self.X.shape` (X is two-dimensional), iterating `self.X.flat` visits
    `self.X[i, j]` for i in range(shape[0]) for j in range(shape[1]) (row-major): comprehensions and for-loops over it are spelled
    that way, like the double loops the writers use."""
    n = 0
    for cls in [x for x in tree.body if isinstance(x, ast.ClassDef)]:
        two_d = set()
        for a in ast.walk(cls):
            if isinstance(a, ast.Assign) and len(a.targets) == 1 and isinstance(a.targets[0], ast.Tuple) and len(a.targets[0].elts) == 2 \
                    and isinstance(a.value, ast.Attribute) and a.value.attr == "shape" and isinstance(a.value.value, ast.Attribute) \
                    and isinstance(a.value.value.value, ast.Name) and a.value.value.value.id == "self":
                two_d.add(a.value.value.attr)
        if not two_d:
            continue

        def is_flat(e):
            return isinstance(e, ast.Attribute) and e.attr == "flat" and isinstance(e.value, ast.Attribute) and isinstance(e.value.value, ast.Name) \
                and e.value.value.id == "self" and e.value.attr in two_d

        def shape(x, i):
            return ast.Call(func=ast.Name(id="range", ctx=ast.Load()),
                            args=[ast.Subscript(value=ast.Attribute(value=copy.deepcopy(x), attr="shape", ctx=ast.Load()), slice=ast.Constant(value=i), ctx=ast.Load())], keywords=[])

        class F(ast.NodeTransformer):
            def _comp(self, node):
                nonlocal n
                self.generic_visit(node)
                if len(node.generators) == 1 and is_flat(node.generators[0].iter) and isinstance(node.generators[0].target, ast.Name):
                    g = node.generators[0]
                    k = next(_counter)
                    i, j = f"_fi{k}", f"_fj{k}"
                    x = g.iter.value
                    cell = ast.Subscript(value=copy.deepcopy(x), slice=ast.Tuple(elts=[ast.Name(id=i, ctx=ast.Load()), ast.Name(id=j, ctx=ast.Load())], ctx=ast.Load()), ctx=ast.Load())
                    env = {g.target.id: cell}
                    if isinstance(node, ast.DictComp):
                        node.key, node.value = _subst(node.key, env), _subst(node.value, env)
                    else:
                        node.elt = _subst(node.elt, env)
                    ifs = [_subst(c, env) for c in g.ifs]
                    node.generators = [ast.comprehension(target=ast.Name(id=i, ctx=ast.Store()), iter=shape(x, 0), ifs=[], is_async=0),
                                       ast.comprehension(target=ast.Name(id=j, ctx=ast.Store()), iter=shape(x, 1), ifs=ifs, is_async=0)]
                    n += 1
                return node

            visit_GeneratorExp = visit_ListComp = visit_SetComp = _comp

            def visit_For(self, node):
                nonlocal n
                self.generic_visit(node)
                # for _, v in np.ndenumerate(self.X) with the index unused: the elements of X in C order, i.e. X.flat
                if isinstance(node.iter, ast.Call) and ast.unparse(node.iter.func) in ("np.ndenumerate", "numpy.ndenumerate") and len(node.iter.args) == 1 and not node.iter.keywords \
                        and isinstance(node.target, ast.Tuple) and len(node.target.elts) == 2 and isinstance(node.target.elts[0], ast.Name) and isinstance(node.target.elts[1], ast.Name) \
                        and not any(isinstance(y, ast.Name) and y.id == node.target.elts[0].id for b in node.body for y in ast.walk(b)) \
                        and is_flat(ast.Attribute(value=node.iter.args[0], attr="flat", ctx=ast.Load())):
                    node.iter = ast.copy_location(ast.Attribute(value=node.iter.args[0], attr="flat", ctx=ast.Load()), node.iter)
                    node.target = node.target.elts[1]
                if is_flat(node.iter) and isinstance(node.target, ast.Name) and not node.orelse and not _has_jump(node.body):
                    k = next(_counter)
                    i, j = f"_fi{k}", f"_fj{k}"
                    x = node.iter.value
                    cell = ast.Subscript(value=copy.deepcopy(x), slice=ast.Tuple(elts=[ast.Name(id=i, ctx=ast.Load()), ast.Name(id=j, ctx=ast.Load())], ctx=ast.Load()), ctx=ast.Load())
                    bind = ast.copy_location(ast.Assign(targets=[node.target], value=cell, lineno=node.lineno), node)
                    inner = ast.copy_location(ast.For(target=ast.Name(id=j, ctx=ast.Store()), iter=shape(x, 1), body=[bind] + node.body, orelse=[], type_comment=None), node)
                    n += 1
                    return ast.copy_location(ast.For(target=ast.Name(id=i, ctx=ast.Store()), iter=shape(x, 0), body=[inner], orelse=[], type_comment=None), node)
                return node

        F().visit(cls)
    if n:
        ast.fix_missing_locations(tree)
    return n


# ------------------------------------------------------------------------------------------- D19 straight-line generators consumed by a for
def unroll_yield_sequences(tree):
    """def _fields(self): yield E1; yield E2; ..        for v in self._fields(): BODY
    ==>   v = E1; BODY; v = E2; BODY; ..       (each E is evaluated only when the loop asks for the next item - the interleaving a
    generator gives - so a value that cannot be produced still fails AFTER the earlier items were consumed)."""
    n = 0
    gens = {}
    def scan(owner_body, cname):
        for fn in owner_body:
            if isinstance(fn, ast.FunctionDef) and fn.name.startswith("_") and not fn.name.startswith("__") \
                    and [ast.unparse(d) for d in fn.decorator_list] in ([], ["staticmethod"]):
                body = [b for b in fn.body if not (isinstance(b, ast.Expr) and isinstance(b.value, ast.Constant))]

                def template(stmts, depth=0):
                    # yields as statements, possibly inside plain for loops: the loop structure of the generator becomes the caller's
                    return bool(stmts) and all((isinstance(b, ast.Expr) and isinstance(b.value, ast.Yield) and b.value.value is not None)
                                               or (isinstance(b, ast.For) and not b.orelse and depth < 2 and template(b.body, depth + 1)) for b in stmts)
                if body and len(body) <= 16 and template(body) \
                        and not fn.args.vararg and not fn.args.kwarg and not fn.args.kwonlyargs and not fn.args.defaults \
                        and not any(isinstance(x, (ast.Lambda, ast.NamedExpr)) for b in body for x in ast.walk(b)):
                    gens[(cname, fn.name)] = (fn, body)
    scan(tree.body, None)
    for cls in [x for x in tree.body if isinstance(x, ast.ClassDef)]:
        scan(cls.body, cls.name)
    if not gens:
        return 0

    def site(call, cname):
        """(fn, exprs, env) when `call` invokes one of the generators"""
        f = call.func
        if call.keywords or any(isinstance(a, ast.Starred) for a in call.args):
            return None
        if isinstance(f, ast.Name) and (None, f.id) in gens:
            fn, exprs = gens[(None, f.id)]
            params = [a.arg for a in fn.args.args]
            recv = None
        elif isinstance(f, ast.Attribute) and isinstance(f.value, ast.Name) and cname is not None and (cname, f.attr) in gens and f.value.id in ("self", cname):
            fn, exprs = gens[(cname, f.attr)]
            params = [a.arg for a in fn.args.args]
            if f.value.id == "self" and not fn.decorator_list:
                if not params:
                    return None
                recv, params = (params[0], f.value), params[1:]
            else:
                recv = None
        else:
            return None
        if len(params) != len(call.args) or not all(isinstance(a, (ast.Name, ast.Constant)) or (isinstance(a, ast.Attribute) and isinstance(a.value, ast.Name)) for a in call.args):
            return None
        env = dict(zip(params, call.args))
        if recv is not None:
            env[recv[0]] = recv[1]
        return fn, exprs, env

    used = set()

    def rewrite(fnode, cname):
        nonlocal n

        class U(ast.NodeTransformer):
            def visit_For(self, node):
                self.generic_visit(node)
                if isinstance(node.iter, ast.Call) and isinstance(node.target, ast.Name) and not node.orelse and not _has_jump(node.body):
                    st = site(node.iter, cname)
                    if st is not None:
                        fn, exprs, env = st
                        tag = next(_counter)

                        def expand(stmts, env):
                            out = []
                            for b in stmts:
                                if isinstance(b, ast.For):
                                    ren = {x.id: ast.Name(id=f"{x.id}_g{tag}", ctx=ast.Load()) for x in ast.walk(b.target) if isinstance(x, ast.Name)}
                                    tgt = copy.deepcopy(b.target)
                                    for x in ast.walk(tgt):
                                        if isinstance(x, ast.Name):
                                            x.id = f"{x.id}_g{tag}"
                                    out.append(ast.copy_location(ast.For(target=tgt, iter=_subst(b.iter, env), body=expand(b.body, {**env, **ren}), orelse=[], type_comment=None), node))
                                else:
                                    out.append(ast.copy_location(ast.Assign(targets=[ast.Name(id=node.target.id, ctx=ast.Store())], value=_subst(b.value.value, env), lineno=node.lineno), node))
                                    out += [copy.deepcopy(x) for x in node.body]
                            return out
                        out = expand(exprs, env)
                        used.add(id(fn))
                        nonlocal_n[0] += 1
                        return out
                return node

        nonlocal_n = [0]
        U().visit(fnode)
        n += nonlocal_n[0]

    for st in tree.body:
        if isinstance(st, ast.FunctionDef) and not any(st is g[0] for g in gens.values()):
            rewrite(st, None)
        elif isinstance(st, ast.ClassDef):
            for m in st.body:
                if isinstance(m, ast.FunctionDef) and not any(m is g[0] for g in gens.values()):
                    rewrite(m, st.name)
    # generators with no remaining mention are dropped
    for (cname, name), (fn, _) in gens.items():
        if id(fn) not in used:
            continue
        if any(isinstance(x, ast.Attribute) and x.attr == name for x in ast.walk(tree)) or any(isinstance(x, ast.Name) and x.id == name and isinstance(x.ctx, ast.Load) for x in ast.walk(tree)):
            continue
        if cname is None:
            tree.body = [b for b in tree.body if b is not fn]
        else:
            for c in tree.body:
                if isinstance(c, ast.ClassDef) and c.name == cname:
                    c.body = [b for b in c.body if b is not fn] or [ast.Pass()]
    if n:
        ast.fix_missing_locations(tree)
    return n


def generators_to_tuples(tree):
    """def _g(..): PRE..; yield E1; yield E2      every use being  <sep>.join(_g(..)) / list(_g(..)) / tuple(_g(..))
    ==>  def _g(..): PRE..; return (E1, E2)       (the consumer drains the generator at once; the yielded expressions are plain
    names / attribute reads, so producing them all before the consumer looks at the first changes nothing)"""
    n = 0
    owners = [(None, tree.body)] + [(c.name, c.body) for c in tree.body if isinstance(c, ast.ClassDef)]
    for cname, body in owners:
        for fn in [f for f in body if isinstance(f, ast.FunctionDef) and f.name.startswith("_") and not f.name.startswith("__")]:
            ys = [x for x in ast.walk(fn) if isinstance(x, (ast.Yield, ast.YieldFrom))]
            if not ys or any(isinstance(y, ast.YieldFrom) for y in ys):
                continue
            stm = [b for b in fn.body]
            k = len(stm)
            while k > 0 and isinstance(stm[k - 1], ast.Expr) and isinstance(stm[k - 1].value, ast.Yield) and stm[k - 1].value.value is not None:
                k -= 1
            tail = stm[k:]
            if not tail or len(tail) != len(ys) or len(tail) > 8:
                continue       # a yield somewhere else than in the trailing run
            if not all(isinstance(t.value.value, (ast.Name, ast.Constant)) or (isinstance(t.value.value, ast.Attribute) and isinstance(t.value.value.value, ast.Name)) for t in tail):
                continue
            if any(isinstance(x, ast.Return) for x in ast.walk(fn)):
                continue
            # every use is an immediate, complete consumer
            uses = [x for x in ast.walk(tree) if (isinstance(x, ast.Attribute) and x.attr == fn.name) or (isinstance(x, ast.Name) and x.id == fn.name and isinstance(x.ctx, ast.Load))]
            good = []
            for c in ast.walk(tree):
                if isinstance(c, ast.Call) and len(c.args) == 1 and not c.keywords and isinstance(c.args[0], ast.Call) and c.args[0].func in uses \
                        and ((isinstance(c.func, ast.Attribute) and c.func.attr == "join") or (isinstance(c.func, ast.Name) and c.func.id in ("list", "tuple"))):
                    good.append(c.args[0].func)
            if not uses or len(good) != len(uses):
                continue
            ret = ast.copy_location(ast.Return(value=ast.Tuple(elts=[t.value.value for t in tail], ctx=ast.Load())), tail[0])
            fn.body = stm[:k] + [ret]
            if fn.returns is not None:
                fn.returns = None
            n += 1
    if n:
        ast.fix_missing_locations(tree)
    return n


# ------------------------------------------------------------------------------------------- D20 explicit property(...) construction
def explicit_properties(tree):
    """class C:  def _get(self): ..   def _set(self, v): ..   name = property(_get, _set)      (fget= / fset= keywords too)
    ==>  @property def name(self): ..    @name.setter def name(self, v): ..          when _get / _set are used for nothing else"""
    n = 0
    for cls in [x for x in tree.body if isinstance(x, ast.ClassDef)]:
        for st in list(cls.body):
            if not (isinstance(st, ast.Assign) and len(st.targets) == 1 and isinstance(st.targets[0], ast.Name) and isinstance(st.value, ast.Call)
                    and ast.unparse(st.value.func) == "property"):
                continue
            call = st.value
            parts = {}
            for nm, a in zip(("fget", "fset", "fdel", "doc"), call.args):
                parts[nm] = a
            for k in call.keywords:
                if k.arg:
                    parts[k.arg] = k.value
            if "fget" not in parts or any(k not in ("fget", "fset", "doc") for k in parts) or not all(isinstance(parts[k], ast.Name) for k in ("fget", "fset") if k in parts):
                continue
            name = st.targets[0].id
            fns = {m.name: m for m in cls.body if isinstance(m, ast.FunctionDef)}
            g = fns.get(parts["fget"].id)
            se = fns.get(parts["fset"].id) if "fset" in parts else None
            if g is None or g.decorator_list or ("fset" in parts and (se is None or se.decorator_list)):
                continue
            others = [x for x in ast.walk(tree) if (isinstance(x, ast.Name) and x.id in (g.name, se.name if se else g.name) and isinstance(x.ctx, ast.Load))
                      or (isinstance(x, ast.Attribute) and x.attr in (g.name, se.name if se else g.name))]
            if len(others) != (2 if se else 1):
                continue
            g.name = name
            g.decorator_list = [ast.Name(id="property", ctx=ast.Load())]
            if se is not None:
                se.name = name
                se.decorator_list = [ast.Attribute(value=ast.Name(id=name, ctx=ast.Load()), attr="setter", ctx=ast.Load())]
            # keep definition order: getter, then setter, in the place of the assignment
            body = [b for b in cls.body if b is not st and b is not g and b is not se]
            idx = min(cls.body.index(g), cls.body.index(st))
            idx = min(idx, len(body))
            body[idx:idx] = [g] + ([se] if se is not None else [])
            cls.body = body
            n += 1
    if n:
        ast.fix_missing_locations(tree)
    return n


# ------------------------------------------------------------------------------------------- D21 a record serialised once in memory
def scratch_row_replay(tree):
    """with BytesIO() as B: <codec writes to B>; X = B.getvalue()      ... F.write(X)        (X used for nothing else; F a local file name)
    ==>  <the same codec writes to F> at the place of F.write(X)
    The bytes that reach F are the ones the writes produce; their arguments are pure and nothing they read is rebound in between."""
    n = 0
    for fn in [x for x in ast.walk(tree) if isinstance(x, ast.FunctionDef)]:
        for owner, fld in list(_blocks(fn)):
            stmts = getattr(owner, fld)
            for i, w in enumerate(stmts):
                if not (isinstance(w, ast.With) and len(w.items) == 1 and isinstance(w.items[0].optional_vars, ast.Name) and isinstance(w.items[0].context_expr, ast.Call)
                        and ast.unparse(w.items[0].context_expr.func) in ("BytesIO", "io.BytesIO") and not w.items[0].context_expr.args and len(w.body) >= 2):
                    continue
                b = w.items[0].optional_vars.id
                last = w.body[-1]
                if not (isinstance(last, ast.Assign) and len(last.targets) == 1 and isinstance(last.targets[0], ast.Name) and isinstance(last.value, ast.Call)
                        and ast.unparse(last.value) == f"{b}.getvalue()"):
                    continue
                x = last.targets[0].id
                writes = w.body[:-1]
                ok = True
                reads = set()
                for st in writes:
                    if not (isinstance(st, ast.Expr) and isinstance(st.value, ast.Call)):
                        ok = False
                        break
                    c = st.value
                    uses_b = [a for a in ast.walk(c) if isinstance(a, ast.Name) and a.id == b]
                    if len(uses_b) != 1 or not (uses_b[0] in c.args or (isinstance(c.func, ast.Attribute) and c.func.value is uses_b[0] and c.func.attr == "write")):
                        ok = False
                        break
                    for a in c.args + [k.value for k in c.keywords]:
                        if a is uses_b[0]:
                            continue
                        if any(isinstance(q, (ast.Call, ast.NamedExpr, ast.Await, ast.Yield)) for q in ast.walk(a)):
                            ok = False
                        reads |= {q.id for q in ast.walk(a) if isinstance(q, ast.Name)}
                if not ok:
                    continue
                rest = stmts[i + 1:]
                x_uses = [q for s_ in ast.walk(fn) for q in [s_] if isinstance(q, ast.Name) and q.id == x]
                b_uses_outside = [q for s_ in rest for q in ast.walk(s_) if isinstance(q, ast.Name) and q.id == b]
                if len(x_uses) != 2 or b_uses_outside:
                    continue
                # the single use:  F.write(X)  as a statement, in the rest of this block (possibly inside for-loops)
                site = None

                def find(block, loops):
                    nonlocal site
                    for k, s_ in enumerate(block):
                        if isinstance(s_, ast.Expr) and isinstance(s_.value, ast.Call) and isinstance(s_.value.func, ast.Attribute) and s_.value.func.attr == "write" \
                                and isinstance(s_.value.func.value, ast.Name) and len(s_.value.args) == 1 and isinstance(s_.value.args[0], ast.Name) and s_.value.args[0].id == x \
                                and not s_.value.keywords:
                            site = (block, k, list(loops))
                            return
                        if isinstance(s_, ast.For) and not s_.orelse:
                            find(s_.body, loops + [s_])
                            if site:
                                return
                find(rest, [])
                if site is None:
                    continue
                block, k, loops = site
                f_name = block[k].value.func.value.id
                # nothing the writes read is rebound between the scratch block and the use (nor inside the loops around the use)
                span = rest[:rest.index(loops[0]) + 1] if loops else rest[:rest.index(block[k])] if block is rest else None
                if span is None:
                    continue
                stored = {q.id for s_ in span for q in ast.walk(s_) if isinstance(q, ast.Name) and isinstance(q.ctx, (ast.Store, ast.Del))}
                if stored & (reads | {f_name}) or f_name == b:
                    continue

                class RB(ast.NodeTransformer):
                    def visit_Name(self, node):
                        return ast.copy_location(ast.Name(id=f_name, ctx=node.ctx), node) if node.id == b else node
                replay = [RB().visit(copy.deepcopy(st)) for st in writes]
                block[k:k + 1] = replay
                setattr(owner, fld, (stmts[:i] + rest) or [ast.Pass()])
                n += 1
                break
    if n:
        ast.fix_missing_locations(tree)
    return n


# ------------------------------------------------------------------------------------------- D22 conditionally entered context
def exitstack_conditional(tree):
    """with ExitStack() as S:  if C: S.enter_context(X)  BODY        (S used for nothing else)
    ==>  if C: with X: BODY   else: BODY            (the stack leaves exactly the contexts that were entered)"""
    n = 0
    for fn in [x for x in ast.walk(tree) if isinstance(x, ast.FunctionDef)]:
        for owner, fld in list(_blocks(fn)):
            stmts = getattr(owner, fld)
            for i, w in enumerate(stmts):
                if not (isinstance(w, ast.With) and len(w.items) == 1 and isinstance(w.items[0].optional_vars, ast.Name) and isinstance(w.items[0].context_expr, ast.Call)
                        and ast.unparse(w.items[0].context_expr.func) in ("ExitStack", "contextlib.ExitStack") and not w.items[0].context_expr.args and len(w.body) >= 2):
                    continue
                sname = w.items[0].optional_vars.id
                first = w.body[0]
                if not (isinstance(first, ast.If) and not first.orelse and len(first.body) == 1 and isinstance(first.body[0], ast.Expr) and isinstance(first.body[0].value, ast.Call)
                        and ast.unparse(first.body[0].value.func) == f"{sname}.enter_context" and len(first.body[0].value.args) == 1 and not first.body[0].value.keywords):
                    continue
                uses = [q for q in ast.walk(w) if isinstance(q, ast.Name) and q.id == sname]
                if len(uses) != 2 or any(isinstance(q, ast.Name) and q.id == sname for q in ast.walk(first.test)):
                    continue
                body = w.body[1:]
                inner = ast.copy_location(ast.With(items=[ast.withitem(context_expr=first.body[0].value.args[0], optional_vars=None)], body=body, type_comment=None), w)
                stmts[i] = ast.copy_location(ast.If(test=first.test, body=[inner], orelse=copy.deepcopy(body)), w)
                n += 1
    if n:
        ast.fix_missing_locations(tree)
    return n


# ------------------------------------------------------------------------------------------- D23 a projected snapshot of a list
def projected_snapshots(tree):
    """L = [E(v) for v in X]      (E reads only v; L a local that is only iterated / sliced / measured, X not changed in between)
    .. for n, k in enumerate(L) ..  ==>  .. for n, v' in enumerate(X) .. with k := E(v')      likewise  for k in L[a:]  and  len(L) -> len(X)
    The snapshot holds, position by position, the projection of the elements of X."""
    from .normalize import _kills, _paths_read, _pure_expr
    n = 0
    for fn in [x for x in ast.walk(tree) if isinstance(x, ast.FunctionDef)]:
        stores = {}
        for x in ast.walk(fn):
            if isinstance(x, ast.Name) and isinstance(x.ctx, (ast.Store, ast.Del)):
                stores[x.id] = stores.get(x.id, 0) + 1
        for owner, fld in list(_blocks(fn)):
            stmts = getattr(owner, fld)
            for i, st in enumerate(stmts):
                if not (isinstance(st, ast.Assign) and len(st.targets) == 1 and isinstance(st.targets[0], ast.Name) and stores.get(st.targets[0].id) == 1
                        and isinstance(st.value, ast.ListComp) and len(st.value.generators) == 1 and not st.value.generators[0].ifs
                        and isinstance(st.value.generators[0].target, ast.Name) and _pure_expr(st.value.elt) and _pure_expr(st.value.generators[0].iter)
                        and isinstance(st.value.generators[0].iter, (ast.Attribute, ast.Name))):
                    continue
                L = st.targets[0].id
                g = st.value.generators[0]
                v, X, E = g.target.id, g.iter, st.value.elt
                if {x.id for x in ast.walk(E) if isinstance(x, ast.Name)} - {v}:
                    continue
                rest = stmts[i + 1:]
                loads = [x for x in ast.walk(fn) if isinstance(x, ast.Name) and x.id == L and isinstance(x.ctx, ast.Load)]
                inrest = [x for s_ in rest for x in ast.walk(s_) if isinstance(x, ast.Name) and x.id == L and isinstance(x.ctx, ast.Load)]
                if not loads or len(loads) != len(inrest):
                    continue
                # X (and what E reads of its elements) stays as it is up to the last use
                last = max(k for k, s_ in enumerate(rest) if any(x in inrest for x in ast.walk(s_)))
                xt = ast.unparse(X)
                eattrs = {x.attr for x in ast.walk(E) if isinstance(x, ast.Attribute)} | ({X.attr} if isinstance(X, ast.Attribute) else set())
                root = xt.split(".")[0]

                def changes(s_):
                    for q in ast.walk(s_):
                        if isinstance(q, ast.Attribute) and isinstance(q.ctx, (ast.Store, ast.Del)) and q.attr in eattrs:
                            return True
                        if isinstance(q, ast.Subscript) and isinstance(q.ctx, (ast.Store, ast.Del)) and ast.unparse(q.value) == xt:
                            return True
                        if isinstance(q, ast.Name) and isinstance(q.ctx, (ast.Store, ast.Del)) and q.id in (root, L):
                            return True
                        if isinstance(q, ast.Call) and isinstance(q.func, ast.Attribute):
                            if ast.unparse(q.func.value) == xt and q.func.attr in ("append", "remove", "insert", "pop", "clear", "extend", "sort", "reverse"):
                                return True
                            if isinstance(q.func.value, ast.Name) and q.func.value.id == root and root in ("self", "cls"):
                                return True      # a method of the same object may change the list
                    return False
                if any(changes(s_) for s_ in rest[:last + 1]):
                    continue
                plan = []
                okk = True
                parents = {}
                for s_ in rest:
                    for p_ in ast.walk(s_):
                        for c_ in ast.iter_child_nodes(p_):
                            parents[id(c_)] = p_
                for x in inrest:
                    par = parents.get(id(x))
                    gp = parents.get(id(par)) if par is not None else None
                    if isinstance(par, ast.Call) and ast.unparse(par.func) == "len" and len(par.args) == 1:
                        plan.append(("len", par, None))
                        continue
                    # k in L / k not in L: membership in the projection itself
                    if isinstance(par, ast.Compare) and len(par.ops) == 1 and isinstance(par.ops[0], (ast.In, ast.NotIn)) and par.comparators[0] is x:
                        plan.append(("member", par, None))
                        continue
                    holder, how = None, None
                    if isinstance(par, (ast.comprehension, ast.For)) and par.iter is x:
                        holder, how = par, "plain"
                    elif isinstance(par, ast.Subscript) and par.value is x and isinstance(par.slice, ast.Slice) and isinstance(gp, (ast.comprehension, ast.For)) and gp.iter is par:
                        holder, how = gp, "slice"
                    elif isinstance(par, ast.Call) and ast.unparse(par.func) == "enumerate" and par.args and par.args[0] is x and isinstance(gp, (ast.comprehension, ast.For)) and gp.iter is par:
                        holder, how = gp, "enum"
                    if holder is None:
                        okk = False
                        break
                    tgt = holder.target
                    k = tgt.elts[1] if how == "enum" and isinstance(tgt, ast.Tuple) and len(tgt.elts) == 2 else tgt if how != "enum" else None
                    if not isinstance(k, ast.Name):
                        okk = False
                        break
                    plan.append((how, holder, k))
                if not okk:
                    continue
                for how, holder, k in plan:
                    if how == "len":
                        holder.args = [copy.deepcopy(X)]
                        continue
                    if how == "member":
                        holder.comparators = [ast.ListComp(elt=copy.deepcopy(E), generators=[ast.comprehension(target=ast.Name(id=v, ctx=ast.Store()), iter=copy.deepcopy(X), ifs=[], is_async=0)])]
                        continue
                    fresh = f"_sv{next(_counter)}"
                    scope = None
                    if isinstance(holder, ast.For):
                        scope = holder.body
                    else:
                        comp = parents.get(id(holder))
                        scope = comp
                    proj = _subst(E, {v: ast.Name(id=fresh, ctx=ast.Load())})

                    class K(ast.NodeTransformer):
                        def visit_Name(self, nn):
                            if nn.id == k.id and isinstance(nn.ctx, ast.Load):
                                return copy.deepcopy(proj)
                            return nn
                    if isinstance(holder, ast.For):
                        holder.body = [K().visit(b) for b in holder.body]
                    else:
                        for f2 in ("elt", "key", "value"):
                            if hasattr(scope, f2):
                                setattr(scope, f2, K().visit(getattr(scope, f2)))
                        for g2 in scope.generators:
                            g2.ifs = [K().visit(c) for c in g2.ifs]
                    k.id = fresh

                    class XR(ast.NodeTransformer):
                        def visit_Name(self, nn):
                            return copy.deepcopy(X) if nn.id == L and isinstance(nn.ctx, ast.Load) else nn
                    holder.iter = XR().visit(holder.iter)
                del stmts[i]
                n += 1
                break
    if n:
        ast.fix_missing_locations(tree)
    return n


# ------------------------------------------------------------------------------------------- D9 NamedTuple carriers
def namedtuples(tree):
    out = {}
    for st in tree.body:
        # a NamedTuple, or a frozen dataclass without bases (an immutable record of its annotated fields, in declaration order)
        frozen_dc = isinstance(st, ast.ClassDef) and not st.bases and len(st.decorator_list) == 1 and isinstance(st.decorator_list[0], ast.Call) \
            and ast.unparse(st.decorator_list[0].func) in ("dataclass", "dataclasses.dataclass") and not st.decorator_list[0].args \
            and any(k.arg == "frozen" and isinstance(k.value, ast.Constant) and k.value.value is True for k in st.decorator_list[0].keywords) \
            and all(k.arg in ("frozen", "slots", "eq", "repr") for k in st.decorator_list[0].keywords)
        if isinstance(st, ast.ClassDef) and (frozen_dc or any(ast.unparse(b) in ("NamedTuple", "typing.NamedTuple") for b in st.bases)):
            fields = [s.target.id for s in st.body if isinstance(s, ast.AnnAssign) and isinstance(s.target, ast.Name)]
            props = {}
            methods = {}
            simple = True
            for s in st.body:
                if isinstance(s, ast.FunctionDef):
                    body = [b for b in s.body if not (isinstance(b, ast.Expr) and isinstance(b.value, ast.Constant))]
                    if [ast.unparse(d) for d in s.decorator_list] == ["property"] and len(body) == 1 and isinstance(body[0], ast.Return) and body[0].value is not None \
                            and len(s.args.args) == 1:
                        props[s.name] = (s.args.args[0].arg, body[0].value)
                    elif not s.decorator_list and len(body) == 1 and isinstance(body[0], ast.Return) and body[0].value is not None and len(s.args.args) == 1 \
                            and not s.args.vararg and not s.args.kwarg and not s.name.startswith("__"):
                        # a parameterless one-expression method: `Rec(..).m()` is that expression
                        methods[s.name] = (s.args.args[0].arg, body[0].value)
                    else:
                        simple = False
            if fields and simple:
                out[st.name] = fields
                NT_PROPS[st.name] = props
                NT_METHODS[st.name] = methods
                NT_DEFAULTS[st.name] = {s.target.id: s.value for s in st.body if isinstance(s, ast.AnnAssign) and isinstance(s.target, ast.Name) and s.value is not None}
        if isinstance(st, ast.Assign) and len(st.targets) == 1 and isinstance(st.targets[0], ast.Name) and isinstance(st.value, ast.Call) \
                and ast.unparse(st.value.func) in ("namedtuple", "collections.namedtuple") and len(st.value.args) == 2:
            f = st.value.args[1]
            if isinstance(f, ast.Constant) and isinstance(f.value, str):
                out[st.targets[0].id] = f.value.replace(",", " ").split()
            elif isinstance(f, (ast.List, ast.Tuple)) and all(isinstance(e, ast.Constant) for e in f.elts):
                out[st.targets[0].id] = [e.value for e in f.elts]
    return out


NT_DEFAULTS = {}
NT_PROPS = {}  # class -> {property name: expression over self}
NT_METHODS = {}  # class -> {parameterless method name: expression over self}
NT_NAMES = set()


def _nt_args(call, fields):
    if len(call.args) > len(fields) or any(isinstance(a, ast.Starred) for a in call.args):
        return None
    vals = dict(zip(fields, call.args))
    for k in call.keywords:
        if k.arg not in fields or k.arg in vals:
            return None
        vals[k.arg] = k.value
    dflt = NT_DEFAULTS.get(call.func.id, {}) if isinstance(call.func, ast.Name) else {}
    for f in fields:
        if f not in vals:
            if f not in dflt:
                return None
            vals[f] = copy.deepcopy(dflt[f])
    return [vals[f] for f in fields]


def record_locals(tree, nts):
    """v = next((Rec(a, b) for ..))  /  v = Rec(a, b)      with every later read of v of the form v.<field>
    ==>  v_f1, v_f2 = next(((a, b) for ..)) / (a, b)  and  v.<field> -> v_<field>      (the record is only a carrier of its fields)"""
    n = 0
    for fn in [x for x in ast.walk(tree) if isinstance(x, ast.FunctionDef)]:
        stores = {}
        for x in ast.walk(fn):
            if isinstance(x, ast.Name) and isinstance(x.ctx, (ast.Store, ast.Del)):
                stores[x.id] = stores.get(x.id, 0) + 1
        params = {a.arg for a in fn.args.args + fn.args.kwonlyargs + fn.args.posonlyargs}
        for st in [x for x in ast.walk(fn) if isinstance(x, ast.Assign)]:
            if not (len(st.targets) == 1 and isinstance(st.targets[0], ast.Name) and stores.get(st.targets[0].id) == 1 and st.targets[0].id not in params):
                continue
            v = st.targets[0].id
            val = st.value
            rec = None
            if isinstance(val, ast.Call) and isinstance(val.func, ast.Name) and val.func.id == "next" and len(val.args) == 1 and not val.keywords \
                    and isinstance(val.args[0], ast.GeneratorExp) and isinstance(val.args[0].elt, ast.Call) and isinstance(val.args[0].elt.func, ast.Name) and val.args[0].elt.func.id in nts:
                rec = val.args[0].elt
            elif isinstance(val, ast.Call) and isinstance(val.func, ast.Name) and val.func.id in nts:
                rec = val
            if rec is None:
                continue
            fields = nts[rec.func.id]
            args = _nt_args(rec, fields)
            if args is None:
                continue
            loads = [x for x in ast.walk(fn) if isinstance(x, ast.Name) and x.id == v and isinstance(x.ctx, ast.Load)]
            props = NT_PROPS.get(rec.func.id, {})
            # a property of the record that is one expression over its fields is read as that expression
            props = {k: pv for k, pv in props.items() if all((isinstance(y.value, ast.Name) and y.value.id == pv[0] and y.attr in fields) for y in ast.walk(pv[1]) if isinstance(y, ast.Attribute) and isinstance(y.value, ast.Name) and y.value.id == pv[0])
                     and not any(isinstance(y, ast.Name) and y.id == pv[0] and not isinstance(getattr(y, "_p", None), ast.Attribute) for y in [z for z in ast.walk(pv[1]) if isinstance(z, ast.Name)] if not any(isinstance(w, ast.Attribute) and w.value is y for w in ast.walk(pv[1])))}
            attr_loads = [x for x in ast.walk(fn) if isinstance(x, ast.Attribute) and isinstance(x.value, ast.Name) and x.value.id == v and isinstance(x.ctx, ast.Load) and (x.attr in fields or x.attr in props)]
            if not loads or len(loads) != len(attr_loads):
                continue
            names = [f"{v}_{f}" for f in fields]
            if any(nm in stores or nm in params for nm in names):
                continue
            tup = ast.Tuple(elts=args, ctx=ast.Load())
            if rec is val:
                st.value = tup
            else:
                val.args[0].elt = tup
            st.targets = [ast.Tuple(elts=[ast.Name(id=nm, ctx=ast.Store()) for nm in names], ctx=ast.Store())]

            class R(ast.NodeTransformer):
                def visit_Attribute(self, node):
                    if isinstance(node.value, ast.Name) and node.value.id == v and isinstance(node.ctx, ast.Load) and node.attr in fields:
                        return ast.copy_location(ast.Name(id=f"{v}_{node.attr}", ctx=ast.Load()), node)
                    if isinstance(node.value, ast.Name) and node.value.id == v and isinstance(node.ctx, ast.Load) and node.attr in props:
                        sp, pe_ = props[node.attr]

                        class P(ast.NodeTransformer):
                            def visit_Attribute(self, nd):
                                if isinstance(nd.value, ast.Name) and nd.value.id == sp and nd.attr in fields:
                                    return ast.Name(id=f"{v}_{nd.attr}", ctx=ast.Load())
                                self.generic_visit(nd)
                                return nd
                        return ast.copy_location(P().visit(copy.deepcopy(pe_)), node)
                    self.generic_visit(node)
                    return node
            R().visit(fn)
            n += 1
    if n:
        ast.fix_missing_locations(tree)
    return n


class NamedTupleReduce(ast.NodeTransformer):
    def __init__(self, nts):
        self.nts = nts
        self.changed = False

    def _ctor(self, e):
        if isinstance(e, ast.Call) and isinstance(e.func, ast.Name) and e.func.id in self.nts:
            return _nt_args(e, self.nts[e.func.id])
        return None

    def visit_Attribute(self, node):
        self.generic_visit(node)
        a = self._ctor(node.value)
        if a is not None and isinstance(node.ctx, ast.Load) and node.attr in self.nts[node.value.func.id]:
            self.changed = True
            return a[self.nts[node.value.func.id].index(node.attr)]
        if a is not None and isinstance(node.ctx, ast.Load) and node.attr in NT_PROPS.get(node.value.func.id, {}):
            # a property of the record: its expression with self.<field> replaced by the constructor arguments
            selfname, expr = NT_PROPS[node.value.func.id][node.attr]
            fields = self.nts[node.value.func.id]

            class P(ast.NodeTransformer):
                def visit_Attribute(self, n):
                    if isinstance(n.value, ast.Name) and n.value.id == selfname and n.attr in fields:
                        return copy.deepcopy(a[fields.index(n.attr)])
                    self.generic_visit(n)
                    return n

            self.changed = True
            return P().visit(copy.deepcopy(expr))
        return node

    def visit_Call(self, node):
        self.generic_visit(node)
        # Record(a, b).method()  ->  the method's expression over the constructor arguments
        if isinstance(node.func, ast.Attribute) and not node.args and not node.keywords:
            a = self._ctor(node.func.value)
            if a is not None and node.func.attr in NT_METHODS.get(node.func.value.func.id, {}):
                selfname, expr = NT_METHODS[node.func.value.func.id][node.func.attr]
                fields = self.nts[node.func.value.func.id]

                class P(ast.NodeTransformer):
                    def visit_Attribute(self, n):
                        if isinstance(n.value, ast.Name) and n.value.id == selfname and n.attr in fields:
                            return copy.deepcopy(a[fields.index(n.attr)])
                        self.generic_visit(n)
                        return n

                self.changed = True
                return P().visit(copy.deepcopy(expr))
        # f(*Record(a, b), c)  ->  f(a, b, c)        (a record is the tuple of its fields, in declaration order)
        if any(isinstance(x, ast.Starred) and self._ctor(x.value) is not None for x in node.args):
            args = []
            for x in node.args:
                a = self._ctor(x.value) if isinstance(x, ast.Starred) else None
                if a is not None:
                    args += list(a)
                    self.changed = True
                else:
                    args.append(x)
            node.args = args
        return node

    def visit_Subscript(self, node):
        self.generic_visit(node)
        a = self._ctor(node.value)
        if a is not None and isinstance(node.slice, ast.Constant) and isinstance(node.slice.value, int) and -len(a) <= node.slice.value < len(a):
            self.changed = True
            return a[node.slice.value]
        return node

    def visit_Assign(self, node):
        self.generic_visit(node)
        if len(node.targets) == 1 and isinstance(node.targets[0], (ast.Tuple, ast.List)):
            a = self._ctor(node.value)
            if a is not None and len(a) == len(node.targets[0].elts):
                self.changed = True
                node.value = ast.Tuple(elts=a, ctx=ast.Load())
            # a, b = next((Rec(x, y) for ..)[, D])   ->   a, b = next(((x, y) for ..)[, D])      (unpacking a record yields its fields in order)
            v = node.value
            if isinstance(v, ast.Call) and isinstance(v.func, ast.Name) and v.func.id == "next" and v.args and isinstance(v.args[0], ast.GeneratorExp) and not v.keywords:
                a = self._ctor(v.args[0].elt)
                if a is not None and len(a) == len(node.targets[0].elts):
                    self.changed = True
                    v.args[0].elt = ast.Tuple(elts=a, ctx=ast.Load())
                    if len(v.args) == 2:
                        d = self._ctor(v.args[1])
                        if d is not None:
                            v.args[1] = ast.Tuple(elts=d, ctx=ast.Load())
        return node

    def visit_For(self, node):
        self.generic_visit(node)
        # for v in [X(..) for x in IT]: body   ->   for x in IT: v = X(..); body        (X(..) is a pure record)
        it = node.iter
        if isinstance(it, (ast.ListComp, ast.GeneratorExp)) and len(it.generators) == 1 and not node.orelse and self._ctor(it.elt) is not None \
                and not any(isinstance(x, ast.Call) and not (isinstance(x.func, ast.Name) and (x.func.id in self.nts or x.func.id in PURE_FUNCS)) for x in ast.walk(it.elt)):
            g = it.generators[0]
            bound = _names(g.target)
            if not (bound & (_names(node.target) | {n for s in node.body for n in _names(s, ast.Store)})):
                self.changed = True
                tgt = copy.deepcopy(g.target)
                for x in ast.walk(tgt):
                    if isinstance(x, ast.Name):
                        x.ctx = ast.Store()
                body = [ast.copy_location(ast.Assign(targets=[node.target], value=it.elt, lineno=node.lineno), node)] + node.body
                if g.ifs:
                    test = g.ifs[0] if len(g.ifs) == 1 else ast.BoolOp(op=ast.And(), values=g.ifs)
                    body = [ast.copy_location(ast.If(test=test, body=body, orelse=[]), node)]
                return ast.copy_location(ast.For(target=tgt, iter=g.iter, body=body, orelse=[], type_comment=None), node)
        return node


# ------------------------------------------------------------------------------------------- D10 forward a single-use temporary
class ForwardTemps:
    """t = E ; S(t)   ->   S(E)      when t is stored once and loaded once (in S, the next statement, outside any nested scope,
    loop body or conditional part) and every call of S that is not an ancestor of the use comes after it in source order"""

    def run(self, fn):
        uses = {}
        for n in ast.walk(fn):
            if isinstance(n, ast.Name):
                s_, l_ = uses.get(n.id, (0, 0))
                uses[n.id] = (s_ + 1, l_) if isinstance(n.ctx, (ast.Store, ast.Del)) else (s_, l_ + 1)
        params = {a.arg for a in fn.args.posonlyargs + fn.args.args + fn.args.kwonlyargs}
        changed = False
        for owner, fld in list(_blocks(fn)):
            stmts = getattr(owner, fld)
            out = []
            i = 0
            while i < len(stmts):
                st = stmts[i]
                nxt = stmts[i + 1] if i + 1 < len(stmts) else None
                if isinstance(st, ast.Assign) and len(st.targets) == 1 and isinstance(st.targets[0], ast.Name) and nxt is not None \
                        and uses.get(st.targets[0].id) == (1, 1) and st.targets[0].id not in params and isinstance(nxt, (ast.Assign, ast.Return, ast.Expr, ast.AugAssign)) \
                        and nxt.value is not None and self._ok(nxt, st.targets[0].id):
                    name = st.targets[0].id
                    val = st.value

                    class R(ast.NodeTransformer):
                        def visit_Name(self, n):
                            if n.id == name and isinstance(n.ctx, ast.Load):
                                return ast.copy_location(copy.deepcopy(val), n)
                            return n

                    new = copy.copy(nxt)
                    new.value = R().visit(nxt.value)
                    out.append(new)
                    i += 2
                    changed = True
                    continue
                out.append(st)
                i += 1
            setattr(owner, fld, out)
        return changed

    @staticmethod
    def _ok(st, name):
        root = st.value
        use = [n for n in ast.walk(root) if isinstance(n, ast.Name) and n.id == name and isinstance(n.ctx, ast.Load)]
        if len(use) != 1:
            return False
        u = use[0]
        # not inside a nested scope / conditional part
        def find(n, cond):
            if n is u:
                return not cond
            if isinstance(n, (ast.Lambda, ast.ListComp, ast.SetComp, ast.DictComp, ast.GeneratorExp)):
                # only the first iterable of a comprehension is evaluated immediately
                if not isinstance(n, ast.Lambda) and n.generators and any(x is u for x in ast.walk(n.generators[0].iter)):
                    return find(n.generators[0].iter, cond)
                return False if any(x is u for x in ast.walk(n)) else None
            if isinstance(n, ast.BoolOp):
                for k, v in enumerate(n.values):
                    r = find(v, cond or k > 0)
                    if r is not None:
                        return r
                return None
            if isinstance(n, ast.IfExp):
                for v, c in ((n.test, cond), (n.body, True), (n.orelse, True)):
                    r = find(v, c)
                    if r is not None:
                        return r
                return None
            for c in ast.iter_child_nodes(n):
                r = find(c, cond)
                if r is not None:
                    return r
            return None

        if not find(root, False):
            return False
        # in EVALUATION order (not source position: forwarded expressions keep the positions of where they came from), no call
        # with possible effects may be evaluated before the use unless it encloses it
        for c in eval_order(root):
            if c is u:
                break
            if isinstance(c, ast.Call) and not any(x is u for x in ast.walk(c)):
                if not (isinstance(c.func, ast.Name) and c.func.id in PURE_FUNCS):
                    return False
        # targets of an assignment are evaluated after the value: fine
        return True


# ------------------------------------------------------------------------------------------- D11 class dispatch through a value
def _dispatch_leaves(e):
    """[(conds, leaf)] of a conditional-expression chain"""
    if isinstance(e, ast.IfExp):
        return [([(e.test, True)] + c, l) for c, l in _dispatch_leaves(e.body)] + [([(e.test, False)] + c, l) for c, l in _dispatch_leaves(e.orelse)]
    return [([], e)]


class DispatchSplit:
    """x = A if c1 else (B if c2 else None); REST      ==>     if c1: x = A; REST  elif c2: x = B; REST  else: x = None; REST
    for chains whose leaves are classes (or None): the choice of a codec class by a table becomes the choice of a branch."""

    def __init__(self, class_names):
        self.class_names = class_names

    def run(self, tree):
        changed = False
        for fn in [n for n in ast.walk(tree) if isinstance(n, ast.FunctionDef)]:
            for _ in range(3):
                if not self._once(fn):
                    break
                changed = True
        return changed

    def _is_cls(self, l):
        return (isinstance(l, ast.Name) and l.id in self.class_names) or (isinstance(l, ast.Attribute) and isinstance(l.value, ast.Name) and l.value.id in self.class_names)

    def _branch_assigned(self, st):
        """name assigned a class in every non-exiting branch of an if/elif chain, or None"""
        from .normalize import always_exits
        names = set()
        cur = st
        n_cls = 0
        while True:
            for body in (cur.body,):
                if always_exits(body):
                    continue
                if len(body) == 1 and isinstance(body[0], ast.Assign) and len(body[0].targets) == 1 and isinstance(body[0].targets[0], ast.Name) and self._is_cls(body[0].value):
                    names.add(body[0].targets[0].id)
                    n_cls += 1
                else:
                    return None
            if len(cur.orelse) == 1 and isinstance(cur.orelse[0], ast.If):
                cur = cur.orelse[0]
                continue
            if cur.orelse and not always_exits(cur.orelse):
                b = cur.orelse
                if len(b) == 1 and isinstance(b[0], ast.Assign) and len(b[0].targets) == 1 and isinstance(b[0].targets[0], ast.Name) and self._is_cls(b[0].value):
                    names.add(b[0].targets[0].id)
                    n_cls += 1
                else:
                    return None
            elif not cur.orelse:
                return None  # falling through without the name bound
            break
        return next(iter(names)) if len(names) == 1 and n_cls >= 2 else None

    def _sink(self, st, rest):
        from .normalize import always_exits
        cur = st
        while True:
            if not always_exits(cur.body):
                cur.body = cur.body + copy.deepcopy(rest)
            if len(cur.orelse) == 1 and isinstance(cur.orelse[0], ast.If):
                cur = cur.orelse[0]
                continue
            if cur.orelse and not always_exits(cur.orelse):
                cur.orelse = cur.orelse + copy.deepcopy(rest)
            break

    def _once(self, fn):
        for owner, fld in list(_blocks(fn)):
            stmts = getattr(owner, fld)
            for i, st in enumerate(stmts):
                # if c1: x = A  elif c2: x = B  else: raise ;  REST      ==>   REST sunk into the branches
                if isinstance(st, ast.If) and stmts[i + 1:] and len(stmts[i + 1:]) <= 12 and not getattr(st, "_sunk", False):
                    x = self._branch_assigned(st)
                    if x is not None and any(isinstance(n, ast.Name) and n.id == x for s_ in stmts[i + 1:] for n in ast.walk(s_)):
                        self._sink(st, stmts[i + 1:])
                        st._sunk = True
                        setattr(owner, fld, stmts[:i + 1])
                        return True
                if not (isinstance(st, ast.Assign) and len(st.targets) == 1 and isinstance(st.targets[0], ast.Name) and isinstance(st.value, ast.IfExp)):
                    continue
                leaves = _dispatch_leaves(st.value)
                cls_leaves = [l for _, l in leaves if self._is_cls(l)]
                if not cls_leaves or len(leaves) < 2 or not all(self._is_cls(l) or (isinstance(l, ast.Constant) and l.value is None) for _, l in leaves):
                    continue
                rest = stmts[i + 1:]
                if len(rest) > 12 or any(isinstance(x, ast.Call) for c, _ in leaves for t, _ in c for x in ast.walk(t)):
                    continue

                def build(e):
                    if isinstance(e, ast.IfExp):
                        return [ast.copy_location(ast.If(test=e.test, body=build(e.body), orelse=build(e.orelse)), st)]
                    return [ast.copy_location(ast.Assign(targets=[copy.deepcopy(st.targets[0])], value=e, lineno=st.lineno), st)] + copy.deepcopy(rest)

                setattr(owner, fld, stmts[:i] + build(st.value))
                return True
        return False


# ------------------------------------------------------------------------------------------- driver
def seek_names(tree):
    """`from io import SEEK_SET` / `from os import SEEK_CUR as CUR`: the imported names are the documented integers"""
    env = {}
    for st in tree.body:
        if isinstance(st, ast.ImportFrom) and st.module in ("io", "os") and st.level == 0:
            for a in st.names:
                if a.name in _SEEK:
                    env[a.asname or a.name] = _SEEK[a.name]
    if not env:
        return 0
    stored = {n.id for n in ast.walk(tree) if isinstance(n, ast.Name) and isinstance(n.ctx, ast.Store)}
    env = {k: v for k, v in env.items() if k not in stored}

    class R(ast.NodeTransformer):
        def visit_Name(self, n):
            if n.id in env and isinstance(n.ctx, ast.Load):
                return ast.copy_location(ast.Constant(value=env[n.id]), n)
            return n

    R().visit(tree)
    return len(env)


def operator_names(tree):
    OPERATOR_NAMES.clear()
    stored = {n.id for n in ast.walk(tree) if isinstance(n, ast.Name) and isinstance(n.ctx, ast.Store)}
    for st in tree.body:
        if isinstance(st, ast.ImportFrom) and st.module == "operator" and st.level == 0:
            for a in st.names:
                if (a.asname or a.name) not in stored:
                    OPERATOR_NAMES[a.asname or a.name] = a.name


def numpy_names(tree):
    """`from numpy.ma import clump_unmasked [as c]` / `from numpy import nan` / `import numpy` : the bare names become the dotted
    spelling the rules know (`np.ma.clump_unmasked`, `np.nan`, `np.`) - the same objects under another name."""
    stored = {n.id for n in ast.walk(tree) if isinstance(n, ast.Name) and isinstance(n.ctx, (ast.Store, ast.Del))}
    params = {a.arg for f in ast.walk(tree) if isinstance(f, (ast.FunctionDef, ast.Lambda)) for a in f.args.args + f.args.kwonlyargs + f.args.posonlyargs}
    names = {}
    need_import = set()
    for st in tree.body:
        if isinstance(st, ast.ImportFrom) and st.level == 0 and st.module in ("numpy", "numpy.ma"):
            for a in st.names:
                nm = a.asname or a.name
                if nm not in stored and nm not in params and a.name != "*":
                    names[nm] = ("np." if st.module == "numpy" else "np.ma.") + a.name
        if isinstance(st, ast.ImportFrom) and st.level == 0 and st.module in ("shutil", "os", "os.path"):
            for a in st.names:
                nm = a.asname or a.name
                if nm not in stored and nm not in params and a.name != "*" and a.name not in _SEEK:
                    names[nm] = st.module + "." + a.name
                    need_import.add(st.module.split(".")[0])
        if isinstance(st, ast.Import):
            for a in st.names:
                if a.name == "numpy" and (a.asname or "numpy") != "np" and (a.asname or "numpy") not in stored | params:
                    names[a.asname or "numpy"] = "np"
                if a.name == "numpy.ma" and a.asname and a.asname not in stored | params:
                    names[a.asname] = "np.ma"
    if not names:
        return 0
    has_np = any(isinstance(st, ast.Import) and any(a.name == "numpy" and a.asname == "np" for a in st.names) for st in tree.body)

    class R(ast.NodeTransformer):
        def visit_Name(self, n):
            if isinstance(n.ctx, ast.Load) and n.id in names:
                return ast.copy_location(ast.parse(names[n.id], mode="eval").body, n)
            return n
    for i, st in enumerate(tree.body):
        if not isinstance(st, (ast.Import, ast.ImportFrom)):
            tree.body[i] = R().visit(st)
    if not has_np and any(v.startswith("np") for v in names.values()):
        tree.body.insert(0, ast.Import(names=[ast.alias(name="numpy", asname="np")]))
    for mod_ in sorted(need_import):
        if not any(isinstance(st, ast.Import) and any(a.name == mod_ and a.asname is None for a in st.names) for st in tree.body):
            tree.body.insert(0, ast.Import(names=[ast.alias(name=mod_, asname=None)]))
    ast.fix_missing_locations(tree)
    return len(names)


def forward_lazy_iterables(tree):
    """T = <lazy iterable> (generator expression, chain.from_iterable / map / filter / zip / enumerate / reversed / iter call)
    for v in T: ..          (next statement, T read nowhere else)      ==>   for v in <lazy iterable>: ..
    Nothing runs between the creation and the loop header, so the iterable is created at the same moment."""
    LAZY = ("chain.from_iterable", "itertools.chain.from_iterable", "chain", "itertools.chain", "map", "filter", "zip", "enumerate", "reversed", "iter",
            "islice", "itertools.islice", "product", "itertools.product", "repeat", "itertools.repeat")
    n = 0
    for fn in [x for x in ast.walk(tree) if isinstance(x, ast.FunctionDef)]:
        loads = {}
        stores = {}
        for x in ast.walk(fn):
            if isinstance(x, ast.Name):
                d = loads if isinstance(x.ctx, ast.Load) else stores
                d[x.id] = d.get(x.id, 0) + 1
        for owner, fld in list(_blocks(fn)):
            stmts = getattr(owner, fld)
            i = 0
            while i + 1 < len(stmts):
                a, b = stmts[i], stmts[i + 1]
                if isinstance(a, ast.Assign) and len(a.targets) == 1 and isinstance(a.targets[0], ast.Name) and isinstance(b, ast.For) \
                        and isinstance(b.iter, ast.Name) and b.iter.id == a.targets[0].id and loads.get(b.iter.id) == 1 and stores.get(b.iter.id) == 1 \
                        and (isinstance(a.value, ast.GeneratorExp) or (isinstance(a.value, ast.Call) and ast.unparse(a.value.func) in LAZY)):
                    b.iter = a.value
                    del stmts[i]
                    n += 1
                    continue
                i += 1
    return n



def empty_guards(tree):
    """if NONEMPTY(X): for t in X: B          ==>   for t in X: B
       if EMPTY(X): return R                   ==>   (dropped)         when what follows is `for t in X: B` and then the same `return R`
    Walking an empty sequence does nothing, so a guard that only skips the walk of an empty X is the walk itself.  EMPTY / NONEMPTY
    are len(X) ==/!=/</<=/>/>= 0|1, `not len(X)`, `len(X)`, and the same over X.size when X is a local bound once to a counted
    `<codec>.bread(stream, n)` (a one-dimensional array of n records)."""
    n = 0

    def polarity(c, fn):
        """(+1 nonempty | -1 empty, text of X) or None"""
        neg = False
        while isinstance(c, ast.UnaryOp) and isinstance(c.op, ast.Not):
            neg = not neg
            c = c.operand

        def measure(e):
            if isinstance(e, ast.Call) and isinstance(e.func, ast.Name) and e.func.id == "len" and len(e.args) == 1 and isinstance(e.args[0], ast.Name):
                return e.args[0].id
            if isinstance(e, ast.Attribute) and e.attr == "size" and isinstance(e.value, ast.Name):
                x = e.value.id
                defs = [a for a in ast.walk(fn) if isinstance(a, ast.Assign) and any(isinstance(t, ast.Name) and t.id == x for t in a.targets)]
                stores = [y for y in ast.walk(fn) if isinstance(y, ast.Name) and y.id == x and isinstance(y.ctx, ast.Store)]
                if len(defs) == 1 and len(stores) == 1 and isinstance(defs[0].value, ast.Call) and isinstance(defs[0].value.func, ast.Attribute) \
                        and defs[0].value.func.attr == "bread" and len(defs[0].value.args) == 2:
                    return x
            return None
        pol = None
        x = measure(c)
        if x is not None:
            pol = 1
        elif isinstance(c, ast.Compare) and len(c.ops) == 1 and isinstance(c.comparators[0], ast.Constant) and type(c.comparators[0].value) is int:
            x = measure(c.left)
            k = c.comparators[0].value
            op = type(c.ops[0])
            if x is not None:
                if (op, k) in ((ast.NotEq, 0), (ast.Gt, 0), (ast.GtE, 1)):
                    pol = 1
                elif (op, k) in ((ast.Eq, 0), (ast.LtE, 0), (ast.Lt, 1)):
                    pol = -1
        if pol is None or x is None:
            return None
        return (-pol if neg else pol), x

    def walks(st, x):
        return isinstance(st, ast.For) and isinstance(st.iter, ast.Name) and st.iter.id == x and not st.orelse

    for fn in [f for f in ast.walk(tree) if isinstance(f, ast.FunctionDef)]:
        for holder in ast.walk(fn):
            for field in ("body", "orelse", "finalbody"):
                blk = getattr(holder, field, None)
                if not isinstance(blk, list) or not blk or not all(isinstance(b, ast.stmt) for b in blk):
                    continue
                i = 0
                while i < len(blk):
                    st = blk[i]
                    if isinstance(st, ast.If):
                        p = polarity(st.test, fn)
                        if p is not None:
                            pol, x = p
                            if pol == 1 and not st.orelse and len(st.body) == 1 and walks(st.body[0], x):
                                blk[i] = st.body[0]
                                n += 1
                                continue
                            if pol == -1 and not st.orelse and len(st.body) == 1 and isinstance(st.body[0], ast.Return) and i + 2 < len(blk) + 0 and walks(blk[i + 1], x) \
                                    and isinstance(blk[i + 2], ast.Return) and ast.dump(blk[i + 2]) == ast.dump(st.body[0]):
                                # the loop must not touch what the return reads: with X empty it does not run at all, so nothing to require
                                del blk[i]
                                n += 1
                                continue
                    i += 1
    if n:
        ast.fix_missing_locations(tree)
    return n


def dict_records(tree):
    """{k: E(k, v) for (k, v) in ((K1, V1), (K2, V2), ..)}      ==>   {K1: E(K1, V1), K2: E(K2, V2), ..}     (a literal table: same order of evaluation)
       F(**{'a': x, 'b': y}, c=z)                                ==>   F(a=x, b=y, c=z)
       d = {'a': x, 'b': y}; .. d.pop('a') .. d['b'] .. F(**d)   ==>   _d_a = x; _d_b = y; .. _d_a .. _d_b .. F(b=_d_b)
    A dict with literal string keys that is only subscripted / popped by literal key and splatted into calls is a bundle of locals.
    The bundle form requires: one binding of d (a dict display) at the top level of the function body, every other use of d is one
    of the three forms, all at the top level of the same body in straight-line statements (so the pops before a splat are known)."""
    n = 0
    # (1) comprehension over a literal table of tuples
    class Unroll(ast.NodeTransformer):
        def visit_DictComp(self, node):
            self.generic_visit(node)
            nonlocal n
            if len(node.generators) != 1 or node.generators[0].ifs or node.generators[0].is_async:
                return node
            g = node.generators[0]
            if not isinstance(g.iter, (ast.Tuple, ast.List)) or not g.iter.elts:
                return node
            names = [g.target.id] if isinstance(g.target, ast.Name) else ([e.id for e in g.target.elts] if isinstance(g.target, ast.Tuple) and all(isinstance(e, ast.Name) for e in g.target.elts) else None)
            if names is None:
                return node
            keys, vals = [], []
            for row in g.iter.elts:
                if isinstance(g.target, ast.Name):
                    parts = [row]
                elif isinstance(row, (ast.Tuple, ast.List)) and len(row.elts) == len(names):
                    parts = row.elts
                else:
                    return node
                if any(isinstance(y, (ast.Call, ast.NamedExpr, ast.Starred)) for p_ in parts for y in ast.walk(p_)):
                    return node
                env = dict(zip(names, parts))

                class S(ast.NodeTransformer):
                    def visit_Name(self, nd):
                        if nd.id in env and isinstance(nd.ctx, ast.Load):
                            return copy.deepcopy(env[nd.id])
                        return nd
                keys.append(S().visit(copy.deepcopy(node.key)))
                vals.append(S().visit(copy.deepcopy(node.value)))
            n += 1
            return ast.copy_location(ast.Dict(keys=keys, values=vals), node)
    Unroll().visit(tree)

    def literal_keys(d):
        return isinstance(d, ast.Dict) and all(isinstance(k, ast.Constant) and isinstance(k.value, str) and k.value.isidentifier() for k in d.keys) \
            and len({k.value for k in d.keys}) == len(d.keys)

    # (2) splat of a dict display
    for c in [x for x in ast.walk(tree) if isinstance(x, ast.Call)]:
        new = []
        changed = False
        for k in c.keywords:
            if k.arg is None and literal_keys(k.value):
                new += [ast.keyword(arg=kk.value, value=vv) for kk, vv in zip(k.value.keys, k.value.values)]
                changed = True
            else:
                new.append(k)
        if changed and len({k.arg for k in new if k.arg}) == len([k for k in new if k.arg]):
            c.keywords = new
            n += 1
    # (3) bundle of locals
    for fn in [f for f in ast.walk(tree) if isinstance(f, ast.FunctionDef)]:
        for i, st in enumerate(fn.body):
            if not (isinstance(st, ast.Assign) and len(st.targets) == 1 and isinstance(st.targets[0], ast.Name) and literal_keys(st.value) and st.value.keys):
                continue
            d = st.targets[0].id
            uses = [y for y in ast.walk(fn) if isinstance(y, ast.Name) and y.id == d and y is not st.targets[0]]
            if not uses or any(isinstance(y.ctx, ast.Store) for y in uses):
                continue
            keys = [k.value for k in st.value.keys]
            rest = fn.body[i + 1:]
            top_of = {}
            for j, b in enumerate(rest):
                for y in ast.walk(b):
                    top_of[id(y)] = j
            if any(id(u) not in top_of for u in uses):
                continue
            ok = True
            plan = []  # (stmt index, kind, node, key)
            parents = {}
            for b in rest:
                for p_ in ast.walk(b):
                    for ch in ast.iter_child_nodes(p_):
                        parents[id(ch)] = p_
            for u in uses:
                par = parents.get(id(u))
                j = top_of[id(u)]
                # straight-line statement only (a use under a loop / branch could run a pop zero or many times)
                if isinstance(rest[j], (ast.For, ast.While, ast.If, ast.Try, ast.With, ast.FunctionDef)):
                    ok = False
                    break
                if isinstance(par, ast.Subscript) and par.value is u and isinstance(par.ctx, ast.Store) and isinstance(par.slice, ast.Constant) and isinstance(par.slice.value, str) \
                        and par.slice.value.isidentifier() and isinstance(rest[j], ast.Assign) and len(rest[j].targets) == 1 and rest[j].targets[0] is par \
                        and not any(isinstance(y, ast.Name) and y.id == d for y in ast.walk(rest[j].value)):
                    # d['k'] = E as a statement: (re)binds that member
                    plan.append((j, "set", par, par.slice.value))
                elif isinstance(par, ast.Subscript) and par.value is u and isinstance(par.ctx, ast.Load) and isinstance(par.slice, ast.Constant) and par.slice.value in keys:
                    plan.append((j, "get", par, par.slice.value))
                elif isinstance(par, ast.Attribute) and par.value is u and par.attr == "pop" and isinstance(parents.get(id(par)), ast.Call) and parents[id(par)].func is par \
                        and len(parents[id(par)].args) == 1 and not parents[id(par)].keywords and isinstance(parents[id(par)].args[0], ast.Constant) and parents[id(par)].args[0].value in keys:
                    plan.append((j, "pop", parents[id(par)], parents[id(par)].args[0].value))
                elif isinstance(par, ast.keyword) and par.arg is None and par.value is u:
                    plan.append((j, "splat", par, None))
                else:
                    ok = False
                    break
            if not ok:
                continue
            # pops and other uses of one statement: order inside a statement is not tracked, so at most one use per statement unless all are gets
            per = {}
            for j, kind, node, key in plan:
                per.setdefault(j, []).append(kind)
            if any(len(v) > 1 and any(k != "get" for k in v) for v in per.values()):
                continue
            live = list(keys)
            popped_twice = False
            repl = {}
            local = lambda k: f"_{d}_{k}"
            for j, kind, node, key in sorted(plan, key=lambda t: t[0]):
                if kind == "set":
                    repl[id(node)] = ast.Name(id=local(key), ctx=ast.Store())
                    if key not in live:
                        live.append(key)
                    continue
                if kind in ("get", "pop"):
                    if key not in live:
                        popped_twice = True
                        break
                    repl[id(node)] = ast.Name(id=local(key), ctx=ast.Load())
                    if kind == "pop":
                        live.remove(key)
                else:
                    repl[id(node)] = [ast.keyword(arg=k, value=ast.Name(id=local(k), ctx=ast.Load())) for k in live]
            if popped_twice:
                continue

            class R(ast.NodeTransformer):
                def visit_Call(self, node):
                    if id(node) in repl:
                        return repl[id(node)]
                    self.generic_visit(node)
                    kws = []
                    for k in node.keywords:
                        kws += repl[id(k)] if id(k) in repl else [k]
                    if len({k.arg for k in kws if k.arg}) != len([k for k in kws if k.arg]):
                        raise _Clash()
                    node.keywords = kws
                    return node

                def visit_Subscript(self, node):
                    if id(node) in repl:
                        return repl[id(node)]
                    self.generic_visit(node)
                    return node

            # a member read before it was set (key not in the display) is not a bundle
            if any(kind == "get" and key not in keys and not any(k2 == "set" and key2 == key and j2 < j for j2, k2, _n2, key2 in plan) for j, kind, _n, key in plan):
                continue

            class _Clash(Exception):
                pass
            saved = copy.deepcopy(fn.body)
            try:
                new_rest = [R().visit(b) for b in rest]
            except _Clash:
                continue
            binds = [ast.copy_location(ast.Assign(targets=[ast.Name(id=local(k.value), ctx=ast.Store())], value=v, lineno=st.lineno), st) for k, v in zip(st.value.keys, st.value.values)]
            fn.body = fn.body[:i] + binds + new_rest
            n += 1
            break
    if n:
        ast.fix_missing_locations(tree)
    return n


def eafp_attribute(tree):
    """try: v = o.A            ==>   if hasattr(o, 'A'): v = o.A; S2
       except AttributeError: S1      else: S1
       else: S2
    (o a plain name; the try body is the single attribute read, so AttributeError can only come from it, and hasattr(o, 'A') is
    by definition "reading o.A does not raise AttributeError")."""
    n = 0

    class T(ast.NodeTransformer):
        def visit_Try(self, node):
            self.generic_visit(node)
            nonlocal n
            # try: B  except E: raise  [else: C]     ==>   B; C        (handlers that only re-raise what they caught change nothing)
            if not node.finalbody and node.handlers and all(len(h.body) == 1 and isinstance(h.body[0], ast.Raise) and h.body[0].exc is None and h.body[0].cause is None for h in node.handlers):
                n += 1
                return node.body + node.orelse
            if node.finalbody or len(node.handlers) != 1 or len(node.body) != 1:
                return node
            h = node.handlers[0]
            if h.name is not None or not (isinstance(h.type, ast.Name) and h.type.id == "AttributeError"):
                return node
            st = node.body[0]
            if not (isinstance(st, ast.Assign) and len(st.targets) == 1 and isinstance(st.targets[0], ast.Name) and isinstance(st.value, ast.Attribute) and isinstance(st.value.value, ast.Name)):
                return node
            test = ast.Call(func=ast.Name(id="hasattr", ctx=ast.Load()), args=[ast.Name(id=st.value.value.id, ctx=ast.Load()), ast.Constant(st.value.attr)], keywords=[])
            n += 1
            return ast.copy_location(ast.If(test=test, body=[st] + node.orelse, orelse=h.body), node)
    T().visit(tree)
    if n:
        ast.fix_missing_locations(tree)
    return n


def inline_loop_generators(tree):
    """def g(self, a, b): for t in XS: S..; yield E         and        for v in self.g(x, y): BODY
       ==>   _a = x; _b = y; for t in XS[a:=_a, b:=_b]: S..; v = E; BODY
    A generator whose body is one loop ending in its only `yield` runs S of one iteration right before the consumer's BODY of that
    iteration (generators are lazy), which is the merged loop.  Arguments are bound once, before the loop, as the call does.
    Requires: plain parameters, as many positional arguments, parameters not re-bound in g, nothing after the yield in the loop and
    nothing after the loop, no return / nested yield in S, the call is the loop's iterable itself."""
    n = 0
    gens = {}
    for scope in [tree] + [c for c in tree.body if isinstance(c, ast.ClassDef)]:
        for fn in [f for f in scope.body if isinstance(f, ast.FunctionDef)]:
            body = [b for b in fn.body if not (isinstance(b, ast.Expr) and isinstance(b.value, ast.Constant))]
            if len(body) != 1 or not isinstance(body[0], ast.For) or body[0].orelse or fn.decorator_list:
                continue
            lp = body[0]
            if len(lp.body) < 2 or not (isinstance(lp.body[-1], ast.Expr) and isinstance(lp.body[-1].value, ast.Yield) and lp.body[-1].value.value is not None):
                continue
            if any(isinstance(y, (ast.Yield, ast.YieldFrom, ast.Return, ast.Break, ast.Continue, ast.FunctionDef, ast.Lambda, ast.Global, ast.Nonlocal)) for b in lp.body[:-1] for y in ast.walk(b)):
                continue
            a = fn.args
            if a.vararg or a.kwarg or a.kwonlyargs or a.defaults or a.posonlyargs:
                continue
            params = [x.arg for x in a.args]
            is_method = isinstance(scope, ast.ClassDef)
            if is_method and (not params or params[0] != "self"):
                continue
            stored = {y.id for y in ast.walk(lp) if isinstance(y, ast.Name) and isinstance(y.ctx, ast.Store)}
            if stored & set(params):
                continue
            gens[(scope.name if is_method else None, fn.name)] = (fn, lp, params[1:] if is_method else params, stored)
    if not gens:
        return 0
    for scope in [tree] + [c for c in tree.body if isinstance(c, ast.ClassDef)]:
        cname = scope.name if isinstance(scope, ast.ClassDef) else None
        for fn in [f for f in scope.body if isinstance(f, ast.FunctionDef)]:
            for holder in list(ast.walk(fn)):
                for field in ("body", "orelse", "finalbody"):
                    blk = getattr(holder, field, None)
                    if not isinstance(blk, list) or not blk or not all(isinstance(b, ast.stmt) for b in blk):
                        continue
                    i = 0
                    while i < len(blk):
                        st = blk[i]
                        i += 1
                        if not (isinstance(st, ast.For) and not st.orelse and isinstance(st.iter, ast.Call) and not st.iter.keywords):
                            continue
                        c = st.iter
                        key = None
                        if isinstance(c.func, ast.Attribute) and isinstance(c.func.value, ast.Name) and c.func.value.id == "self" and cname is not None:
                            key = (cname, c.func.attr)
                        elif isinstance(c.func, ast.Name):
                            key = (None, c.func.id)
                        if key not in gens or gens[key][0] is fn:
                            continue
                        g, lp, params, stored = gens[key]
                        if len(c.args) != len(params) or any(isinstance(x, ast.Starred) for x in c.args):
                            continue
                        k = next(_counter)
                        taken = {y.id for y in ast.walk(fn) if isinstance(y, ast.Name)}
                        ren = {nm: (nm if nm not in taken else f"{nm}__g{k}") for nm in stored}
                        pre, env = [], {}
                        for p_, arg in zip(params, c.args):
                            if isinstance(arg, ast.Constant):
                                env[p_] = arg
                            else:
                                tmp = f"_g{k}_{p_}"
                                pre.append(ast.copy_location(ast.Assign(targets=[ast.Name(id=tmp, ctx=ast.Store())], value=arg, lineno=st.lineno), st))
                                env[p_] = ast.Name(id=tmp, ctx=ast.Load())

                        class R(ast.NodeTransformer):
                            def visit_Name(self, node):
                                if node.id in env and isinstance(node.ctx, ast.Load):
                                    return copy.deepcopy(env[node.id])
                                if node.id in ren:
                                    return ast.copy_location(ast.Name(id=ren[node.id], ctx=node.ctx), node)
                                return node
                        new_lp = R().visit(copy.deepcopy(lp))
                        yielded = new_lp.body[-1].value.value
                        # `for e in ..: ..; yield e` consumed by `for e in ..`: the consumer's name is the generator's
                        if isinstance(st.target, ast.Name) and isinstance(yielded, ast.Name) and yielded.id == st.target.id:
                            bind = []
                        else:
                            bind = [ast.copy_location(ast.Assign(targets=[st.target], value=yielded, lineno=st.lineno), st)]
                        new_lp.body = new_lp.body[:-1] + bind + st.body
                        ast.copy_location(new_lp, st)
                        blk[i - 1:i] = pre + [new_lp]
                        i += len(pre)
                        n += 1
    if n:
        # a private generator with no reference left is gone (its statements now live in its consumers)
        for (cn, name), (g, lp, params, stored) in gens.items():
            if not name.startswith("_") or name.startswith("__"):
                continue
            refs = [y for y in ast.walk(tree) if (isinstance(y, ast.Attribute) and y.attr == name) or (isinstance(y, ast.Name) and y.id == name) or (isinstance(y, ast.Constant) and y.value == name)]
            if not refs:
                for scope in [tree] + [c for c in tree.body if isinstance(c, ast.ClassDef)]:
                    if g in scope.body:
                        scope.body.remove(g)
        ast.fix_missing_locations(tree)
    return n


def inline_cm_classes(tree):
    """class _CM: __init__(self, a): self.a = a;  __enter__: return E(self.a);  __exit__(self, et, ev, tb): if et is None: S(self.a)
       with _CM(x) as v: BODY      ==>   v = E(x); BODY; S(x)
    (and, when __exit__ runs S whatever happened:  v = E(x); try: BODY finally: S(x)).  A private module-level context-manager class
    whose three methods are that simple is the statement sequence the `with` protocol makes of it; __exit__ returns None, so an
    exception of BODY propagates.  x must be a plain name / attribute chain (read again where S uses it)."""
    n = 0
    cms = {}
    for cls in [c for c in tree.body if isinstance(c, ast.ClassDef) and c.name.startswith("_") and not c.bases and not c.decorator_list]:
        ms = {m.name: m for m in cls.body if isinstance(m, ast.FunctionDef)}
        others = [b for b in cls.body if not isinstance(b, ast.FunctionDef) and not (isinstance(b, ast.Expr) and isinstance(b.value, ast.Constant))]
        if set(ms) != {"__init__", "__enter__", "__exit__"} or others or any(m.decorator_list for m in ms.values()):
            continue
        nodoc = lambda b: [x for x in b if not (isinstance(x, ast.Expr) and isinstance(x.value, ast.Constant))]
        init, ent, ex = ms["__init__"], ms["__enter__"], ms["__exit__"]
        ia = init.args
        if ia.vararg or ia.kwarg or ia.kwonlyargs or ia.defaults or len(ia.args) < 1:
            continue
        params = [a.arg for a in ia.args[1:]]
        fields = {}
        okc = True
        for st in nodoc(init.body):
            if isinstance(st, (ast.Assign, ast.AnnAssign)):
                t = st.targets[0] if isinstance(st, ast.Assign) else st.target
                if isinstance(t, ast.Attribute) and isinstance(t.value, ast.Name) and t.value.id == "self" and isinstance(st.value, ast.Name) and st.value.id in params and t.attr not in fields:
                    fields[t.attr] = st.value.id
                    continue
            okc = False
        eb = nodoc(ent.body)
        if not okc or len(eb) != 1 or not isinstance(eb[0], ast.Return) or eb[0].value is None or len(ent.args.args) != 1:
            continue
        xa = ex.args
        if len(xa.args) != 4 or xa.vararg or xa.kwarg:
            continue
        xb = nodoc(ex.body)
        et = xa.args[1].arg
        cond = False
        if len(xb) == 1 and isinstance(xb[0], ast.If) and not xb[0].orelse and isinstance(xb[0].test, ast.Compare) and len(xb[0].test.ops) == 1 and isinstance(xb[0].test.ops[0], ast.Is) \
                and isinstance(xb[0].test.left, ast.Name) and xb[0].test.left.id == et and isinstance(xb[0].test.comparators[0], ast.Constant) and xb[0].test.comparators[0].value is None:
            cond, xb = True, xb[0].body
        if any(isinstance(y, (ast.Return, ast.Yield, ast.YieldFrom)) for b in xb for y in ast.walk(b)) or any(isinstance(y, ast.Name) and y.id in [a.arg for a in xa.args[1:]] for b in xb for y in ast.walk(b)):
            continue
        # the methods see the instance only through the fields set by __init__
        def only_fields(nodes):
            for b in nodes:
                for y in ast.walk(b):
                    if isinstance(y, ast.Name) and y.id == "self":
                        return False if not getattr(y, "_fld", False) else True
            return True
        bad = False
        for b in [eb[0].value] + xb:
            for y in ast.walk(b):
                if isinstance(y, ast.Attribute) and isinstance(y.value, ast.Name) and y.value.id == "self":
                    if y.attr not in fields or not isinstance(y.ctx, ast.Load):
                        bad = True
                    y.value._fld = True
            for y in ast.walk(b):
                if isinstance(y, ast.Name) and y.id == "self" and not getattr(y, "_fld", False):
                    bad = True
        if bad:
            continue
        cms[cls.name] = (cls, params, fields, eb[0].value, xb, cond)
    if not cms:
        return 0

    def simple(a):
        return isinstance(a, ast.Name) or (isinstance(a, ast.Attribute) and simple(a.value))

    for fn in [f for f in ast.walk(tree) if isinstance(f, ast.FunctionDef)]:
        for holder in list(ast.walk(fn)):
            for field in ("body", "orelse", "finalbody"):
                blk = getattr(holder, field, None)
                if not isinstance(blk, list) or not blk or not all(isinstance(b, ast.stmt) for b in blk):
                    continue
                i = 0
                while i < len(blk):
                    st = blk[i]
                    i += 1
                    if not (isinstance(st, ast.With) and len(st.items) == 1 and isinstance(st.items[0].context_expr, ast.Call) and isinstance(st.items[0].context_expr.func, ast.Name)
                            and st.items[0].context_expr.func.id in cms):
                        continue
                    c = st.items[0].context_expr
                    cls, params, fields, enter_e, exit_b, cond = cms[c.func.id]
                    if c.keywords or len(c.args) != len(params) or not all(simple(a) for a in c.args):
                        continue
                    # the arguments are read again by the exit statements: the body must not re-bind the names they start from
                    roots = set()
                    for a in c.args:
                        r = a
                        while isinstance(r, ast.Attribute):
                            r = r.value
                        roots.add(r.id)
                    if any(isinstance(y, ast.Name) and y.id in roots and isinstance(y.ctx, ast.Store) for b in st.body for y in ast.walk(b)) or \
                            any(isinstance(y, ast.Attribute) and isinstance(y.ctx, ast.Store) and ast.unparse(y) in {ast.unparse(a) for a in c.args} for b in st.body for y in ast.walk(b)):
                        continue
                    env = dict(zip(params, c.args))

                    class R(ast.NodeTransformer):
                        def visit_Attribute(self, node):
                            if isinstance(node.value, ast.Name) and node.value.id == "self" and node.attr in fields:
                                return copy.deepcopy(env[fields[node.attr]])
                            self.generic_visit(node)
                            return node
                    ent_v = R().visit(copy.deepcopy(enter_e))
                    ex_s = [R().visit(copy.deepcopy(b)) for b in exit_b]
                    v = st.items[0].optional_vars
                    pre = [ast.copy_location(ast.Assign(targets=[v], value=ent_v, lineno=st.lineno), st)] if v is not None else \
                        ([ast.copy_location(ast.Expr(value=ent_v), st)] if any(isinstance(y, ast.Call) for y in ast.walk(ent_v)) else [])
                    if cond:
                        if _has_jump(st.body) or any(isinstance(y, ast.Return) for b in st.body for y in ast.walk(b)):
                            continue
                        new = pre + st.body + ex_s
                    else:
                        new = pre + [ast.copy_location(ast.Try(body=st.body, handlers=[], orelse=[], finalbody=ex_s), st)]
                    blk[i - 1:i] = new
                    i += len(new) - 1
                    n += 1
    if n:
        for name, (cls, *_r) in cms.items():
            if not any(isinstance(y, ast.Name) and y.id == name for y in ast.walk(tree)):
                tree.body.remove(cls)
        ast.fix_missing_locations(tree)
    return n


def sink_branch_callables(tree):
    """if c: .. f = self.a   else: .. f = partial(self.b, x)        ==>   if c: .. r = self.a(ARGS)   else: .. r = self.b(x, ARGS)
       r = f(ARGS)
    A local bound, as the last statement of every arm of an if, to a callable (a bound method, a function name, or partial(F, a..))
    and used only by the single call that follows the if immediately: the call moves into the arms.  ARGS must be plain names /
    constants (nothing evaluated between the binding and the call can change them)."""
    n = 0
    for fn in [f for f in ast.walk(tree) if isinstance(f, ast.FunctionDef)]:
        for holder in list(ast.walk(fn)):
            for field in ("body", "orelse", "finalbody"):
                blk = getattr(holder, field, None)
                if not isinstance(blk, list) or len(blk) < 2 or not all(isinstance(b, ast.stmt) for b in blk):
                    continue
                for i in range(len(blk) - 1):
                    st, nxt = blk[i], blk[i + 1]
                    if not (isinstance(st, ast.If) and st.orelse):
                        continue
                    # arms of the if / elif chain
                    arms = []
                    cur = st
                    while True:
                        arms.append(cur.body)
                        if len(cur.orelse) == 1 and isinstance(cur.orelse[0], ast.If) and cur.orelse[0].orelse:
                            cur = cur.orelse[0]
                            continue
                        arms.append(cur.orelse)
                        break
                    lasts = [a[-1] for a in arms if a]
                    if len(lasts) != len(arms) or not all(isinstance(l, ast.Assign) and len(l.targets) == 1 and isinstance(l.targets[0], ast.Name) for l in lasts):
                        continue
                    f = lasts[0].targets[0].id
                    if any(l.targets[0].id != f for l in lasts):
                        continue
                    call = None
                    if isinstance(nxt, (ast.Assign, ast.Expr, ast.Return)) and isinstance(nxt.value, ast.Call) and isinstance(nxt.value.func, ast.Name) and nxt.value.func.id == f:
                        call = nxt.value
                    if call is None or call.keywords or not all(isinstance(a, (ast.Name, ast.Constant)) for a in call.args) or any(isinstance(a, ast.Name) and a.id == f for a in call.args):
                        continue
                    uses = [y for y in ast.walk(fn) if isinstance(y, ast.Name) and y.id == f]
                    if len(uses) != len(lasts) + 1:
                        continue

                    def applied(c_):
                        if isinstance(c_, ast.Call) and ast.unparse(c_.func) in ("partial", "functools.partial") and c_.args and not c_.keywords and isinstance(c_.args[0], (ast.Name, ast.Attribute)) \
                                and all(isinstance(a, (ast.Name, ast.Constant, ast.Attribute)) for a in c_.args[1:]):
                            return ast.Call(func=c_.args[0], args=list(c_.args[1:]) + [copy.deepcopy(a) for a in call.args], keywords=[])
                        if isinstance(c_, ast.Attribute) and isinstance(c_.value, ast.Name) and c_.value.id in ("self", "cls"):
                            return ast.Call(func=c_, args=[copy.deepcopy(a) for a in call.args], keywords=[])
                        if isinstance(c_, ast.Name) and c_.id != f:
                            return ast.Call(func=c_, args=[copy.deepcopy(a) for a in call.args], keywords=[])
                        return None
                    news = [applied(l.value) for l in lasts]
                    if any(x is None for x in news):
                        continue
                    for a, l, nw in zip(arms, lasts, news):
                        repl = copy.copy(nxt)
                        repl.value = nw
                        a[-1] = ast.copy_location(repl, l)
                    del blk[i + 1]
                    n += 1
                    break
    if n:
        ast.fix_missing_locations(tree)
    return n


def singledispatch_to_if(tree):
    """@singledispatchmethod def f(self, x): BASE;  @f.register(int) def _a(self, x): A;  @f.register(str) def _b(self, x): B
       ==>   def f(self, x): if isinstance(x, int): A  elif isinstance(x, str): B  else: BASE
    singledispatch picks the implementation registered for the nearest class in type(x).__mro__; with registered builtin classes
    none of which is a subclass of another that is the isinstance chain (in any order)."""
    n = 0
    UNRELATED = {"int", "str", "float", "bytes", "list", "tuple", "dict", "set", "complex", "bytearray"}
    for cls in [c for c in ast.walk(tree) if isinstance(c, ast.ClassDef)]:
        for base in [m for m in cls.body if isinstance(m, ast.FunctionDef) and [ast.unparse(d) for d in m.decorator_list] in (["singledispatchmethod"], ["functools.singledispatchmethod"])]:
            if len(base.args.args) != 2 or base.args.vararg or base.args.kwarg or base.args.kwonlyargs or base.args.defaults:
                continue
            p = base.args.args[1].arg
            regs = []
            ok = True
            for m in cls.body:
                if not isinstance(m, ast.FunctionDef) or m is base:
                    continue
                for d in m.decorator_list:
                    if isinstance(d, ast.Call) and ast.unparse(d.func) == f"{base.name}.register" and len(d.args) == 1 and not d.keywords and len(m.decorator_list) == 1:
                        t = d.args[0]
                    elif isinstance(d, ast.Attribute) and ast.unparse(d) == f"{base.name}.register" and len(m.decorator_list) == 1 and len(m.args.args) == 2 and m.args.args[1].annotation is not None:
                        t = m.args.args[1].annotation
                    else:
                        if base.name in ast.unparse(d):
                            ok = False
                        continue
                    if not (isinstance(t, ast.Name) and t.id in UNRELATED) or len(m.args.args) != 2 or m.args.vararg or m.args.kwarg or m.args.kwonlyargs or m.args.defaults:
                        ok = False
                        continue
                    regs.append((t.id, m))
            if not ok or not regs or len({t for t, _ in regs}) != len(regs):
                continue
            # the registered functions are reachable only through the dispatcher
            names = {m.name for _, m in regs}
            if any((isinstance(y, ast.Attribute) and y.attr in names) or (isinstance(y, ast.Name) and y.id in names) for y in ast.walk(tree)):
                continue
            chain = [b for b in base.body]
            for t, m in reversed(regs):
                q = m.args.args[1].arg
                body = [b for b in m.body if not (isinstance(b, ast.Expr) and isinstance(b.value, ast.Constant))]
                if q != p:
                    if any(isinstance(y, ast.Name) and y.id == p for b in body for y in ast.walk(b)):
                        ok = False
                        break

                    class Rn(ast.NodeTransformer):
                        def visit_Name(self, node):
                            return ast.copy_location(ast.Name(id=p, ctx=node.ctx), node) if node.id == q else node
                    body = [Rn().visit(b) for b in body]
                test = ast.Call(func=ast.Name(id="isinstance", ctx=ast.Load()), args=[ast.Name(id=p, ctx=ast.Load()), ast.Name(id=t, ctx=ast.Load())], keywords=[])
                chain = [ast.copy_location(ast.If(test=test, body=body or [ast.Pass()], orelse=chain), m)]
            if not ok:
                continue
            base.body = chain
            base.decorator_list = []
            for _, m in regs:
                cls.body.remove(m)
            n += 1
    if n:
        ast.fix_missing_locations(tree)
    return n


def unroll_search_loops(tree):
    """for t in (e1, e2, ..): if C(t): S(t); break     ==>   if C(e1): S(e1)  elif C(e2): S(e2) ..  else: E
       else: E
    (also over `{k1: v1, ..}.items()` / `.keys()` / `.values()` of a dict display: its pairs in display order).  A search over a short
    literal sequence that stops at the first hit is the if/elif chain over its elements.  Elements free of calls, at most 8,
    loop variables not read after the loop."""
    n = 0
    for fn in [f for f in ast.walk(tree) if isinstance(f, ast.FunctionDef)]:
        for holder in list(ast.walk(fn)):
            for field in ("body", "orelse", "finalbody"):
                blk = getattr(holder, field, None)
                if not isinstance(blk, list) or not blk or not all(isinstance(b, ast.stmt) for b in blk):
                    continue
                for i, st in enumerate(blk):
                    if not (isinstance(st, ast.For) and len(st.body) == 1 and isinstance(st.body[0], ast.If) and not st.body[0].orelse and st.body[0].body
                            and isinstance(st.body[0].body[-1], ast.Break)):
                        continue
                    inner = st.body[0]
                    if any(isinstance(y, (ast.Break, ast.Continue)) for b in inner.body[:-1] for y in ast.walk(b)):
                        continue
                    it = st.iter
                    elems = None
                    if isinstance(it, (ast.Tuple, ast.List)):
                        elems = list(it.elts)
                    elif isinstance(it, ast.Call) and isinstance(it.func, ast.Attribute) and it.func.attr in ("items", "keys", "values") and not it.args and isinstance(it.func.value, ast.Dict) \
                            and all(k is not None for k in it.func.value.keys):
                        d = it.func.value
                        elems = [ast.Tuple(elts=[k, v], ctx=ast.Load()) for k, v in zip(d.keys, d.values)] if it.func.attr == "items" else list(d.keys if it.func.attr == "keys" else d.values)
                    if not elems or len(elems) > 8 or any(isinstance(y, (ast.Call, ast.NamedExpr, ast.Starred)) for e in elems for y in ast.walk(e)):
                        continue
                    tnames = [y.id for y in ast.walk(st.target) if isinstance(y, ast.Name)]
                    if any(isinstance(y, ast.Name) and y.id in tnames for b in blk[i + 1:] for y in ast.walk(b)):
                        continue
                    if any(isinstance(y, ast.Name) and y.id in tnames and isinstance(y.ctx, ast.Store) for b in inner.body for y in ast.walk(b)):
                        continue
                    arms = []
                    okk = True
                    for e in elems:
                        if isinstance(st.target, ast.Name):
                            env = {st.target.id: e}
                        elif isinstance(st.target, ast.Tuple) and isinstance(e, ast.Tuple) and len(e.elts) == len(st.target.elts) and all(isinstance(t, ast.Name) for t in st.target.elts):
                            env = {t.id: x for t, x in zip(st.target.elts, e.elts)}
                        else:
                            okk = False
                            break
                        arms.append((_subst(copy.deepcopy(inner.test), env), [_subst(copy.deepcopy(b), env) for b in inner.body[:-1]] or [ast.Pass()]))
                    if not okk:
                        continue
                    chain = list(st.orelse)
                    for test, body in reversed(arms):
                        chain = [ast.copy_location(ast.If(test=test, body=body, orelse=chain), st)]
                    blk[i:i + 1] = chain
                    n += 1
                    break
    if n:
        ast.fix_missing_locations(tree)
    return n


def expand_decorator_aliases(tree):
    """def _dec(f): return A(B(f))            and          @_dec def m(..)       ==>      @A @B def m(..)
    A private module-level function whose body is one return of nested one-argument calls around its parameter is the stack of
    those decorators (decorators apply bottom-up: @A @B def m is m = A(B(m)))."""
    n = 0
    aliases = {}
    for fn in [f for f in tree.body if isinstance(f, ast.FunctionDef) and f.name.startswith("_") and not f.decorator_list]:
        body = [b for b in fn.body if not (isinstance(b, ast.Expr) and isinstance(b.value, ast.Constant))]
        a = fn.args
        if len(body) != 1 or not isinstance(body[0], ast.Return) or body[0].value is None or len(a.args) != 1 or a.vararg or a.kwarg or a.kwonlyargs or a.defaults:
            continue
        chain, cur = [], body[0].value
        while isinstance(cur, ast.Call) and len(cur.args) == 1 and not cur.keywords and isinstance(cur.func, (ast.Name, ast.Attribute)):
            chain.append(cur.func)
            cur = cur.args[0]
        if chain and isinstance(cur, ast.Name) and cur.id == a.args[0].arg and not any(isinstance(y, ast.Name) and y.id == a.args[0].arg for c in chain for y in ast.walk(c)):
            aliases[fn.name] = chain
    if not aliases:
        return 0
    for f in [x for x in ast.walk(tree) if isinstance(x, ast.FunctionDef)]:
        new = []
        for d in f.decorator_list:
            if isinstance(d, ast.Name) and d.id in aliases:
                new += [copy.deepcopy(c) for c in aliases[d.id]]
                n += 1
            else:
                new.append(d)
        f.decorator_list = new
    if n:
        for name in aliases:
            if not any(isinstance(y, ast.Name) and y.id == name for y in ast.walk(tree)):
                tree.body = [b for b in tree.body if not (isinstance(b, ast.FunctionDef) and b.name == name)]
        ast.fix_missing_locations(tree)
    return n


def dataclass_init(tree):
    """@dataclass class C: a: T; b: U = D; c: V = field(init=False); def __post_init__(self): S
       ==>   class C: def __init__(self, a, b=D): self.a = a; self.b = b; S
    The generated constructor of a (non-frozen, slot-less) dataclass is exactly that: one positional-or-keyword parameter per
    init field in declaration order, stored under its name, then __post_init__.  Only the plain forms are expanded: annotations
    without value, with a constant default, or `field(init=False)` without default; no InitVar / ClassVar / KW_ONLY, no bases that
    are dataclasses, no explicit __init__."""
    n = 0
    for cls in [c for c in ast.walk(tree) if isinstance(c, ast.ClassDef)]:
        decs = cls.decorator_list
        if len(decs) != 1:
            continue
        d = decs[0]
        name = ast.unparse(d.func) if isinstance(d, ast.Call) else ast.unparse(d)
        if name not in ("dataclass", "dataclasses.dataclass"):
            continue
        kws = {k.arg: k.value for k in d.keywords} if isinstance(d, ast.Call) else {}
        if (isinstance(d, ast.Call) and d.args) or any(k not in ("eq", "repr", "order", "unsafe_hash", "match_args") for k in kws) or not all(isinstance(v, ast.Constant) for v in kws.values()):
            continue
        if cls.bases and any(ast.unparse(b) not in ("object", "Sized", "BuildWriteable", "Block", "ABC") for b in cls.bases):
            continue
        if any(isinstance(m, ast.FunctionDef) and m.name == "__init__" for m in cls.body):
            continue
        # the other generated methods must not come into play: __eq__ is generated unless eq=False or the class defines its own
        own = {m.name for m in cls.body if isinstance(m, ast.FunctionDef)}
        flag = lambda k, default: kws[k].value if k in kws else default
        if (flag("eq", True) and "__eq__" not in own) or flag("order", False) or flag("unsafe_hash", False):
            continue
        params, stores, okk = [], [], True
        anns = [b for b in cls.body if isinstance(b, ast.AnnAssign)]
        for a in anns:
            if not isinstance(a.target, ast.Name) or any(t in ast.unparse(a.annotation) for t in ("InitVar", "ClassVar", "KW_ONLY")):
                okk = False
                break
            if a.value is None:
                if any(p[1] is not None for p in params):
                    okk = False
                    break
                params.append((a.target.id, None))
                stores.append(a.target.id)
            elif isinstance(a.value, ast.Constant):
                params.append((a.target.id, a.value))
                stores.append(a.target.id)
            elif isinstance(a.value, ast.Call) and ast.unparse(a.value.func) in ("field", "dataclasses.field") and not a.value.args \
                    and [k.arg for k in a.value.keywords] == ["init"] and isinstance(a.value.keywords[0].value, ast.Constant) and a.value.keywords[0].value.value is False:
                pass  # not a parameter, not stored by the constructor
            else:
                okk = False
                break
        if not okk or not anns:
            continue
        post = next((m for m in cls.body if isinstance(m, ast.FunctionDef) and m.name == "__post_init__"), None)
        if post is not None and (len(post.args.args) != 1 or post.args.args[0].arg != "self" or post.decorator_list
                                 or any(isinstance(y, (ast.Return, ast.Yield, ast.YieldFrom)) for y in ast.walk(post))):
            continue
        body = [ast.Assign(targets=[ast.Attribute(value=ast.Name(id="self", ctx=ast.Load()), attr=nm, ctx=ast.Store())], value=ast.Name(id=nm, ctx=ast.Load()), lineno=cls.lineno) for nm in stores]
        if post is not None:
            body += [b for b in post.body if not (isinstance(b, ast.Expr) and isinstance(b.value, ast.Constant))]
        init = ast.FunctionDef(name="__init__", args=ast.arguments(posonlyargs=[], args=[ast.arg(arg="self")] + [ast.arg(arg=nm) for nm, _ in params], vararg=None, kwonlyargs=[], kw_defaults=[],
                                                                 kwarg=None, defaults=[dv for _, dv in params if dv is not None]),
                               body=body or [ast.Pass()], decorator_list=[], returns=None, type_comment=None, lineno=cls.lineno, col_offset=4, type_params=[])
        first = cls.body.index(anns[0])
        cls.body = [b for b in cls.body if b not in anns and b is not post]
        cls.body.insert(min(first, len(cls.body)), init)
        cls.decorator_list = []
        n += 1
    if n:
        ast.fix_missing_locations(tree)
    return n


def manual_iteration(tree):
    """it = iter(XS)                                            ==>   for x in XS: BODY
       while True:                                                     else: H
           try: x = next(it)  except StopIteration: H  (H leaves: raise / return; or `break`, then there is no else)
           BODY
    Driving an iterator by hand is the for-loop; what the handler does when the iterator is exhausted is the loop's else.
    `it` must not be used anywhere else; BODY has no `break` when H is not `break` (a break would skip the else - there is none to skip
    in the hand-written form either, so break is allowed only with the `break` handler form)."""
    n = 0
    for fn in [f for f in ast.walk(tree) if isinstance(f, ast.FunctionDef)]:
        for holder in list(ast.walk(fn)):
            for field in ("body", "orelse", "finalbody"):
                blk = getattr(holder, field, None)
                if not isinstance(blk, list) or len(blk) < 2 or not all(isinstance(b, ast.stmt) for b in blk):
                    continue
                for i in range(len(blk) - 1):
                    a, w = blk[i], blk[i + 1]
                    if not (isinstance(a, ast.Assign) and len(a.targets) == 1 and isinstance(a.targets[0], ast.Name) and isinstance(a.value, ast.Call) and isinstance(a.value.func, ast.Name)
                            and a.value.func.id == "iter" and len(a.value.args) == 1 and not a.value.keywords):
                        continue
                    it = a.targets[0].id
                    if not (isinstance(w, ast.While) and isinstance(w.test, ast.Constant) and w.test.value is True and not w.orelse and w.body and isinstance(w.body[0], ast.Try)):
                        continue
                    tr = w.body[0]
                    if tr.finalbody or tr.orelse or len(tr.handlers) != 1 or len(tr.body) != 1 or tr.handlers[0].name is not None \
                            or not (isinstance(tr.handlers[0].type, ast.Name) and tr.handlers[0].type.id == "StopIteration"):
                        continue
                    st = tr.body[0]
                    if not (isinstance(st, ast.Assign) and len(st.targets) == 1 and isinstance(st.value, ast.Call) and isinstance(st.value.func, ast.Name) and st.value.func.id == "next"
                            and len(st.value.args) == 1 and isinstance(st.value.args[0], ast.Name) and st.value.args[0].id == it):
                        continue
                    uses = [y for y in ast.walk(fn) if isinstance(y, ast.Name) and y.id == it]
                    if len(uses) != 2:
                        continue
                    H = tr.handlers[0].body
                    rest = w.body[1:]
                    is_break = len(H) == 1 and isinstance(H[0], ast.Break)
                    leaves = bool(H) and isinstance(H[-1], (ast.Raise, ast.Return))
                    if not (is_break or leaves):
                        continue

                    def own_breaks(stmts):
                        for s_ in stmts:
                            if isinstance(s_, ast.Break):
                                return True
                            if isinstance(s_, (ast.For, ast.While, ast.FunctionDef)):
                                continue
                            for f2 in ("body", "orelse", "finalbody"):
                                if own_breaks(getattr(s_, f2, []) or []):
                                    return True
                            if isinstance(s_, ast.Try) and any(own_breaks(h.body) for h in s_.handlers):
                                return True
                        return False
                    if leaves and own_breaks(rest):
                        continue
                    loop = ast.copy_location(ast.For(target=st.targets[0], iter=a.value.args[0], body=rest or [ast.Pass()], orelse=[], type_comment=None), w)
                    # (no break in BODY: the else of such a loop always runs when the loop ends, i.e. it simply follows the loop)
                    blk[i:i + 2] = [loop] + ([] if is_break else H)
                    n += 1
                    break
    if n:
        ast.fix_missing_locations(tree)
    return n


def induction_variables(tree):
    """v = A ... for x in XS[lo:]: v += K; USE(v)   ==>   for (_iv, x) in enumerate(XS[lo:], start=lo): USE(v + K * (_iv - lo + 1))
    (and `USE(v); v += K` ==> USE(v + K * (_iv - lo))).  A running address / index that advances by a fixed step per iteration is its
    closed form in the iteration number.  Requires: v is a local name, the step is its only store inside the loop and sits at the
    top level of the loop body, K is free of calls and of names stored in the loop, no `continue` can skip the step, the loop is
    not nested in another loop and v is not read after it (its final value is dropped with the step)."""
    n = 0
    counter = [0]
    for fn in [f for f in ast.walk(tree) if isinstance(f, (ast.FunctionDef,))]:
        nested = set()
        for lp in [x for x in ast.walk(fn) if isinstance(x, (ast.For, ast.While))]:
            for y in ast.walk(lp):
                if y is not lp and isinstance(y, (ast.For, ast.While)):
                    nested.add(id(y))
        for lp in [x for x in ast.walk(fn) if isinstance(x, ast.For) and id(x) not in nested and not x.orelse]:
            steps = [(i, st) for i, st in enumerate(lp.body) if isinstance(st, ast.AugAssign) and isinstance(st.op, (ast.Add, ast.Sub)) and isinstance(st.target, ast.Name)]
            for i, st in steps:
                v = st.target.id
                stores_in = [y for y in ast.walk(lp) if isinstance(y, ast.Name) and y.id == v and isinstance(y.ctx, ast.Store)]
                if len(stores_in) != 1 or any(isinstance(y, (ast.Global, ast.Nonlocal)) for y in ast.walk(fn)):
                    continue
                if any(isinstance(y, (ast.Call, ast.Await, ast.NamedExpr)) for y in ast.walk(st.value)):
                    continue
                stored_names = {y.id for y in ast.walk(lp) if isinstance(y, ast.Name) and isinstance(y.ctx, ast.Store)}
                if any(isinstance(y, ast.Name) and y.id in stored_names for y in ast.walk(st.value)):
                    continue
                if any(isinstance(y, ast.Name) and y.id == v for y in ast.walk(st.value)):
                    continue
                if i != 0 and any(isinstance(y, ast.Continue) for b in lp.body[:i] for y in ast.walk(b)):
                    continue
                if any(isinstance(y, (ast.Lambda, ast.FunctionDef, ast.GeneratorExp)) and any(isinstance(z, ast.Name) and z.id == v for z in ast.walk(y)) for y in ast.walk(lp)):
                    continue
                end = getattr(lp, "end_lineno", None)
                if end is None or any(isinstance(y, ast.Name) and y.id == v and getattr(y, "lineno", 0) > end for y in ast.walk(fn)):
                    continue
                # v must be bound before the loop by a plain assignment in the function
                if not any(isinstance(y, ast.Name) and y.id == v and isinstance(y.ctx, ast.Store) and getattr(y, "lineno", 10 ** 9) < lp.lineno for y in ast.walk(fn)):
                    continue
                # iteration number
                it = lp.iter
                if isinstance(it, ast.Call) and isinstance(it.func, ast.Name) and it.func.id == "enumerate" and isinstance(lp.target, ast.Tuple) and len(lp.target.elts) == 2 \
                        and isinstance(lp.target.elts[0], ast.Name) and not any(isinstance(y, ast.Name) and y.id == lp.target.elts[0].id and isinstance(y.ctx, ast.Store) for b in lp.body for y in ast.walk(b)):
                    iv = lp.target.elts[0].id
                    start = next((k.value for k in it.keywords if k.arg == "start"), it.args[1] if len(it.args) > 1 else ast.Constant(0))
                else:
                    counter[0] += 1
                    iv = f"_iv{counter[0]}"
                    start = ast.Constant(0)
                    if isinstance(it, ast.Subscript) and isinstance(it.slice, ast.Slice) and it.slice.step is None and it.slice.lower is not None \
                            and not any(isinstance(y, (ast.Call, ast.NamedExpr)) for y in ast.walk(it.slice.lower)) \
                            and not any(isinstance(y, ast.Name) and y.id in stored_names for y in ast.walk(it.slice.lower)) \
                            and not (isinstance(it.slice.lower, ast.UnaryOp)) and not (isinstance(it.slice.lower, ast.Constant) and isinstance(it.slice.lower.value, int) and it.slice.lower.value < 0):
                        start = it.slice.lower
                    kw = [] if isinstance(start, ast.Constant) and start.value == 0 else [ast.keyword(arg="start", value=copy.deepcopy(start))]
                    lp.iter = ast.Call(func=ast.Name(id="enumerate", ctx=ast.Load()), args=[it], keywords=kw)
                    lp.target = ast.Tuple(elts=[ast.Name(id=iv, ctx=ast.Store()), lp.target], ctx=ast.Store())

                def closed(extra):
                    num = ast.BinOp(left=ast.Name(id=iv, ctx=ast.Load()), op=ast.Sub(), right=copy.deepcopy(start))
                    if extra:
                        num = ast.BinOp(left=num, op=ast.Add(), right=ast.Constant(1))
                    return ast.BinOp(left=ast.Name(id=v, ctx=ast.Load()), op=copy.deepcopy(st.op), right=ast.BinOp(left=copy.deepcopy(st.value), op=ast.Mult(), right=num))

                class Sub_(ast.NodeTransformer):
                    def __init__(self, extra):
                        self.extra = extra

                    def visit_Name(self, node):
                        if node.id == v and isinstance(node.ctx, ast.Load):
                            return closed(self.extra)
                        return node
                new_body = []
                for j, b in enumerate(lp.body):
                    if j == i:
                        continue
                    new_body.append(Sub_(j > i).visit(b))
                lp.body = new_body or [ast.Pass()]
                n += 1
                break
    if n:
        ast.fix_missing_locations(tree)
    return n


def inline_post_call_decorators(tree):
    """def _dec(method):                                   @_dec
           @wraps(method)                                  def m(self, ..): BODY          ==>     def m(self, ..): BODY; POST
           def wrapper(self, *args, **kwargs):
               result = method(self, *args, **kwargs)
               POST                       # statements over `self` only
               return result
           return wrapper
    for a private module-level decorator of exactly that shape and a decorated function whose returns carry no value (so `result`
    is None and POST runs after every normal completion and after no exceptional one): POST is appended to the body and put in
    front of every `return`."""
    n = 0
    decs = {}
    for fn in [f for f in tree.body if isinstance(f, ast.FunctionDef) and f.name.startswith("_") and not f.decorator_list and len(f.args.args) == 1]:
        body = [b for b in fn.body if not (isinstance(b, ast.Expr) and isinstance(b.value, ast.Constant))]
        if len(body) != 2 or not isinstance(body[0], ast.FunctionDef) or not (isinstance(body[1], ast.Return) and isinstance(body[1].value, ast.Name) and body[1].value.id == body[0].name):
            continue
        w = body[0]
        if any(ast.unparse(d).split("(")[0] not in ("wraps", "functools.wraps") for d in w.decorator_list):
            continue
        a = w.args
        if len(a.args) != 1 or a.vararg is None or a.kwarg is None or a.kwonlyargs or a.defaults:
            continue
        wb = [b for b in w.body if not (isinstance(b, ast.Expr) and isinstance(b.value, ast.Constant))]
        if len(wb) < 3:
            continue
        first, last = wb[0], wb[-1]
        call = f"{fn.args.args[0].arg}({a.args[0].arg}, *{a.vararg.arg}, **{a.kwarg.arg})"
        if not (isinstance(first, ast.Assign) and len(first.targets) == 1 and isinstance(first.targets[0], ast.Name) and ast.unparse(first.value) == call):
            continue
        res = first.targets[0].id
        if not (isinstance(last, ast.Return) and isinstance(last.value, ast.Name) and last.value.id == res):
            continue
        post = wb[1:-1]
        banned = {res, a.vararg.arg, a.kwarg.arg, fn.args.args[0].arg}
        if any(isinstance(y, ast.Name) and y.id in banned for b in post for y in ast.walk(b)) or any(isinstance(y, (ast.Return, ast.Yield, ast.YieldFrom)) for b in post for y in ast.walk(b)):
            continue
        decs[fn.name] = (a.args[0].arg, post)
    if not decs:
        return 0
    for f in [x for x in ast.walk(tree) if isinstance(x, ast.FunctionDef)]:
        for d in list(f.decorator_list):
            if not (isinstance(d, ast.Name) and d.id in decs) or not f.args.args:
                continue
            if d is not f.decorator_list[-1]:
                continue   # only as the innermost decorator: POST then runs inside whatever the outer ones (the guards) set up
            if any(isinstance(y, ast.Return) and y.value is not None and not (isinstance(y.value, ast.Constant) and y.value.value is None) for y in _walk_no_nested_fn(f)) \
                    or any(isinstance(y, (ast.Yield, ast.YieldFrom)) for y in _walk_no_nested_fn(f)):
                continue
            wself, post = decs[d.id]
            me = f.args.args[0].arg

            class Ren(ast.NodeTransformer):
                def visit_Name(self, node):
                    return ast.copy_location(ast.Name(id=me, ctx=node.ctx), node) if node.id == wself else node

            def mk():
                return [Ren().visit(copy.deepcopy(b)) for b in post]

            class Ins(ast.NodeTransformer):
                def visit_FunctionDef(self, node):
                    return node if node is not f else self.generic_visit(node)

                def visit_Lambda(self, node):
                    return node

                def visit_Return(self, node):
                    return mk() + [node]
            Ins().visit(f)
            if not (f.body and isinstance(f.body[-1], (ast.Return, ast.Raise))):
                f.body = f.body + mk()
            f.decorator_list.remove(d)
            n += 1
    if n:
        ast.fix_missing_locations(tree)
    return n


def _walk_no_nested_fn(fn):
    todo = list(fn.body)
    while todo:
        x = todo.pop()
        yield x
        for c in ast.iter_child_nodes(x):
            if not isinstance(c, (ast.FunctionDef, ast.AsyncFunctionDef, ast.Lambda, ast.ClassDef)):
                todo.append(c)


def materialised_tuple_tables(tree):
    """T = np.array([(E1(x), E2(x)) for x in XS], dtype=D)   |   T = [(E1(x), E2(x)) for x in XS]
       .. len(T) ..                                            ==>   .. len(XS) ..
       for a, b in T: BODY                                     ==>   for x in XS: a = E1(x); b = E2(x); BODY
    when T is a local bound once and used in no other way, XS is a plain name / self attribute that nothing in between rebinds, and
    E1, E2 are pure: the table row k is (E1, E2) of the k-th element (the dtype only fixes the on-disk width of what is written)."""
    n = 0
    for fn in [f for f in ast.walk(tree) if isinstance(f, ast.FunctionDef)]:
        for st in list(fn.body):
            if not (isinstance(st, ast.Assign) and len(st.targets) == 1 and isinstance(st.targets[0], ast.Name)):
                continue
            t = st.targets[0].id
            v = st.value
            comp = v.args[0] if isinstance(v, ast.Call) and ast.unparse(v.func) in ("np.array", "np.asarray", "numpy.array") and v.args and all(k.arg == "dtype" for k in v.keywords) and len(v.args) == 1 else v
            if not (isinstance(comp, ast.ListComp) and isinstance(comp.elt, ast.Tuple) and len(comp.generators) == 1 and not comp.generators[0].ifs and isinstance(comp.generators[0].target, ast.Name)):
                continue
            g = comp.generators[0]
            xs = g.iter
            if not all(isinstance(y, (ast.Name, ast.Attribute, ast.Load)) for y in ast.walk(xs)):
                continue
            if not all(all(isinstance(y, (ast.Name, ast.Attribute, ast.Load, ast.BinOp, ast.Sub, ast.Add, ast.Constant)) for y in ast.walk(e)) for e in comp.elt.elts):
                continue
            stores = [x for x in ast.walk(fn) if isinstance(x, ast.Name) and x.id == t and isinstance(x.ctx, ast.Store)]
            loads = [x for x in ast.walk(fn) if isinstance(x, ast.Name) and x.id == t and isinstance(x.ctx, ast.Load)]
            lens = [c for c in ast.walk(fn) if isinstance(c, ast.Call) and ast.unparse(c.func) == "len" and len(c.args) == 1 and isinstance(c.args[0], ast.Name) and c.args[0].id == t]
            loops = [l for l in ast.walk(fn) if isinstance(l, ast.For) and isinstance(l.iter, ast.Name) and l.iter.id == t and isinstance(l.target, ast.Tuple)
                     and len(l.target.elts) == len(comp.elt.elts) and all(isinstance(e, ast.Name) for e in l.target.elts) and not l.orelse]
            xs_names = {y.id for y in ast.walk(xs) if isinstance(y, ast.Name)}
            rebinds = [x for x in ast.walk(fn) if isinstance(x, ast.Name) and x.id in xs_names and isinstance(x.ctx, ast.Store)]
            if len(stores) != 1 or len(loads) != len(lens) + len(loops) or not loops or (rebinds and xs_names != {"self"} and any(r.lineno > st.lineno for r in rebinds)):
                continue
            for c in lens:
                c.args = [copy.deepcopy(xs)]
            for l in loops:
                pre = [ast.Assign(targets=[ast.Name(id=e.id, ctx=ast.Store())], value=copy.deepcopy(val)) for e, val in zip(l.target.elts, comp.elt.elts)]
                l.target = ast.Name(id=g.target.id, ctx=ast.Store())
                l.iter = copy.deepcopy(xs)
                l.body = pre + l.body
            fn.body.remove(st)
            n += 1
    if n:
        ast.fix_missing_locations(tree)
    return n


def desugar_module(tree: ast.Module):
    expand_decorator_aliases(tree)
    inline_post_call_decorators(tree)
    materialised_tuple_tables(tree)
    dataclass_init(tree)
    seek_names(tree)
    operator_names(tree)
    numpy_names(tree)
    forward_lazy_iterables(tree)
    collect_list_attrs(tree)
    MatchToIf().visit(tree)
    ast.fix_missing_locations(tree)
    eafp_attribute(tree)
    singledispatch_to_if(tree)
    explicit_properties(tree)
    exitstack_conditional(tree)
    inline_contextmanagers(tree)
    inline_cm_classes(tree)
    inline_loop_generators(tree)
    generators_to_tuples(tree)
    unroll_yield_sequences(tree)
    inline_self_subscripts(tree)
    flat_iteration(tree)
    bytearray_assembly(tree)
    scratch_row_replay(tree)
    projected_snapshots(tree)
    dtype_names(tree)
    WalrusHoist().run(tree)
    sink_branch_callables(tree)
    manual_iteration(tree)
    WhileToFor().run(tree)
    induction_variables(tree)
    unroll_search_loops(tree)
    empty_guards(tree)
    TryFinallyClose().run(tree)
    Desugar().visit(tree)
    ast.fix_missing_locations(tree)
    return tree
