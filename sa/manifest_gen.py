"""Regenerates /verif/MANIFEST.json from the table below (python -m sa.manifest_gen)."""
from __future__ import annotations

import importlib
import json
from pathlib import Path

VERIF = Path(__file__).resolve().parent.parent

TB = ("Trusted base: CPython's ast parses the language the interpreter runs; names resolve lexically (the run fails "
      "with exit 2 if exec/eval/setattr/__dict__ appear in the package); numpy/CPython library contracts the code "
      "delegates to (frombuffer/tobytes inverse at the on-disk width, clump_unmasked, strict cp1252 encode, closed or "
      "read-only file objects refuse writes). ")

P = {
    "C01": dict(
        technique="static: abstract interpretation of _write/_build into symbolic layout terms + term unification + symbolic round-trip substitution",
        ref="3/C01",
        text="Decides, from the source only, that writer and reader of each of the 20 block-level codec units agree on field order, "
             "on-disk class and width, count linkage, attribute linkage, transform inversion and accepted formats - symbolically in "
             "every element/segment count, so for all block shapes at once. It decides this structural clause, not bit-exact value "
             "round trips (float payloads, integer range), which stay a runtime matter.",
        note=TB + "Listed object invariants no code enforces are assumptions in the evidence (e.g. one calibration-map entry per camera)."),
}

NOT_YET = "check not built yet in this revision (work in progress; see DESIGN.md section 3 for the planned static rule)"


def main():
    checks = []
    na = []
    for n in range(1, 21):
        pid = f"C{n:02d}"
        have = (VERIF / "sa" / "rules" / f"{pid.lower()}.py").exists() and pid in P
        if not have:
            na.append({"property_id": pid, "reason": NOT_YET})
            continue
        p = P[pid]
        checks.append({
            "property_id": pid,
            "quick_cmd": f"./check {pid} quick",
            "thorough_cmd": f"./check {pid} thorough",
            "evidence_file": f"/verif/evidence/{pid}.json",
            "replay_cmd_template": f"./check {pid} quick --replay {{path}}",
            "engine": "sa",
            "level_claimed": {"category": "other", "text": p["text"], "design_ref": "DESIGN.md section " + p["ref"]},
            "level_note": p["note"],
            "technique": p["technique"],
        })
    man = {
        "version": 1,
        "setup_cmd": "/venv/bin/python -B -m sa.run --self-check",
        "hooks": {
            "guard": "BASICTDF_VERIF",
            "enable": "none needed: the checks read /repo/src/basictdf from the working tree and never execute it",
            "baseline_off_cmd": "cd /repo && /venv/bin/python -m pytest -ra -q -p no:cacheprovider --timeout=900 --continue-on-collection-errors",
            "source_commits": [],
            "add_only": True,
        },
        "engines": [{
            "name": "sa",
            "path": "/verif/sa",
            "serves_properties": [c["property_id"] for c in checks],
            "kind_free_text": "stdlib-only static analyser (ast): program index, dtype resolver, codec abstract interpreter "
                              "(layout terms), size polynomials, statement CFG/dominance, finite guard tables, typestate model",
        }],
        "checks": checks,
        "notes": "Family: static analysis. Exit 0 = all obligations discharged (KNOWN-FINDING lines for listed defects), exit 1 + "
                 "VIOLATION line = an obligation fails on a construct not listed in known_findings.json, exit 2 + ANALYSIS-ERROR = "
                 "the analyser cannot decide (vanished anchor / unmodelled statement); see DESIGN.md section 1.",
        "not_applicable": na,
    }
    (VERIF / "MANIFEST.json").write_text(json.dumps(man, indent=1) + "\n")
    print(f"MANIFEST.json: {len(checks)} checks, {len(na)} not_applicable")


if __name__ == "__main__":
    main()
