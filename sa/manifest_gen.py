"""Regenerates /verif/MANIFEST.json from the table below (python -m sa.manifest_gen)."""
from __future__ import annotations

import importlib
import json
from pathlib import Path

VERIF = Path(__file__).resolve().parent.parent

TB = ("Trusted base: CPython's ast parses the language the interpreter runs; names resolve lexically (the run fails "
      "with exit 2 if exec/eval/setattr/__dict__ appear in the package); numpy/CPython library contracts the code "
      "delegates to (frombuffer/tobytes inverse at the on-disk width, clump_unmasked, strict cp1252 encode, closed or "
      "read-only file objects refuse writes). ")

def _p(tech, ref, text, note=""):
    return dict(technique=tech, ref=ref, text=text, note=TB + note)


P = {
    "C01": _p("static: abstract interpretation of _write/_build into symbolic layout terms + term unification + symbolic round-trip substitution", "3/C01",
              "Decides, from the source only, that writer and reader of each of the 20 block-level codec units agree on field order, on-disk class and width, "
              "count linkage, attribute linkage, transform inversion and accepted formats - symbolically in every element/segment count, so for all block "
              "shapes at once. It decides this structural clause, not bit-exact value round trips (float payloads, integer range), which stay a runtime matter.",
              "Object invariants no code enforces are listed as assumptions in the evidence (e.g. one calibration-map entry per camera)."),
    "C02": _p("static: size polynomials (nBytes vs bytes of the writer's layout term) + def-use on add_block", "3/C02",
              "Decides that each unit's nBytes and the byte count of its writer are the same polynomial in the shape parameters (symbolic identity for all "
              "shapes), that the reader consumes position by position what the writer emits, and that add_block takes entry.size, the write position and "
              "later slot offsets from them. Does not decide that runtime objects have the shapes the codecs assume where no constructor guard exists.",
              "numpy: bwrite writes base-itemsize x size bytes."),
    "C03": _p("static: per-mutator CFG rules (slot balance by path enumeration, seek-target classification, geometry recomputed from layout terms, reaching-definition provenance)", "3/C03",
              "Decides the per-operation preservation conditions that form the inductive step of the structural invariant: slot count balanced on every "
              "normal path, no seek/write below the table, one geometry (header/entry sizes recomputed from the writers), unused slots built with size 0, "
              "free-slot offsets derived from post-shift state. It does not decide the global non-overlap invariant over concrete histories."),
    "C04": _p("static: frame-condition rules on entry fields + codec symmetry of TdfEntry (incl. its string/date primitives) + path summaries of replace_block and the setters (comment carry, delegation) + exhaustive dispatch table check", "3/C04",
              "Decides which entry fields and which byte ranges each mutator statement may touch: only .offset of surviving entries, whole-entry rewrite "
              "through a symmetric TdfEntry codec, tail source/destination/shift use the same expressions, the comment is carried by an `is not None` "
              "test on an entry captured before removal, and every BlockType member dispatches to the class of that type. Byte equality under concrete "
              "histories is not decided."),
    "C05": _p("static: pattern rule on _segments derivation, layout-term agreement of table and data loops, definite-initialisation (NaN prefill) dataflow on decoder terms, term-by-term writer/reader comparison of the gap records on every path (early exits forked)", "3/C05",
              "Decides that runs are derived by the canonical clump_unmasked(masked_invalid(x)) composition in all four gap-coded classes, that segment "
              "table and data iterate the same runs with rows (start, stop-start) and data rows [start, stop), that every np.empty decode buffer gets a "
              "whole-buffer NaN store before its first partial store and before escaping, and that decoder stores land on the run's own frames. The numpy "
              "contract itself (all 2^n masks) is trusted, not decided.",
              "numpy masked_invalid + clump_unmasked return the maximal runs of non-NaN entries."),
    "C06": _p("static: conformance of writer and reader layout terms to an independent declarative reference layout (records, block type codes, format codes); dtype endianness resolver", "3/C06",
              "Decides that the layout term of every writer and every reader (22 records incl. header and table entry) equals an independent reference "
              "table position by position (kind, width, shape, count linkage, reserved bytes, stored bias, format alternatives, grid/cell order) and that "
              "every dtype/struct format is explicitly little-endian - so a change made consistently on both sides is reported. The thorough tier "
              "additionally validates the reference table itself against the BTS capture with a stdlib struct parser (oracle sanity; no repository code "
              "is executed). Golden digests of decoded values are not decided.",
              "The reference table /verif/sa/reference_layout.py."),
    "C07": _p("static: effect/reject classification + CFG reachability (no path effect ->+ refusal), taint (def-use) of request-derived data, callee summaries, path summaries (no refusing path has stored into the object), syntactic session-boundary rule (__enter__/__exit__ write nothing)", "3/C07",
              "Decides that on every path of every mutator everything that can refuse the request (escaping raises, evaluation on caller-supplied "
              "objects, serialisation of request-derived data, calls to refusing mutators) precedes the first change to the file or the in-memory table, and "
              "that late-refusing serialisers never get the live handle. This is the property for every rejection cause and file state, because the "
              "argument does not depend on them; asynchronous/OS failures are out of scope."),
    "C08": _p("static: typestate machine extracted from the AST + finite guard evaluation per reachable state; who-may-write (file effects, access state) and call-graph purity rules; path summaries of the wrappers and of replace_block", "3/C08",
              "Decides that file effects exist only in four owners and go through the handle, that the handle is opened only by open(self._mode) in "
              "__enter__ and closed/reset unconditionally in __exit__, and - over all reachable (inside, mode, handle, allow_write-since-exit) states of "
              "the extracted machine - that a mutator can reach a file effect only with a read-write handle inside a context entered after allow_write(); "
              "readers and decoders are effect-free over their call-graph closure. The exact exception type of a refusal is not decided.",
              "Closed and read-only file objects refuse writes."),
    "C09": _p("static: reaching-definition provenance of the free-slot offset, dominance-ordered tail move, loop coverage rules, initial layout constants", "3/C09",
              "Decides that the offset of the slot appended by remove_block is end-of-data of the post-shift table, that the tail move is seek/read/seek/"
              "write/truncate/flush in that order with the same three expressions as the table shift, that re-pointing and shift loops cover the whole "
              "tail unconditionally, and that Tdf.new points all slots at the end of the table. The arithmetic identity over concrete histories is not decided."),
    "C10": _p("static: must-pass-through dataflow (dirty entry -> entry write) over every method of Tdf, cursor-position analysis on the CFG (slot index = list index), flush-on-exit, session-boundary rule, per-path decode in get_block", "3/C10",
              "Decides that every table change in memory is paired on every normal path with the whole-entry write of that entry at slot 64+288*i with i "
              "its list index, that every path from a file effect to a normal return passes flush(), that the table is re-parsed from the header count on "
              "every context entry, that the size comes from the file system and get_block decodes from the handle at the entry's offset."),
    "C11": _p("static: swallowed-raise rule (exception hierarchy), name resolution of self attributes, sibling cross-check of accessor groups, path summaries (duplicate refusal, lookup contract, replace composition, removal predicate), guard admission over the typestate machine", "3/C11",
              "Decides that the duplicate-type refusal is live code that reaches the caller and is decided over the entry table, that every self.<name> read in "
              "Tdf resolves, that getter / predicate / setter / decoded class of each convenience group name one block type with `replace if present else add`, "
              "and the definitions of len, blocks and lookup. Agreement on concrete histories follows from C10's pairing and is not re-proved."),
    "C12": _p("static: def-use from reserved positions (taken from the reference layout) + interpretation check + NUL-cut idiom rule", "3/C12",
              "Decides that at every reserved position of the layout the reader skips or reads raw with no use of the value and no content-dependent "
              "operation (decode, enum conversion), that writers emit constant zeros there, and that BTSString.read returns a function of the bytes before "
              "the first NUL only. Together with C01/C02/C13 this is the whole property; it is fully structural."),
    "C13": _p("static: byte-length abstract domain (linear forms over size and encoded length with path constraints) over BTSString.write", "3/C13",
              "Decides for all strings and all widths at once (the algebra is symbolic in both) that BTSString.write returns exactly `size` bytes of the form "
              "text + NUL + zeros, preceded by a ValueError raised exactly when len+1 > size, with strict cp1252 and no truncation; that the reader's codec "
              "agrees and cuts at the first NUL; that every call site passes a literal width in {32, 256}. Per-character cp1252 reversibility is trusted."),
    "C14": _p("static: writer-derived content oracle vs conjunct analysis of __eq__ (coverage, zip length, NaN awareness, element __eq__)", "3/C14",
              "Decides which stored fields take part in each __eq__ (every attribute the writer's layout term reads, unless __eq__ is byte-level), that "
              "zip-based element comparisons are conjoined with a length comparison (directly or through the parallel channel list), that gap-capable sample "
              "arrays are compared NaN-aware, that element classes of compared containers define __eq__, and Tdf.__eq__'s three conjuncts. Tolerance "
              "semantics of allclose are not decided."),
    "C15": _p("static: path enumeration of paired list mutations on each method's CFG, path summaries of the adders (uniqueness / fresh channel / explicit channel), bulk-operation delegation table, list/ndarray kind inference, decoder linkage of the channel list", "3/C15",
              "Decides that index alignment of channel list and item list is preserved by every method on every path including exception paths and from every "
              "way of obtaining a block (constructor, decoder): paired initialisation, pairwise mutations with nothing raise-capable in between, uniqueness "
              "guard dominating explicit appends, provably fresh automatic channels, list-kind installs, roll-backs, label lookups, encoding order."),
    "C16": _p("static: dominance of type/length guards over the append, who-may-write rule for the track containers, structural rule for the atomic setter, decoder argument linkage", "3/C16",
              "Decides the property as stated for sequences of add-track and assign-track-list calls: both guards dominate the append and nothing mutates "
              "self before them, only the four owners touch the containers, list assignment saves before reset, goes through the guarded add, catches "
              "Exception, restores and re-raises, and decoders build tracks with the block's own frame count. Mutation through the list returned by the "
              "getter is outside the property's quantifier."),
    "C17": _p("static: path summaries of new/copy (existence test before every file-creating call on the same path value, no destructive call); header layout conformance; signature-before-decode ordering with a whole-value comparison; no shared class-level state in Tdf/TdfEntry; no construct on the open path that discards an exception", "3/C17",
              "Decides that every file-creating call in new/copy is dominated by `if p.exists(): raise FileExistsError` on the path built from the argument, "
              "that the empty container has the reference layout (version 1, 14 zero-size slots at 4096, nothing after), that __init__ refuses missing paths "
              "and __enter__ compares the signature before decoding any field, that the open path itself creates / deletes nothing, and the copy direction - "
              "also for a copy written by hand (copyfileobj, one whole or size-bounded read, a chunk loop whose exits are decided). Races with other processes are not decided."),
    "C18": _p("static: sibling cross-check of the four accessors of four classes (same container, three-way dispatch, literal label predicate, purity incl. the item class's __eq__)", "3/C18",
              "Decides the coherence relations structurally for every content (duplicates, empty labels, case variants - the predicate is a literal ==): all "
              "four accessors read one container, int -> list position, str -> first match else KeyError, other -> TypeError, membership uses the same "
              "predicate, and none of the 16 methods stores or mutates."),
    "C19": _p("static: finite guard evaluation (truth tables over an exhaustive abstract input partition, Python precedence/short-circuit from the AST)", "3/C19",
              "Decides the accept/refuse behaviour of every listed constructor guard over the whole abstract input space the guards can observe (12 "
              "representative ndarray shapes incl. the required one and ranks 0-3, None, str, scalar, list, tuple) and that the accepted shape equals the shape "
              "of the codec _write uses for that attribute; coupled arrays over all 8 shape combinations; viewport and event rules. dtype acceptability is "
              "not decided."),
    "C20": _p("static: escape analysis of mutable defaults (def-use + isinstance path conditions), class-level / module-level mutable state rules, decoder freshness", "3/C20",
              "Decides the absence of the sharing channels between separately created blocks: no mutable default escapes into instance state, no class-level "
              "or module-level container is mutated through instances/functions, container attributes are fresh per instance or the caller's own argument, "
              "decoders return instances constructed in that call; a mutable default is not mutated in place either, a class-level data descriptor keeps nothing "
              "on itself, and a method that inserts an item never writes into it. Sharing the caller creates on purpose is outside the property."),
}

NOT_YET = "check not built yet in this revision (work in progress; see DESIGN.md section 3 for the planned static rule)"


def main():
    checks = []
    na = []
    for n in range(1, 21):
        pid = f"C{n:02d}"
        have = (VERIF / "sa" / "rules" / f"{pid.lower()}.py").exists() and pid in P
        if not have:
            na.append({"property_id": pid, "reason": NOT_YET})
            continue
        p = P[pid]
        checks.append({
            "property_id": pid,
            "quick_cmd": f"./check {pid} quick",
            "thorough_cmd": f"./check {pid} thorough",
            "evidence_file": f"/verif/evidence/{pid}.json",
            "replay_cmd_template": f"./check {pid} quick --replay {{path}}",
            "engine": "sa",
            "level_claimed": {"category": "other", "text": p["text"], "design_ref": "DESIGN.md section " + p["ref"]},
            "level_note": p["note"],
            "technique": p["technique"],
        })
    man = {
        "version": 1,
        "setup_cmd": "/venv/bin/python -B -m sa.run --self-check",
        "hooks": {
            "guard": "BASICTDF_VERIF",
            "enable": "none needed: the checks read /repo/src/basictdf from the working tree and never execute it",
            "baseline_off_cmd": "cd /repo && /venv/bin/python -m pytest -ra -q -p no:cacheprovider --timeout=900 --continue-on-collection-errors",
            "source_commits": [],
            "add_only": True,
        },
        "engines": [{
            "name": "sa",
            "path": "/verif/sa",
            "serves_properties": [c["property_id"] for c in checks],
            "kind_free_text": "stdlib-only static analyser (ast): normalisation pre-pass (AST to AST, semantics-preserving rewrites), program "
                              "index, dtype resolver, codec abstract interpreter (layout terms), size polynomials, statement CFG/dominance, "
                              "path summaries, finite guard tables, typestate model",
        }],
        "checks": checks,
        "notes": "Family: static analysis. Exit 0 = all obligations discharged (KNOWN-FINDING lines for listed defects), exit 1 + "
                 "VIOLATION line = an obligation fails on a construct not listed in known_findings.json, exit 2 + ANALYSIS-ERROR = "
                 "the analyser cannot decide (vanished anchor / unmodelled statement); see DESIGN.md section 1.",
        "not_applicable": na,
    }
    (VERIF / "MANIFEST.json").write_text(json.dumps(man, indent=1) + "\n")
    print(f"MANIFEST.json: {len(checks)} checks, {len(na)} not_applicable")


if __name__ == "__main__":
    main()
