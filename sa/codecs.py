"""Shared driver: builds the codec units, the parallel-list equivalences and runs the unifier once per
unit; C01, C02, C06, C12, C14 read its results."""
from __future__ import annotations

import ast

from . import facts
from .index import ClassInfo, Program, is_self_attr, walk_no_nested
from .layout import Alt, Fail, Field, Rep, Sub, Unit, find_units, has_stream, header_unit, interpret_unit, walk_terms
from .report import AnalysisError, head, norm
from .unify import GuardFail, Unifier, is_self, normalise

# Object invariants that no code in the package establishes and that the codecs rely on; listed as
# assumptions in the evidence (DESIGN C02 "listed assumptions"), never silently unified.
ASSUMED_EQUIV = {
    "CalibrationDataBlock": [("len(self.cameras_calibration_map)", "len(self.cam_data)",
                              "one calibration-map entry per camera record (constructor takes both independently)")],
    "Data2D": [("len(self._camMap)", "self.nCams", "camera map has nCams entries (installed only by the decoder)")],
}


def parallel_pairs(prog: Program):
    """Classes with two list attributes appended in the same method: {class name: (map attr, items attr)}"""
    out = {}
    for m in prog.modules.values():
        for c in m.classes.values():
            summ = facts.init_summary(prog, c)
            for f in c.all_funcs():
                if f.kind != "method":
                    continue
                sn = f.self_name or "self"
                apps = []
                for n in walk_no_nested(f.node):
                    if isinstance(n, ast.Call) and isinstance(n.func, ast.Attribute) and n.func.attr == "append" and is_self_attr(n.func.value, self_name=sn):
                        if n.func.value.attr not in apps:
                            apps.append(n.func.value.attr)
                if len(apps) == 2:
                    # the one receiving a channel-like scalar is the map: decide by which is appended first
                    out[c.name] = (apps[0], apps[1], c, f)
    return out


class Codecs:
    def __init__(self, prog: Program):
        self.prog = prog
        self.units = {}
        for u in find_units(prog):
            self.units[u.name] = u
        for u in self.units.values():
            interpret_unit(prog, u)
        try:
            self.header = header_unit(prog)
            self.header.error = None
        except AnalysisError as e:
            tdf = prog.need_cls("Tdf", "basictdf")
            self.header = Unit(name="TdfHeader", cls=tdf, writer=prog.need_method(tdf, "new"), reader=prog.need_method(tdf, "__enter__"), wterms=[], rterms=[])
            self.header.error = str(e)
            self.header.error_exc = e
        self.pairs = parallel_pairs(prog)
        self.bad_units = {}
        self.results = {}  # unit name -> list of (ok, sub, wnode, rnode, text)
        self.unifiers = {}
        self.assumptions = []
        self.notes = []

    def equivs_for(self, u: Unit):
        eq = {}
        if u.cls is not None and u.cls.name in self.pairs:
            a, b, _, _ = self.pairs[u.cls.name]
            eq[f"len(self.{a})"] = f"len(self.{b})"
        for a, b, why in ASSUMED_EQUIV.get(u.name, []):
            eq[a] = b
            self.assumptions.append(f"{u.name}: {a} == {b} ({why})")
        return eq

    def unify(self, u: Unit):
        if u.name in self.unifiers:
            return self.unifiers[u.name]
        if getattr(u, "error", None):
            if getattr(u, "error_exc", None) is not None:
                raise u.error_exc     # a DefiniteViolation stays one
            raise AnalysisError(u.error)
        res = []

        def emit(ok, sub, wn, rn, text):
            res.append((ok, sub, wn, rn, text))

        un = Unifier(self.prog, u, self.units, emit, equivs=self.equivs_for(u),
                     assume=lambda s: self.assumptions.append(s) if s not in self.assumptions else None,
                     note=lambda s: self.notes.append(s) if s not in self.notes else None)
        un.run()
        un.result_obj = un.reconstruct()
        self.results[u.name] = res
        self.unifiers[u.name] = un
        return un

    def all_units(self, with_header=True):
        out = [u for u in self.units.values() if not getattr(u, "error", None)]
        if with_header and not getattr(self.header, "error", None):
            out.append(self.header)
        return out

    def flag_errors(self, rep):
        """Units whose codec methods contain a statement the interpreter does not model: the rules skip them and the
        run ends undecided (exit 2) unless another rule reports a definite violation."""
        for u in list(self.units.values()) + [self.header]:
            e = getattr(u, "error", None)
            ex = getattr(u, "error_exc", None)
            from .report import DefiniteViolation
            if e and isinstance(ex, DefiniteViolation):
                ex.report(rep)
            elif e and e not in rep.undecided:
                rep.undecided.append(e)
        for name in [n for n, u in self.units.items() if getattr(u, "error", None)]:
            self.bad_units[name] = self.units.pop(name)


def writer_attr_reads(prog: Program, u: Unit):
    """Attributes of self that the writer reads (properties expanded one level)."""
    attrs = {}

    def scan(expr, node):
        if expr is None:
            return
        for n in ast.walk(expr):
            if isinstance(n, ast.Attribute) and isinstance(n.value, ast.Name) and n.value.id == "self":
                attrs.setdefault(n.attr, node)
            if isinstance(n, ast.Call) and norm(n.func) == "hasattr" and len(n.args) == 2 and norm(n.args[0]) == "self" and isinstance(n.args[1], ast.Constant):
                attrs.setdefault(n.args[1].value, node)

    for t in walk_terms(u.wterms):
        for fld in ("value", "over", "lo", "hi", "cond", "count", "recv", "width", "nbytes"):
            scan(getattr(t, fld, None), t.node)
        for a in getattr(t, "args", []) or []:
            scan(a, t.node)
    out = {}
    for a, node in attrs.items():
        if u.cls is None:
            out[a] = node
            continue
        g = prog.lookup_method(u.cls, a, "getter")
        if g is not None:
            e = facts.property_body_expr(prog, u.cls, a)
            if e is not None:
                for n in ast.walk(e):
                    if isinstance(n, ast.Attribute) and isinstance(n.value, ast.Name) and n.value.id == "self":
                        if prog.lookup_method(u.cls, n.attr, "getter") is None:
                            out.setdefault(n.attr, node)
            continue
        if prog.lookup_method(u.cls, a) is not None:
            continue
        out[a] = node
    return out


def no_stale_derived_state(prog: Program, cd: "Codecs", rep, rule="no-stale-derived-state"):
    """Blocks and tracks are mutable (samples are edited in place, items added/removed). A value derived from them that is
    memoised (cached_property / lru_cache) goes stale: sizes, segment tables and encodings would describe an earlier state."""
    n = 0
    for u in list(cd.units.values()) + list(cd.bad_units.values()):
        c = u.cls
        if c is None:
            continue
        for f in c.all_funcs():
            n += 1
            if f.kind == "cached":
                rep.fail(rule, c.module.path.name, f"{c.name}.{f.name}", f.node, f"`{c.name}.{f.name}` is memoised ({', '.join(f.decorators)}) although the object it is derived from is mutable: after an in-place edit the segment table / size / encoding is stale")
    # .. and encoding / measuring an object does not change it: a writer that edits its own object "for the duration of the write"
    # leaves it edited when the write is refused half-way, and makes what is written depend on how often it was written
    for u in list(cd.units.values()) + list(cd.bad_units.values()):
        c = u.cls
        if c is None:
            continue
        for f in [x for x in c.all_funcs() if x.name in ("_write", "write", "bwrite", "nBytes", "_segments")]:
            sn = f.self_name or "self"
            for st in walk_no_nested(f.node):
                tgs = st.targets if isinstance(st, ast.Assign) else [st.target] if isinstance(st, (ast.AugAssign, ast.AnnAssign)) else st.targets if isinstance(st, ast.Delete) else []
                for t in tgs:
                    base = t
                    while isinstance(base, (ast.Attribute, ast.Subscript)):
                        base = base.value
                    if isinstance(t, (ast.Attribute, ast.Subscript)) and isinstance(base, ast.Name) and base.id == sn:
                        rep.fail(rule, c.module.path.name, f"{c.name}.{f.name}", st, f"`{norm(head(st))[:60]}`: {c.name}.{f.name} stores into the object it encodes / measures: the object is left changed when the "
                                 "operation is refused part-way, and the bytes depend on earlier writes", construct=f"{c.name}.{f.name} stores {norm(t)}")
    rep.ok(rule, f"{n} methods of codec classes examined: none memoises a value derived from mutable state, no writer / size getter stores into its object")
