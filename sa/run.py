"""Entry point: python -m sa.run <Cxx> [quick|thorough] [--only KEY]  |  --self-check  |  --all"""
from __future__ import annotations

import importlib
import os
import sys
import traceback

from .index import Program
from .report import AnalysisError, DefiniteViolation, Report

ALL = [f"C{n:02d}" for n in range(1, 21)]


def run_property(pid: str, tier: str, only=None, src=None, quiet=False) -> int:
    rep = Report(pid, tier, only)
    try:
        mod = importlib.import_module(f"sa.rules.{pid.lower()}")
        prog = Program(src) if src else Program()
        # the kind checks of the package (isinstance in add guards, constructors, key dispatch, __eq__) are NOMINAL: a class of the
        # package that overrides how isinstance / issubclass answer for itself AND its subclasses makes them structural
        import ast as _ast
        for mname_, mi_ in prog.modules.items():
            for k_ in [x for x in _ast.walk(mi_.tree) if isinstance(x, _ast.ClassDef)]:
                for f_ in [x for x in k_.body if isinstance(x, _ast.FunctionDef) and x.name in ("__subclasshook__", "__instancecheck__", "__subclasscheck__")]:
                    own = [x for x in _ast.walk(f_) if isinstance(x, _ast.Compare) and len(x.ops) == 1 and isinstance(x.ops[0], _ast.Is)
                           and {_ast.unparse(x.left), _ast.unparse(x.comparators[0])} == {f_.args.args[0].arg if f_.args.args else "cls", k_.name}]
                    subclassed = any(isinstance(c2, _ast.ClassDef) and any(_ast.unparse(b) == k_.name for b in c2.bases) for m2 in prog.modules.values() for c2 in _ast.walk(m2.tree))
                    if not own and subclassed:
                        raise DefiniteViolation("nominal-kind-checks", mi_.path.name, f"{k_.name}.{f_.name}", f_,
                                                f"{k_.name}.{f_.name} is inherited by the subclasses of {k_.name} (no `cls is {k_.name}` guard): isinstance(x, <any subclass>) is then answered by the hook, "
                                                "so the kind checks that keep wrong objects out of blocks accept any object the hook accepts",
                                                construct=f"{k_.name}.{f_.name} without own-class guard", props=("C16", "C18", "C19", "C14", "C15"))
        if prog.dynamic_hits:
            raise AnalysisError(
                "dynamic features defeat lexical name resolution (trusted base 1.5): " + "; ".join(prog.dynamic_hits)
            )
        rep.extra.update(prog.stats())
        # E9: what the normalisation pre-pass did to the sources the rules look at, and what it assumes
        norm_info = {m: {k: v for k, v in info.items() if v} for m, info in sorted(prog.normalised.items())}
        rep.extra["normalisation"] = {m: v for m, v in norm_info.items() if v}
        rep.assume("normaliser: distinct local names do not alias unless one is visibly built from the other (copy propagation is alias-insensitive across names)")
        rep.assume("normaliser: elements of the entry table and of the item lists are never None (loop lookups are read as next(.., None) + `is None`)")
        rep.assume("normaliser: run descriptors are slice(a, b) objects without a step (slice(x.start, x.stop) is x)")
        mod.run(prog, rep)
        if tier == "thorough" and hasattr(mod, "thorough"):
            mod.thorough(prog, rep)
        if tier == "thorough" and src is None and not os.environ.get("SA_REPO"):
            known = {k["key"] for k in __import__("sa.report", fromlist=["load_known"]).load_known()}
            if not any(f.key not in known for f in rep.findings) and not rep.undecided:
                # the self-test of the rules is meaningful only on a tree the rules accept
                from . import selftest
                selftest.run_for(pid, rep)
        return rep.finish()
    except DefiniteViolation as e:
        e.report(rep)
        return rep.finish()
    except AnalysisError as e:
        # a rule (or a floor) could not decide; definite violations found before that are still reported (exit 1)
        rep.undecided.append(str(e))
        return rep.finish()
    except Exception as e:  # a traceback must never masquerade as a violation
        traceback.print_exc()
        print(f"ANALYSIS-ERROR property={pid} internal error: {type(e).__name__}: {e}")
        try:
            rep.write_evidence(0, 0, error=f"internal: {type(e).__name__}: {e}")
        except Exception:
            pass
        return 2


def main(argv):
    if not argv:
        print(__doc__)
        return 2
    if argv[0] == "--self-check":
        from . import selfcheck

        return selfcheck.main()
    if argv[0] == "--all":
        tier = argv[1] if len(argv) > 1 else "quick"
        worst = 0
        for pid in ALL:
            try:
                importlib.import_module(f"sa.rules.{pid.lower()}")
            except ModuleNotFoundError:
                continue
            worst = max(worst, run_property(pid, tier))
        return worst
    pid = argv[0].upper()
    tier = os.environ.get("VERIF_TIER") or "quick"
    only = None
    rest = argv[1:]
    i = 0
    while i < len(rest):
        if rest[i] in ("quick", "thorough"):
            tier = rest[i]
        elif rest[i] == "--only" and i + 1 < len(rest):
            only = rest[i + 1]
            i += 1
        elif rest[i] == "--replay" and i + 1 < len(rest):
            import json

            only = json.load(open(rest[i + 1]))["key"]
            i += 1
        i += 1
    if tier not in ("quick", "thorough"):
        tier = "quick"
    return run_property(pid, tier, only)


if __name__ == "__main__":
    sys.exit(main(sys.argv[1:]))
