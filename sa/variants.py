"""Variants for the self-test (E8): textual single-site edits keyed by an anchor text that must occur exactly once.
kind 'break'   : realistic change that breaks the property and still compiles -> must be reported
kind 'preserve': behaviour-preserving refactoring                              -> must stay silent
"""
VARIANTS = []


def B(id_, what, *edits, expect=None):
    VARIANTS.append(dict(id=id_, prop=id_.split("-")[0], kind="break", what=what, edits=_e(edits), expect=expect))


def P(id_, what, *edits):
    VARIANTS.append(dict(id=id_, prop=id_.split("-")[0], kind="preserve", what=what, edits=_e(edits)))


def _e(edits):
    return [tuple(edits[i:i + 3]) for i in range(0, len(edits), 3)]


D3, EMG, F3, FPD, FPC, D2, CAL, OPT, EVT, TYP, TDF, BLK, UTL = (
    "tdfData3D.py", "tdfEMG.py", "tdfForce3D.py", "tdfForcePlatformsData.py", "tdfForcePlatformsCalibration.py", "tdfData2D.py",
    "tdfCalibrationData.py", "tdfOpticalSystem.py", "tdfEvents.py", "tdfTypes.py", "basictdf.py", "tdfBlock.py", "tdfUtils.py")

# ------------------------------------------------------------------------------------------------ C01
B("C01-b01", "EMG bias +49 -> +48 on the read side", EMG, "+ 49  # Why", "+ 48  # Why", expect="nSamples")
B("C01-b02", "Data3D reader reads nTracks before startTime", D3,
  "        startTime = f32.bread(stream)\n        nTracks = u32.bread(stream)", "        nTracks = u32.bread(stream)\n        startTime = f32.bread(stream)")
B("C01-b03", "Data3D reader skips 2 words after nLinks", D3, "            i32.skip(stream, 1)", "            i32.skip(stream, 2)", expect="padding width")
B("C01-b04", "ForceTorque3D decoder passes frequency where startTime goes", F3,
  "            startTime,\n            format,\n        )\n        if format", "            frequency,\n            format,\n        )\n        if format", expect="startTime")
B("C01-b05", "MarkerTrack label width 256 -> 32 on the write side", D3, "BTSString.bwrite(file, 256, self.label)", "BTSString.bwrite(file, 32, self.label)", expect="width")
B("C01-b06", "EMG decoder builds one signal fewer", EMG, "for n in range(nSignals):", "for n in range(nSignals - 1):", expect="count")
B("C01-b07", "MarkerTrack writes stop instead of stop - start", D3, "i32.bwrite(file, np.array(segment.stop - segment.start))", "i32.bwrite(file, np.array(segment.stop))")
B("C01-b08", "Data3D flag decoded as constant", D3, "flag = Flags(u32.bread(stream))", "u32.bread(stream)\n        flag = Flags.rawData", expect="flag")
B("C01-b09", "ForcePlatformData decoder stores runs one frame late", FPD, "data[start_frame : start_frame + n_frames] = dat", "data[start_frame + 1 : start_frame + n_frames + 1] = dat")
B("C01-b10", "Event count read as 16 bit", EVT, "nItems = i32.bread(stream)", "nItems = i16.bread(stream)",
  EVT, "from basictdf.tdfTypes import BTSString, f32, i32, u32", "from basictdf.tdfTypes import BTSString, f32, i16, i32, u32", expect="on-disk type")
B("C01-b11", "EMG decoder drops the channel (automatic channels)", EMG, "d.addSignal(emgSignal, channel=emgMap[n])", "d.addSignal(emgSignal)", expect="_emgMap")
B("C01-b12", "Data2D grid reshaped frame-major", D2, "[nCameras, nFrames]\n        )", "[nFrames, nCameras]\n        ).T")
B("C01-b13", "Data3D writer accepts byFrame, reader refuses it", D3,
  "        if self.format not in [\n            Data3dBlockFormat.byTrack,\n            Data3dBlockFormat.byTrackWithoutLinks,\n        ]:",
  "        if self.format not in [\n            Data3dBlockFormat.byTrack,\n            Data3dBlockFormat.byTrackWithoutLinks,\n            Data3dBlockFormat.byFrame,\n        ]:", expect="format")
B("C01-b14", "OpticalChannelData reader swaps camera_type and camera_name", OPT,
  "            camera_type=camera_type,\n            camera_name=camera_name,", "            camera_type=camera_name,\n            camera_name=camera_type,", expect="camera_")
B("C01-b15", "Seelab reader passes focus as optical_center", CAL, "            optical_center=optical_center,\n            radial_distortion=radial_distorion,", "            optical_center=focus,\n            radial_distortion=radial_distorion,", expect="optical_center")
B("C01-b16", "ForceTorqueTrack writer stores torque before force", F3,
  "                ForceType.bwrite(file, self.force[frame])\n                # torque\n                TorqueType.bwrite(file, self.torque[frame])",
  "                TorqueType.bwrite(file, self.torque[frame])\n                # torque\n                ForceType.bwrite(file, self.force[frame])")
B("C01-b17", "EMG writer emits the wall clock in startTime", EMG, "f32.bwrite(file, self.startTime)", "f32.bwrite(file, time.time())", EMG, "import numpy as np\n\nfrom basictdf.tdfBlock", "import time\nimport numpy as np\n\nfrom basictdf.tdfBlock")
P("C01-p01", "rename a reader local", D3, "        frequency = i32.bread(stream)\n        startTime = f32.bread(stream)\n        nTracks = u32.bread(stream)",
  "        freq = i32.bread(stream)\n        startTime = f32.bread(stream)\n        nTracks = u32.bread(stream)", D3, "        d = Data3D(\n            frequency,", "        d = Data3D(\n            freq,")
P("C01-p02", "bpad replaced by literal zeros", D3, "            i32.bpad(file)\n            # links", "            file.write(b\"\\x00\" * 4)\n            # links")
P("C01-p03", "keyword arguments in the constructor call", EMG, "d = EMG(frequency, nSamples, startTime, format)", "d = EMG(frequency=frequency, nSamples=nSamples, startTime=startTime, format=format)")
P("C01-p04", "reader skips with a relative seek", EMG, "        i32.skip(stream)  # padding\n        segmentData", "        stream.seek(4, 1)  # padding\n        segmentData")
P("C01-p05", "writer binds the count to a local first", F3, "        u32.bwrite(file, len(self._tracks))", "        nTracks = len(self._tracks)\n        u32.bwrite(file, nTracks)")

# ------------------------------------------------------------------------------------------------ C02
B("C02-b01", "EMG.nBytes counts 4 bytes per channel", EMG, "base = 4 + 4 + 4 + 2 * len(self._signals) + 4", "base = 4 + 4 + 4 + 4 * len(self._signals) + 4", expect="size-identity")
B("C02-b02", "Data3D.nBytes forgets the link-table header", D3, "            links_size = (\n                4\n                + 4\n                + (", "            links_size = (\n                4\n                + (", expect="size-identity")
B("C02-b03", "ForcePlatformData.nBytes counts 4 bytes per table row", FPD, "base = 4 + 4 + (4 + 4) * nSegments", "base = 4 + 4 + 4 * nSegments", expect="size-identity")
B("C02-b04", "Event.nBytes omits the type word", EVT, "return 256 + 4 + 4 + len(self.values) * 4", "return 256 + 4 + len(self.values) * 4", expect="size-identity")
B("C02-b05", "add_block records the wrong size", TDF, "            size=newBlock.nBytes,", "            size=len(newBlock),", expect="container-size")
B("C02-b06", "later slots get the new offset without the size", TDF, "            entry.offset = new_entry.offset + new_entry.size", "            entry.offset = new_entry.offset", expect="later slot")
B("C02-b07", "ForceTorque3D writer adds a field without touching nBytes", F3, "        # padding\n        i32.bpad(file)\n\n        for track in self._tracks:", "        # padding\n        i32.bpad(file, 2)\n\n        for track in self._tracks:")
B("C02-b08", "Data2DPCK.nBytes ignores the count grid", D2, "return 2 * nCameras * nFrames + sum(", "return nCameras * nFrames + sum(", expect="size-identity")
B("C02-b09", "ForcePlatformInfo.nBytes constant off", FPC, "nBytes = 256 + (4 * 2) + (4 * 3 * 4) + 256", "nBytes = 256 + (4 * 2) + (4 * 3 * 3) + 256", expect="size-identity")
B("C02-b10", "Data3D.nBytes drops the format guard of the link table", D3, "        if self.format in [\n            Data3dBlockFormat.byFrame,\n            Data3dBlockFormat.byTrack,\n        ]:\n            links_size", "        if True:\n            links_size", expect="size-identity")
B("C02-b11", "block written at the slot's old offset expression", TDF, "        self.handler.seek(new_entry.offset, 0)\n        self.handler.write(block_buffer.getvalue())", "        self.handler.seek(new_entry.offset + new_entry.size, 0)\n        self.handler.write(block_buffer.getvalue())", expect="container-size")
B("C02-b12", "MarkerTrack.nBytes uses 8 bytes per coordinate triple", D3, "base += 4 + 4 + (segment.stop - segment.start) * TrackType.btype.itemsize", "base += 4 + 4 + (segment.stop - segment.start) * 8", expect="size-identity")
P("C02-p01", "nBytes written with sum()", EMG, "        base = 4 + 4 + 4 + 2 * len(self._signals) + 4\n        for signal in self._signals:\n            base += signal.nBytes\n        return base",
  "        return 16 + 2 * len(self._signals) + sum(signal.nBytes for signal in self._signals)")
P("C02-p02", "constants folded differently", EVT, "return 256 + 4 + 4 + len(self.values) * 4", "return 264 + 4 * len(self.values)")
P("C02-p03", "itemsize spelled through the codec", FPD, "base = 4 + 4 + (4 + 4) * nSegments", "base = 2 * i32.btype.itemsize + SegmentData.btype.itemsize * nSegments")

# ------------------------------------------------------------------------------------------------ C03
B("C03-b01", "remove_block forgets to append the new unused slot", TDF, "        self.entries.append(newEntry)\n        newEntry._write(self.handler)", "        newEntry._write(self.handler)", expect="slot")
B("C03-b02", "add_block seeks with a 280-byte entry stride", TDF, "self.handler.seek(64 + 288 * n, 0)", "self.handler.seek(64 + 280 * n, 0)", expect="geometry")
B("C03-b03", "the appended unused slot keeps the removed size", TDF, "            offset=newOffset,\n            size=0,", "            offset=newOffset,\n            size=oldEntry.size,", expect="unused-size-zero")
B("C03-b04", "free-slot offset computed before the shift", TDF,
  "        self.entries.remove(oldEntry)\n        self.handler.seek(64 + 288 * oldEntryPos, 0)", "        self.entries.remove(oldEntry)\n        newOffset = self.entries[-1].offset + self.entries[-1].size if self.entries else 4096\n        self.handler.seek(64 + 288 * oldEntryPos, 0)",
  TDF, "        if self.entries:\n            newOffset = self.entries[-1].offset + self.entries[-1].size\n        else:\n            newOffset = 64 + 288 * self.nEntries\n", "", expect="offset-provenance")
B("C03-b05", "free-slot offset drops the size of the last entry", TDF, "            newOffset = self.entries[-1].offset + self.entries[-1].size", "            newOffset = self.entries[-1].offset", expect="offset-provenance")
B("C03-b06", "remove_block rewrites the header slot count", TDF, "        self.entries.remove(oldEntry)\n", "        self.entries.remove(oldEntry)\n        self.nEntries = len(self.entries)\n", expect="header-frame")
B("C03-b07", "seek into the header to 'update' the count", TDF, "        # delete entry\n", "        self.handler.seek(20, 0)\n        # delete entry\n", expect="header-frame")
B("C03-b08", "Tdf.new writes a non-zero size in empty slots", TDF, "                # size\n                i32.bwrite(f, 0)", "                # size\n                i32.bwrite(f, 288)", expect="unused-size-zero")
B("C03-b09", "re-pointing loop starts two slots later", TDF, "            self.entries[unusedBlockPos + 1 :], start=unusedBlockPos + 1\n        ):\n            entry.offset", "            self.entries[unusedBlockPos + 2 :], start=unusedBlockPos + 2\n        ):\n            entry.offset", expect="repoint")
B("C03-b10", "table end used as free offset whenever the first block is removed", TDF, "        if self.entries:\n            newOffset", "        if oldEntryPos != 0:\n            newOffset", expect="offset-provenance")
P("C03-p01", "geometry through named constants", TDF, "self.handler.seek(64 + 288 * n, 0)", "self.handler.seek(288 * n + 64, 0)")
P("C03-p02", "last entry bound to a local", TDF, "            newOffset = self.entries[-1].offset + self.entries[-1].size", "            last = self.entries[-1]\n            newOffset = last.offset + last.size")

# ------------------------------------------------------------------------------------------------ C04
B("C04-b01", "shift loop also rewrites the size", TDF, "            entry.offset -= oldEntry.size\n", "            entry.offset -= oldEntry.size\n            entry.size = entry.size\n            entry.format = 0\n", expect="entry-frame")
B("C04-b02", "tail read bounded to one block", TDF, "temp = self.handler.read()", "temp = self.handler.read(oldEntry.size)", expect="tail")
B("C04-b03", "tail move source and destination swapped", TDF,
  "        self.handler.seek(oldEntry.offset + oldEntry.size, 0)\n        temp = self.handler.read()\n        self.handler.seek(oldEntry.offset, 0)",
  "        self.handler.seek(oldEntry.offset, 0)\n        temp = self.handler.read()\n        self.handler.seek(oldEntry.offset + oldEntry.size, 0)", expect="shift-consistency")
B("C04-b04", "comment carried by truthiness", TDF, "comment = comment if comment is not None else old_entry.comment", "comment = comment or old_entry.comment", expect="comment-carry")
B("C04-b05", "replace_block drops the comment", TDF, "self.add_block(newBlock, comment)", "self.add_block(newBlock)", expect="comment-carry")
B("C04-b06", "TdfEntry._write drops the comment", TDF, "        BTSString.bwrite(file, 256, self.comment)", "        BTSString.bwrite(file, 256, \"\")", expect="entry-codec-symmetry")
B("C04-b07", "two block types dispatched to one class", TDF, "    elif block_type == BlockType.forceAndTorqueData:\n        return ForceTorque3D", "    elif block_type == BlockType.forceAndTorqueData:\n        return Data3D", expect="dispatch-exhaustive")
B("C04-b08", "data2D dispatched to the stub in tdfBlock", TDF, "from basictdf.tdfData2D import Data2D\n", "from basictdf.tdfBlock import Data2D\n", expect="dispatch")
B("C04-b09", "table shift by the removed offset instead of its size", TDF, "entry.offset -= oldEntry.size", "entry.offset -= oldEntry.offset", expect="shift-consistency")
B("C04-b10", "get_block decodes with the format of the first entry", TDF, "return block_class._build(self.handler, entry.format)", "return block_class._build(self.handler, self.entries[0].format)", expect="read-through-handle")
B("C04-b11", "TdfEntry reader swaps the two dates", TDF, "            creation_date,\n            last_modification_date,\n            last_access_date,\n            comment,\n        )", "            last_modification_date,\n            creation_date,\n            last_access_date,\n            comment,\n        )", expect="entry-codec-symmetry")
B("C04-b12", "old entry looked up after the removal", TDF,
  "        old_entry = next((i for i in self.entries if i.type == newBlock.type), None)\n\n        if old_entry is None:\n            raise ValueError(f\"No block of type {newBlock.type} found\")\n\n        comment = comment if comment is not None else old_entry.comment\n\n        self.remove_block(newBlock.type)",
  "        self.remove_block(newBlock.type)\n        old_entry = next((i for i in self.entries if i.type == newBlock.type), None)\n\n        if old_entry is None:\n            raise ValueError(f\"No block of type {newBlock.type} found\")\n\n        comment = comment if comment is not None else old_entry.comment\n", expect="comment-carry")
P("C04-p01", "dispatch through a dict", TDF, "    if block_type == BlockType.unusedSlot:\n        return UnusedBlock\n    elif block_type == BlockType.notDefined:\n        return NotDefinedBlock\n",
  "    if block_type == BlockType.unusedSlot:\n        return UnusedBlock\n    if block_type == BlockType.notDefined:\n        return NotDefinedBlock\n    elif False:\n        pass\n")
P("C04-p02", "comment default as an if statement", TDF, "        comment = comment if comment is not None else old_entry.comment\n", "        if comment is None:\n            comment = old_entry.comment\n")

# ------------------------------------------------------------------------------------------------ C05
B("C05-b01", "EMGTrack decoder no longer pre-fills with NaN", EMG, "        trackData[:] = np.nan\n", "", expect="nan-prefill")
B("C05-b02", "MarkerTrack decoder pre-fills with zero", D3, "trackData[:] = np.NaN", "trackData[:] = 0", expect="nan-prefill")
B("C05-b03", "ForceTorqueTrack pre-fills torque after the copy loop", F3,
  "        torque_data[:] = np.nan\n\n        for startFrame, nFrames in segmentData:\n            for frame in range(startFrame, startFrame + nFrames):\n                application_point_data[frame] = ApplicationPointType.bread(stream)\n                force_data[frame] = ForceType.bread(stream)\n                torque_data[frame] = TorqueType.bread(stream)\n",
  "\n        for startFrame, nFrames in segmentData:\n            for frame in range(startFrame, startFrame + nFrames):\n                application_point_data[frame] = ApplicationPointType.bread(stream)\n                force_data[frame] = ForceType.bread(stream)\n                torque_data[frame] = TorqueType.bread(stream)\n        torque_data[:] = np.nan\n", expect="nan-prefill")
B("C05-b04", "runs derived from zeros instead of NaN", EMG, "maskedTrackData = np.ma.masked_invalid(self.data)", "maskedTrackData = np.ma.masked_equal(self.data, 0)", expect="segments-derivation")
B("C05-b05", "data loop skips the first run", D3, "        for segment in segments:\n            # trackData", "        for segment in segments[1:]:\n            # trackData", expect="segments-single-source")
B("C05-b06", "force sliced with different bounds than the application point", FPD, "force = self.force[start:stop]", "force = self.force[start : stop - 1]", expect="segments-single-source")
B("C05-b07", "ForcePlatformData decoder loses its NaN pre-fill again", FPD, "        data[:] = np.nan\n", "", expect="nan-prefill")
B("C05-b08", "MarkerTrack buffer allocated with the segment length", D3,
  "        trackData = np.empty(nFrames, dtype=TrackType.btype)\n        trackData[:] = np.NaN\n\n        label = BTSString.bread(stream, 256)\n        nSegments = i32.bread(stream)\n        i32.skip(stream)\n        segmentData = SegmentData.bread(stream, nSegments)\n        for startFrame, nFrames in segmentData:\n",
  "        label = BTSString.bread(stream, 256)\n        nSegments = i32.bread(stream)\n        i32.skip(stream)\n        segmentData = SegmentData.bread(stream, nSegments)\n        for startFrame, nFrames in segmentData:\n            pass\n        trackData = np.empty(nFrames, dtype=TrackType.btype)\n        trackData[:] = np.NaN\n        for startFrame, nFrames in segmentData:\n", expect="nan-prefill")
B("C05-b09", "segment table written from a different run list than the data", F3, "        for segment in segments:\n            # startFrame", "        for segment in segments[:-1]:\n            # startFrame")
B("C05-b10", "runs derived from the force array while the data rows come from all three", F3, "maskedPressureData = np.ma.masked_invalid(self.application_point)", "maskedPressureData = np.ma.masked_invalid(self.application_point[1:])", expect="segments-derivation")
P("C05-p01", "buffer allocated by np.full", EMG, "        trackData = np.empty(nSamples, dtype=\"<f4\")\n        trackData[:] = np.nan\n", "        trackData = np.full(nSamples, np.nan, dtype=\"<f4\")\n")
P("C05-p02", "segments read once into a differently named local", D3, "        segments = self._segments\n\n        # nSegments\n        i32.bwrite(file, len(segments))\n\n        # padding\n        i32.bpad(file, 1)\n\n        for segment in segments:\n            # startFrame\n            i32.bwrite(file, np.array(segment.start))",
  "        runs = self._segments\n        segments = runs\n\n        # nSegments\n        i32.bwrite(file, len(runs))\n\n        # padding\n        i32.bpad(file, 1)\n\n        for segment in runs:\n            # startFrame\n            i32.bwrite(file, np.array(segment.start))")

# ------------------------------------------------------------------------------------------------ C06
B("C06-b01", "lens name 64 bytes wide on both sides", OPT, "lens_name = BTSString.bread(stream, 32)", "lens_name = BTSString.bread(stream, 64)", OPT, "BTSString.bwrite(file, 32, self.lens_name)", "BTSString.bwrite(file, 64, self.lens_name)", expect="lens_name")
B("C06-b02", "EMG bias removed on both sides", EMG, " + 49  # Why", " + 0  # Why", EMG, "self.nSamples - 49", "self.nSamples - 0", expect="bias")
B("C06-b03", "viewport origin and size exchanged on both sides", TYP, "        origin = VEC2I.bread(stream)\n        size = VEC2I.bread(stream)", "        size = VEC2I.bread(stream)\n        origin = VEC2I.bread(stream)",
  TYP, "        VEC2I.bwrite(stream, self.origin)\n        VEC2I.bwrite(stream, self.size)", "        VEC2I.bwrite(stream, self.size)\n        VEC2I.bwrite(stream, self.origin)", expect="origin")
B("C06-b04", "big-endian doubles", TYP, "f64 = TdfType(np.dtype(\"<f8\"))", "f64 = TdfType(np.dtype(\">f8\"))", expect="little-endian")
B("C06-b05", "new files get 16 slots", TDF, "nEntries = 14", "nEntries = 16", expect="nEntries")
B("C06-b06", "header reserved area shortened on both sides", TDF, "i32.bpad(f, 5)", "i32.bpad(f, 4)", TDF, "i32.skip(self.handler, 5)", "i32.skip(self.handler, 4)", expect="reserved")
B("C06-b07", "events count 16 bit on both sides", EVT, "nItems = i32.bread(stream)", "nItems = u16.bread(stream)", EVT, "u32.bwrite(stream, len(self.values))  # nItems", "u16.bwrite(stream, len(self.values))  # nItems",
  EVT, "from basictdf.tdfTypes import BTSString, f32, i32, u32", "from basictdf.tdfTypes import BTSString, f32, i32, u16, u32", expect="nItems")
B("C06-b08", "reserved word of the optical setup dropped on both sides", OPT, "        i32.skip(stream)  # reserved0\n\n        channels", "\n        channels", OPT, "        # Reserved 0\n        i32.bpad(file, 1)\n\n        # channels", "        # channels")
B("C06-b09", "new files get version 2", TDF, "            # version\n            i32.bwrite(f, 1)", "            # version\n            i32.bwrite(f, 2)", expect="version")
B("C06-b10", "entry comment 128 bytes on both sides", TDF, "BTSString.bwrite(file, 256, self.comment)", "BTSString.bwrite(file, 128, self.comment)", TDF, "comment = BTSString.bread(file, 256)", "comment = BTSString.bread(file, 128)", expect="comment")
B("C06-b11", "date stored big-endian on both sides", TYP, "struct.unpack(\"<i\", data)", "struct.unpack(\">i\", data)", TYP, "struct.pack(\"<i\", int(data.timestamp()))", "struct.pack(\">i\", int(data.timestamp()))", expect="little-endian")
B("C06-b12", "platform vertices stored as 3x4 on both sides", FPC, "ForcePlatformVertices = TdfType(np.dtype(\"(4,3)<f4\"))", "ForcePlatformVertices = TdfType(np.dtype(\"(3,4)<f4\"))", expect="position")
B("C06-b13", "2D cells stored camera-major on both sides", D2,
  "        for frame in range(nFrames):\n            for camera in range(nCameras):\n                nPoints = nPointsCaptured[camera, frame]", "        for camera in range(nCameras):\n            for frame in range(nFrames):\n                nPoints = nPointsCaptured[camera, frame]",
  D2, "        u16.bwrite(stream, nPointsCaptured.flatten())\n        for frame in range(nFrames):\n            for camera in range(nCameras):", "        u16.bwrite(stream, nPointsCaptured.flatten())\n        for camera in range(nCameras):\n            for frame in range(nFrames):", expect="cell")
B("C06-b14", "signature constant altered", TDF, "SIGNATURE = b\"\\x82K`A", "SIGNATURE = b\"\\x83K`A", expect="SIGNATURE")
P("C06-p01", "attribute renamed consistently", OPT, "BTSString.bwrite(file, 32, self.lens_name)", "BTSString.bwrite(file, 32, self.lens)", OPT, "        self.lens_name = lens_name\n", "        self.lens_name = lens_name\n        self.lens = lens_name\n")
P("C06-p02", "two independent header reads reordered by statement grouping", EMG, "        # frequency\n        i32.bwrite(file, self.frequency)\n", "        # frequency\n        frequency = self.frequency\n        i32.bwrite(file, frequency)\n")

# ------------------------------------------------------------------------------------------------ C07
B("C07-b01", "full-table check moved below the entry write", TDF,
  "        self.entries[unusedBlockPos] = new_entry\n", "        self.entries[unusedBlockPos] = new_entry\n        if len(comment) > 255:\n            raise ValueError(\"comment too long\")\n", expect="validate-before-effect")
B("C07-b02", "block serialised straight to the handle again", TDF, "        self.handler.write(block_buffer.getvalue())", "        newBlock._write(self.handler)", expect="serialis")
B("C07-b03", "table updated before the block is serialised", TDF,
  "        entry_buffer = BytesIO()\n        new_entry._write(entry_buffer)\n        block_buffer = BytesIO()\n        newBlock._write(block_buffer)\n", "        entry_buffer = BytesIO()\n        new_entry._write(entry_buffer)\n        block_buffer = BytesIO()\n",
  TDF, "        # write new block\n        self.handler.seek(new_entry.offset, 0)\n", "        # write new block\n        newBlock._write(block_buffer)\n        self.handler.seek(new_entry.offset, 0)\n", expect="validate-before-effect")
B("C07-b04", "remove_block deletes the entry before knowing the type exists", TDF,
  "        # find block\n        try:\n            oldEntryPos, oldEntry = next(", "        # find block\n        self.handler.truncate()\n        try:\n            oldEntryPos, oldEntry = next(", expect="validate-before-effect")
B("C07-b05", "a setter that removes before it validates", TDF, "        self.replace_block(data) if self.has_emg else self.add_block(data)", "        if self.has_emg:\n            self.remove_block(data.type)\n        self.add_block(data)", expect="validate-before-effect")
B("C07-b06", "trailing-slot check after the table store", TDF,
  "        if any(\n            entry.type != BlockType.unusedSlot\n            for entry in self.entries[unusedBlockPos + 1 :]\n        ):\n            raise IOError(\"All unused slots must be at the end of the file\")\n\n        # replace the entry\n        self.entries[unusedBlockPos] = new_entry\n",
  "        # replace the entry\n        self.entries[unusedBlockPos] = new_entry\n        if any(\n            entry.type != BlockType.unusedSlot\n            for entry in self.entries[unusedBlockPos + 1 :]\n        ):\n            raise IOError(\"All unused slots must be at the end of the file\")\n", expect="validate-before-effect")
B("C07-b07", "duplicate check after the entry was written", TDF,
  "        if newBlock.type != BlockType.unusedSlot and any(\n            entry.type == newBlock.type for entry in self.entries\n        ):\n            raise ValueError(\n                (\n                    f\"There's already a block of this type {newBlock.type}\"\n                    \" .Remove it first\"\n                )\n            )\n", "",
  TDF, "        # update all unused slots's offset\n", "        if any(entry.type == newBlock.type for entry in self.entries[:unusedBlockPos]):\n            raise ValueError(\"duplicate\")\n        # update all unused slots's offset\n", expect="validate-before-effect")
P("C07-p01", "permission check spelled differently", TDF, "        if not self.handler.writable():\n            raise PermissionError(\n                \"Can't add blocks", "        if self.handler.writable() is False:\n            raise PermissionError(\n                \"Can't add blocks")
P("C07-p02", "buffers created inline", TDF, "        block_buffer = BytesIO()\n        newBlock._write(block_buffer)\n", "        block_buffer = BytesIO()\n        newBlock._write(block_buffer)\n        payload_size = len(block_buffer.getvalue())\n")

# ------------------------------------------------------------------------------------------------ C08
B("C08-b01", "__exit__ forgets to reset the mode", TDF, "        self._inside_context = False\n        self._mode = \"rb\"\n        self.handler.close()", "        self._inside_context = False\n        self.handler.close()", expect="_mode")
B("C08-b02", "handle opened with a literal read-write mode", TDF, "self.file_path.open(self._mode)", "self.file_path.open(\"r+b\")", expect="handle")
B("C08-b03", "__exit__ closes only on a clean exit", TDF, "        self.handler.close()\n\n    @property\n    @provide_context_if_needed\n    def blocks", "        if exc_type is None:\n            self.handler.close()\n\n    @property\n    @provide_context_if_needed\n    def blocks", expect="close")
B("C08-b04", "a reader repairs offsets by writing", TDF, "        return any(entry.type == BlockType.data3D for entry in self.entries)", "        self.handler.write(b\"\")\n        return any(entry.type == BlockType.data3D for entry in self.entries)", expect="effect")
B("C08-b05", "has_events rewritten to add a block", TDF, "        return any(i for i in self.entries if i.type == BlockType.temporalEventsData)", "        self.add_block(None)\n        return any(i for i in self.entries if i.type == BlockType.temporalEventsData)", expect="reader-purity")
B("C08-b06", "a new public mutator with its own open()", TDF, "    @property\n    def nBytes(self) -> int:", "    def touch(self) -> None:\n        with open(self.file_path, \"r+b\") as f:\n            f.write(b\"\")\n\n    @property\n    def nBytes(self) -> int:", expect="effect-owners")
B("C08-b08", "__exit__ leaves the inside flag set", TDF, "        self._inside_context = False\n        self._mode = \"rb\"", "        self._mode = \"rb\"", expect="_inside_context")
B("C08-b09", "decoder writes to its stream", EVT, "        nEvents = i32.bread(stream)\n", "        nEvents = i32.bread(stream)\n        stream.write(b\"\")\n", expect="reader-purity")
B("C08-b10", "copy opens the source for update", TDF, "        shutil.copyfile(self.file_path, new_file_path)", "        with self.file_path.open(\"r+b\") as src:\n            new_file_path.write_bytes(src.read())")
B("C08-b11", "mode set to append-update elsewhere", TDF, "    def __len__(self) -> int:\n", "    def unlock(self) -> None:\n        self._mode = \"a+b\"\n\n    def __len__(self) -> int:\n", expect="mode-lifecycle")
P("C08-p01", "__exit__ statements reordered", TDF, "        self._inside_context = False\n        self._mode = \"rb\"\n        self.handler.close()", "        self.handler.close()\n        self._mode = \"rb\"\n        self._inside_context = False")
P("C08-p02", "close in a finally clause", TDF, "        self._inside_context = False\n        self._mode = \"rb\"\n        self.handler.close()", "        try:\n            self._inside_context = False\n            self._mode = \"rb\"\n        finally:\n            self.handler.close()")

# ------------------------------------------------------------------------------------------------ C09
B("C09-b01", "truncate dropped", TDF, "        self.handler.write(temp)\n        self.handler.truncate()\n", "        self.handler.write(temp)\n", expect="tail")
B("C09-b02", "flush before the tail write", TDF, "        self.handler.seek(oldEntry.offset, 0)\n        self.handler.write(temp)\n        self.handler.truncate()\n        self.handler.flush()", "        self.handler.seek(oldEntry.offset, 0)\n        self.handler.flush()\n        self.handler.write(temp)\n        self.handler.truncate()", expect="tail-move-order")
B("C09-b03", "shift adds instead of subtracting", TDF, "entry.offset -= oldEntry.size", "entry.offset += oldEntry.size", expect="shift")
B("C09-b04", "shift loop starts one entry late", TDF, "for entry in self.entries[oldEntryPos:]:", "for entry in self.entries[oldEntryPos + 1 :]:", expect="shift-loop")
B("C09-b05", "Tdf.new points the slots at a 256-byte stride", TDF, "blockOffset = entryOffset + nEntries * 288", "blockOffset = entryOffset + nEntries * 256", expect="initial-layout")
B("C09-b06", "later slots re-pointed to the start of the new block", TDF, "            entry.offset = new_entry.offset + new_entry.size", "            entry.offset = new_entry.offset", expect="later slot")
B("C09-b07", "something seeks between the tail write and truncate", TDF, "        self.handler.write(temp)\n        self.handler.truncate()", "        self.handler.write(temp)\n        self.handler.seek(0, 2)\n        self.handler.truncate()", expect="tail-move-order")
B("C09-b08", "shift only unused entries", TDF, "        for entry in self.entries[oldEntryPos:]:\n            entry.offset -= oldEntry.size\n            entry._write(self.handler)", "        for entry in self.entries[oldEntryPos:]:\n            if entry.type == BlockType.unusedSlot:\n                entry.offset -= oldEntry.size\n            entry._write(self.handler)", expect="shift-loop")
B("C09-b09", "bytes after the table in a new file", TDF, "        return Tdf(filePath)", "            f.write(b\"\\x00\" * 4)\n        return Tdf(filePath)", expect="initial-layout")
P("C09-p01", "tail bound to a differently named local", TDF, "        temp = self.handler.read()\n        self.handler.seek(oldEntry.offset, 0)\n        self.handler.write(temp)", "        tail = self.handler.read()\n        self.handler.seek(oldEntry.offset, 0)\n        self.handler.write(tail)")

# ------------------------------------------------------------------------------------------------ C10
B("C10-b01", "flush dropped from add_block", TDF, "        # and that the changes are written to disk\n        self.handler.flush()", "        # and that the changes are written to disk", expect="flush-on-exit")
B("C10-b02", "re-pointed slot not written", TDF, "            entry.offset = new_entry.offset + new_entry.size\n            self.handler.seek(64 + 288 * n, 0)\n            entry._write(self.handler)", "            entry.offset = new_entry.offset + new_entry.size", expect="dirty-entry")
B("C10-b03", "new entry written one slot late", TDF, "self.handler.seek(64 + 288 * unusedBlockPos, 0)", "self.handler.seek(64 + 288 * (unusedBlockPos + 1), 0)", expect="slot-position")
B("C10-b04", "enumerate index off by one", TDF, "self.entries[unusedBlockPos + 1 :], start=unusedBlockPos + 1", "self.entries[unusedBlockPos + 1 :], start=unusedBlockPos", expect="slot-position")
B("C10-b05", "appended slot kept in memory only", TDF, "        self.entries.append(newEntry)\n        newEntry._write(self.handler)", "        self.entries.append(newEntry)", expect="dirty-entry")
B("C10-b06", "table cached across contexts", TDF, "        self.entries = [TdfEntry._build(self.handler) for _ in range(self.nEntries)]", "        if not hasattr(self, \"entries\"):\n            self.entries = [TdfEntry._build(self.handler) for _ in range(self.nEntries)]", expect="parse-on-enter")
B("C10-b07", "size reported from the table", TDF, "        return self.file_path.stat().st_size", "        return 64 + 288 * self.nEntries + sum(e.size for e in self.entries)", expect="size-from-fs")
B("C10-b08", "shift rewrite starts at the wrong slot", TDF, "self.handler.seek(64 + 288 * oldEntryPos, 0)", "self.handler.seek(64 + 288 * (oldEntryPos + 1), 0)", expect="slot-position")
B("C10-b09", "get_block decodes at the entry size instead of its offset", TDF, "self.handler.seek(entry.offset, 0)", "self.handler.seek(entry.size, 0)", expect="read-through-handle")
B("C10-b10", "entry written before it is stored, then stored elsewhere", TDF, "self.entries[unusedBlockPos] = new_entry", "self.entries[unusedBlockPos - 1] = new_entry")
P("C10-p01", "explicit seek inside the shift loop", TDF, "        for entry in self.entries[oldEntryPos:]:\n            entry.offset -= oldEntry.size\n            entry._write(self.handler)",
  "        for n, entry in enumerate(self.entries[oldEntryPos:], start=oldEntryPos):\n            entry.offset -= oldEntry.size\n            self.handler.seek(64 + 288 * n, 0)\n            entry._write(self.handler)")

# ------------------------------------------------------------------------------------------------ C11
B("C11-b01", "has_emg tests the force/torque type", TDF, "            entry.type == BlockType.electromyographicData for entry in self.entries", "            entry.type == BlockType.forceAndTorqueData for entry in self.entries", expect="accessor-agreement")
B("C11-b02", "emg getter fetches data3D", TDF, "return self.get_block(EMG.type)", "return self.get_block(Data3D.type)", expect="accessor-agreement")
B("C11-b03", "__len__ counts all entries", TDF, "return sum(1 for i in self.entries if i.type != BlockType.unusedSlot)", "return sum(1 for i in self.entries)", expect="count-definition")
B("C11-b04", "index bound inclusive", TDF, "if 0 <= index_or_type < len(self.entries):", "if 0 <= index_or_type <= len(self.entries):", expect="lookup-contract")
B("C11-b05", "setter adds when present and replaces when absent", TDF, "self.replace_block(data) if self.has_events else self.add_block(data)", "self.add_block(data) if self.has_events else self.replace_block(data)", expect="accessor-agreement")
B("C11-b06", "duplicate refusal swallowed again", TDF,
  "        if newBlock.type != BlockType.unusedSlot and any(\n            entry.type == newBlock.type for entry in self.entries\n        ):\n            raise ValueError(\n                (\n                    f\"There's already a block of this type {newBlock.type}\"\n                    \" .Remove it first\"\n                )\n            )\n",
  "        try:\n            if newBlock.type != BlockType.unusedSlot and any(\n                entry.type == newBlock.type for entry in self.entries\n            ):\n                raise ValueError(\"duplicate\")\n        except Exception:\n            pass\n", expect="swallow")
B("C11-b07", "events setter consults the EMG predicate", TDF, "self.replace_block(data) if self.has_events else self.add_block(data)", "self.replace_block(data) if self.has_emg else self.add_block(data)", expect="accessor-agreement")
B("C11-b08", "blocks lists only live entries of known types", TDF, "return [self.get_block(entry.type) for entry in self.entries]", "return [self.get_block(entry.type) for entry in self.entries if entry.size]", expect="count-definition")
B("C11-b09", "a predicate that does not exist", TDF, "self.replace_block(data) if self.has_data3D else self.add_block(data)", "self.replace_block(data) if self.has_data3d else self.add_block(data)", expect="self-attr-resolves")
B("C11-b10", "duplicate refusal raises KeyError", TDF, "            raise ValueError(\n                (\n                    f\"There's already a block", "            raise KeyError(\n                (\n                    f\"There's already a block", expect="duplicate-refusal")
B("C11-b11", "lookup by type returns the last match", TDF, "entry = next((e for e in self.entries if e.type == index_or_type), None)", "entry = next((e for e in reversed(self.entries) if e.type == index_or_type), None)", expect="lookup-contract")
P("C11-p01", "predicate written with a generator of entries", TDF, "        return any(entry.type == BlockType.data3D for entry in self.entries)", "        return any(e.type == BlockType.data3D for e in self.entries)")
P("C11-p02", "setter as an if statement", TDF, "        self.replace_block(data) if self.has_emg else self.add_block(data)", "        if self.has_emg:\n            self.replace_block(data)\n        else:\n            self.add_block(data)")

# ------------------------------------------------------------------------------------------------ C12
B("C12-b01", "reserved word of the EMG track passed to the constructor", EMG, "        i32.skip(stream)  # padding\n        segmentData", "        pad = i32.bread(stream)  # padding\n        nSegments = nSegments + pad\n        segmentData", expect="pad")
B("C12-b02", "decode before the cut", TYP, "return la[:pos].decode(encoding)", "return la.decode(encoding)[:pos]", expect="nul-cut")
B("C12-b03", "rstrip instead of a cut at the first NUL", TYP, "            pos = la.index(b\"\\x00\")\n            return la[:pos].decode(encoding)", "            return la.rstrip(b\"\\x00\").decode(encoding)", expect="nul-cut")
B("C12-b04", "writer stores an attribute in the reserved word", OPT, "        # Reserved 0\n        i32.bpad(file, 1)\n\n        # lens name", "        # Reserved 0\n        i32.bwrite(file, self.logical_camera_index)\n\n        # lens name", expect="writer-pad-constant")
B("C12-b05", "platform pad decoded as text again", FPC, "        stream.seek(256, 1)  # Undocumented padding", "        BTSString.bread(stream, 256)  # Undocumented padding", expect="pad-not-interpreted")
B("C12-b06", "entry reserved word checked to be zero", TDF, "        i32.skip(file)\n        comment", "        if i32.bread(file) != 0:\n            raise ValueError(\"corrupt entry\")\n        comment", expect="pad")
B("C12-b07", "header reserved words kept on the object and compared", TDF, "        # pad 20 bytes\n        i32.skip(self.handler, 5)", "        # pad 20 bytes\n        self.reserved = i32.bread(self.handler, 5)", expect="pad-no-flow")
B("C12-b08", "string writer pads with spaces after the terminator", TYP, "padding = b\"\\x00\" * (size - len(dat))", "padding = b\" \" * (size - len(dat))", expect="writer-pad-constant")
P("C12-p01", "skip spelled as a raw read", D3, "        i32.skip(stream)\n        segmentData", "        stream.read(4)\n        segmentData")
P("C12-p02", "cut with partition", TYP, "            pos = la.index(b\"\\x00\")\n            return la[:pos].decode(encoding)", "            pos = la.index(b\"\\x00\")\n            return la.partition(b\"\\x00\")[0].decode(encoding)")

# ------------------------------------------------------------------------------------------------ C13
B("C13-b01", ">= refuses strings that still fit", TYP, "if len(dat) > size:", "if len(dat) >= size:", expect="str-refuse-before-return")
B("C13-b02", "terminator not counted", TYP, "if len(dat) > size:", "if len(dat) - 1 > size:", expect="str-refuse-before-return")
B("C13-b03", "errors=replace", TYP, "data.encode(\"windows-1252\")", "data.encode(\"windows-1252\", errors=\"replace\")", expect="str-strict-codec")
B("C13-b04", "truncation instead of refusal", TYP, "return dat + padding", "return (dat + padding)[:size]")
B("C13-b05", "space padding", TYP, "padding = b\"\\x00\" * (size - len(dat))", "padding = b\" \" * (size - len(dat))", expect="str-terminated")
B("C13-b06", "terminator dropped", TYP, "dat = data.encode(\"windows-1252\") + b\"\\x00\"", "dat = data.encode(\"windows-1252\")")
B("C13-b07", "reader default latin-1", TYP, "def read(size: int, data: bytes, encoding: str = \"windows-1252\")", "def read(size: int, data: bytes, encoding: str = \"latin-1\")", expect="codec")
B("C13-b08", "a call site with width 255", EVT, "BTSString.bwrite(stream, 256, self.label)", "BTSString.bwrite(stream, 255, self.label)", expect="str-call-sites")
B("C13-b09", "check moved after the return value is built with max()", TYP, "        if len(dat) > size:\n            raise ValueError(\n                f\"The string is too long: max {size} chars, got {len(dat)}\"\n            )\n        return dat + padding", "        return dat + padding")
B("C13-b10", "refusal with TypeError", TYP, "            raise ValueError(\n                f\"The string is too long", "            raise TypeError(\n                f\"The string is too long", expect="str-refuse-before-return")
P("C13-p01", "padding computed after the check", TYP, "        padding = b\"\\x00\" * (size - len(dat))\n        if len(dat) > size:\n            raise ValueError(\n                f\"The string is too long: max {size} chars, got {len(dat)}\"\n            )\n        return dat + padding",
  "        if len(dat) > size:\n            raise ValueError(\n                f\"The string is too long: max {size} chars, got {len(dat)}\"\n            )\n        padding = b\"\\x00\" * (size - len(dat))\n        return dat + padding")
P("C13-p02", "codec alias cp1252", TYP, "data.encode(\"windows-1252\")", "data.encode(\"cp1252\")")
P("C13-p03", "comparison written the other way round", TYP, "if len(dat) > size:", "if size < len(dat):")

# ------------------------------------------------------------------------------------------------ C14
P("C14-p03", "EMG.__eq__ relies on the compared channel map for the length (parallel lists)", EMG, "            and len(self._signals) == len(other._signals)\n", "")
B("C14-b02", "EMG.__eq__ ignores the channel map again", EMG, "            and list(self._emgMap) == list(other._emgMap)\n", "", expect="eq-coverage")
B("C14-b03", "EMGTrack compares with np.all(==)", EMG, "        return self.label == other.label and np.array_equal(\n            self.data, other.data, equal_nan=True\n        )", "        return self.label == other.label and np.all(self.data == other.data)", expect="eq-nan-aware")
B("C14-b04", "ForceTorqueTrack drops equal_nan on torque", F3, "            and np.allclose(self.torque, other.torque, equal_nan=True)", "            and np.allclose(self.torque, other.torque)", expect="eq-nan-aware")
B("C14-b05", "BTSCameraData loses its __eq__", CAL, "    def __eq__(self, o: object) -> bool:\n        if not isinstance(o, BTSCameraData):\n            return False\n        return (", "    def _same(self, o: object) -> bool:\n        if not isinstance(o, BTSCameraData):\n            return False\n        return (", expect="eq-defined")
B("C14-b06", "Tdf.__eq__ ignores the slot count", TDF, "            self.version == o.version\n            and self.nEntries == o.nEntries\n            and self.blocks == o.blocks", "            self.version == o.version\n            and self.blocks == o.blocks", expect="eq-file")
B("C14-b07", "Event.__eq__ ignores the label", EVT, "            self.label == o.label\n            and self.type == o.type", "            self.type == o.type", expect="eq-coverage")
B("C14-b08", "ForcePlatformInfo.__eq__ ignores the position", FPC, "            and np.allclose(self.size, o.size)\n            and np.allclose(self.position, o.position)", "            and np.allclose(self.size, o.size)", expect="eq-coverage")
B("C14-b09", "OpticalChannelData.__eq__ ignores the viewport", OPT, "            and self.camera_name == other.camera_name\n            and self.camera_viewport == other.camera_viewport", "            and self.camera_name == other.camera_name", expect="eq-coverage")
B("C14-b10", "TemporalEventsData zips without length", EVT, "            and len(self.events) == len(other.events)\n", "", expect="eq-length")
B("C14-b11", "Data3D equality replaced by a header comparison", D3,
  "        buff1 = BytesIO()\n        buff2 = BytesIO()\n        self._write(buff1)\n        other._write(buff2)\n        return buff1.getvalue() == buff2.getvalue()\n\n    def __contains__", "        return self.nFrames == other.nFrames and self.frequency == other.frequency and self.startTime == other.startTime\n\n    def __contains__", expect="eq-coverage")
B("C14-b12", "CalibrationDataBlock ignores the distortion model", CAL, "            self.distorsion_model == o.distorsion_model\n            and np.array_equal(self.calibration_volume_size", "            np.array_equal(self.calibration_volume_size", expect="eq-coverage")
P("C14-p01", "conjuncts reordered", EVT, "            self.label == o.label\n            and self.type == o.type", "            self.type == o.type\n            and self.label == o.label")
P("C14-p02", "list equality instead of zip + len", EVT, "            and len(self.events) == len(other.events)\n            and all(e1 == e2 for e1, e2 in zip(self.events, other.events))", "            and self.events == other.events")

# ------------------------------------------------------------------------------------------------ C15
B("C15-b01", "removeSignal forgets the channel list", EMG, "        del self._signals[pos]\n        del self._emgMap[pos]", "        del self._signals[pos]", expect="paired-mutation")
B("C15-b02", "a raise between the two appends", FPD, "        self._plat_map.append(channel)\n        self._platforms.append(platform)", "        self._plat_map.append(channel)\n        if platform.nBytes < 0:\n            raise ValueError(\"bad platform\")\n        self._platforms.append(platform)", expect="paired-mutation")
B("C15-b03", "explicit channel no longer checked for uniqueness", FPC, "            if channel in self._platformMap:\n                raise ValueError(f\"channel {channel} already in use\")\n", "", expect="channel-unique-guard")
B("C15-b04", "automatic channel = number of items", EMG, "                next_channel = max(self._emgMap) + 1", "                next_channel = len(self._emgMap)", expect="auto-channel-fresh")
B("C15-b05", "decoder installs the EMG map directly", EMG, "        d = EMG(frequency, nSamples, startTime, format)\n", "        d = EMG(frequency, nSamples, startTime, format)\n        d._emgMap = emgMap\n", expect="container-kind")
B("C15-b06", "constructor fills platforms without channels again", FPC, "        self._platforms: List[ForcePlatformInfo] = []\n        self._platformMap = []\n        self.format = format\n        for platform in platforms or []:\n            self.add_platform(platform)", "        self._platforms: List[ForcePlatformInfo] = platforms or []\n        self._platformMap = []\n        self.format = format", expect="parallel-init")
B("C15-b07", "setter clears only the platforms", FPC, "        self._platformMap = []\n        self._platforms = []\n        for channel, plat in channel_plats:", "        self._platforms = []\n        for channel, plat in channel_plats:", expect="paired-mutation")
B("C15-b08", "remove deletes different positions", FPC, "        del self._platforms[index]\n        del self._platformMap[index]", "        del self._platforms[index]\n        del self._platformMap[-1]", expect="paired-mutation")
B("C15-b09", "writer emits items before the map", EMG, "        # emgMap\n        i16.bwrite(file, self._emgMap)\n\n        # signals\n        for signal in self._signals:\n            signal._write(file)", "        # signals\n        for signal in self._signals:\n            signal._write(file)\n\n        # emgMap\n        i16.bwrite(file, self._emgMap)", expect="encoding-order")
B("C15-b10", "label lookup compares objects with strings again", EMG, "if v.label == label)", "if v == label)", expect="lookup-types")
B("C15-b11", "explicit channel refused with KeyError", EMG, "                raise ValueError(f\"Channel {channel} already in use\")", "                raise KeyError(f\"Channel {channel} already in use\")", expect="channel-unique-guard")
P("C15-p01", "appends in the other order", FPD, "        self._plat_map.append(channel)\n        self._platforms.append(platform)", "        self._platforms.append(platform)\n        self._plat_map.append(channel)")
P("C15-p02", "decoder installs a list built with list()", FPD, "block._plat_map = plat_map.tolist()", "block._plat_map = list(plat_map)")

# ------------------------------------------------------------------------------------------------ C16
B("C16-b01", "type check dropped", D3, "        if not isinstance(track, MarkerTrack):\n            raise TypeError(\"Track must be of type Track\")\n", "", expect="guarded-append")
B("C16-b02", "length compared with the track count", D3, "if track.nFrames != self.nFrames:", "if track.nFrames != self.nTracks:", expect="guarded-append")
B("C16-b03", "setter catches ValueError only", D3, "        except Exception as e:\n            self._tracks = oldTracks\n            raise e", "        except ValueError as e:\n            self._tracks = oldTracks\n            raise e", expect="atomic-assign")
B("C16-b04", "old list saved after the reset", F3, "        oldTracks = self._tracks\n        self._tracks = []", "        self._tracks = []\n        oldTracks = self._tracks", expect="atomic-assign")
B("C16-b05", "setter shortcut assigns the list directly", D3, "            for value in values:\n                self.add_track(value)", "            self._tracks = list(values)", expect="atomic-assign")
B("C16-b06", "handler swallows the exception", F3, "        except Exception as e:\n            self._tracks = oldTracks\n            raise e", "        except Exception as e:\n            self._tracks = oldTracks", expect="atomic-assign")
B("C16-b07", "decoder builds tracks with the track count", D3, "MarkerTrack._build(stream, nFrames) for _ in range(nTracks)", "MarkerTrack._build(stream, nTracks) for _ in range(nTracks)", expect="decoder-length")
B("C16-b08", "a helper appends to _tracks directly", D3, "    @property\n    def nTracks(self) -> int:", "    def extend(self, tracks) -> None:\n        for t in tracks:\n            self._tracks.append(t)\n\n    @property\n    def nTracks(self) -> int:", expect="container-owners")
B("C16-b09", "EMG length check against the signal count", EMG, "if signal.nSamples != self.nSamples:", "if signal.nSamples != self.nSignals:", expect="guarded-append")
B("C16-b10", "length refusal raises TypeError", F3, "            raise ValueError(\n                (\n                    f\"Track with label {track.label} has {track.nFrames}\"", "            raise TypeError(\n                (\n                    f\"Track with label {track.label} has {track.nFrames}\"", expect="guarded-append")
P("C16-p01", "bare except with re-raise", D3, "        except Exception as e:\n            self._tracks = oldTracks\n            raise e", "        except BaseException:\n            self._tracks = oldTracks\n            raise")

# ------------------------------------------------------------------------------------------------ C17
B("C17-b01", "existence test removed from new", TDF, "        if filePath.exists():\n            raise FileExistsError(\"File already exists\")\n", "", expect="exists-before-create")
B("C17-b02", "copy tests the source path", TDF, "        if new_file_path.exists():", "        if not self.file_path.exists():", expect="exists-before-create")
B("C17-b03", "copyfile arguments swapped", TDF, "shutil.copyfile(self.file_path, new_file_path)", "shutil.copyfile(new_file_path, self.file_path)")
B("C17-b04", "16 slots", TDF, "nEntries = 14", "nEntries = 16", expect="nEntries")
B("C17-b05", "slots point one entry past the header", TDF, "blockOffset = entryOffset + nEntries * 288", "blockOffset = entryOffset + 288", expect="new-layout")
B("C17-b06", "signature check after the table parse", TDF,
  "        if self.signature != self.SIGNATURE:\n            raise Exception(\"Invalid TDF file\")\n", "",
  TDF, "        self.entries = [TdfEntry._build(self.handler) for _ in range(self.nEntries)]\n", "        self.entries = [TdfEntry._build(self.handler) for _ in range(self.nEntries)]\n        if self.signature != self.SIGNATURE:\n            raise Exception(\"Invalid TDF file\")\n", expect="open-checks")
B("C17-b08", "existing target refused with ValueError", TDF, "            raise FileExistsError(\"File already exists\")", "            raise ValueError(\"File already exists\")", expect="exists-before-create")
B("C17-b09", "missing file no longer refused", TDF, "        if not self.file_path.exists():\n            raise FileNotFoundError(f\"File {self.file_path} not found\")\n", "", expect="open-checks")
B("C17-b10", "copy returns the original", TDF, "        return Tdf(new_file_path)", "        return self", expect="copy-direction")
B("C17-b11", "inverted existence test", TDF, "        if filePath.exists():\n            raise FileExistsError", "        if not filePath.exists():\n            raise FileExistsError", expect="exists-before-create")
P("C17-p01", "exclusive creation", TDF, "with filePath.open(\"wb\") as f:", "with filePath.open(\"xb\") as f:")
P("C17-p20", "copy by copyfileobj between an 'rb' and an 'xb' handle", TDF, "        shutil.copyfile(self.file_path, new_file_path)\n",
  "        with open(self.file_path, \"rb\") as source, open(new_file_path, \"xb\") as target:\n            shutil.copyfileobj(source, target)\n")
P("C17-p21", "copy by a chunk loop that leaves on a short chunk after writing it", TDF, "        shutil.copyfile(self.file_path, new_file_path)\n",
  "        with self.file_path.open(\"rb\") as source, new_file_path.open(\"xb\") as target:\n            while True:\n                chunk = source.read(shutil.COPY_BUFSIZE)\n"
  "                target.write(chunk)\n                if len(chunk) < shutil.COPY_BUFSIZE:\n                    break\n")
B("C17-b20", "chunk loop leaves on a short chunk before writing it", TDF, "        shutil.copyfile(self.file_path, new_file_path)\n",
  "        with self.file_path.open(\"rb\") as source, new_file_path.open(\"xb\") as target:\n            while True:\n                chunk = source.read(shutil.COPY_BUFSIZE)\n"
  "                if len(chunk) < shutil.COPY_BUFSIZE:\n                    break\n                target.write(chunk)\n", expect="copy-direction")
B("C17-b21", "copy through text-mode handles", TDF, "        shutil.copyfile(self.file_path, new_file_path)\n",
  "        with self.file_path.open(\"r\") as source, new_file_path.open(\"x\") as target:\n            shutil.copyfileobj(source, target)\n", expect="copy-direction")

# ------------------------------------------------------------------------------------------------ C18
B("C18-b01", "membership is case-insensitive", D3, "return any(track.label == value for track in self._tracks)", "return any(track.label.lower() == value.lower() for track in self._tracks)", expect="contains-contract")
B("C18-b02", "label lookup returns the last match", F3, "return next(track for track in self._tracks if track.label == key)", "return next(track for track in reversed(self._tracks) if track.label == key)", expect="getitem-contract")
B("C18-b03", "__len__ over another attribute", EVT, "    def __len__(self) -> int:\n        return len(self.events)", "    def __len__(self) -> int:\n        return len(self.format.name)", expect="accessor-same-container")
B("C18-b04", "absent label raises IndexError", EMG, "raise KeyError(f\"EMG signal with label {key} not found\")", "raise IndexError(f\"EMG signal with label {key} not found\")", expect="getitem-contract")
B("C18-b05", "unsupported key falls through to None", D3, "        raise TypeError(f\"Invalid key type {type(key)}\")\n\n    def __iter__", "        return None\n\n    def __iter__", expect="getitem-contract")
B("C18-b06", "lookup strips the key", EVT, "return next(e for e in self.events if e.label == item)", "return next(e for e in self.events if e.label == item.strip())", expect="getitem-contract")
B("C18-b07", "iteration in reverse order", EMG, "        return iter(self._signals)", "        return iter(reversed(self._signals))", expect="accessor-same-container")
B("C18-b08", "__contains__ returns False for other types", F3, "        raise TypeError(f\"Invalid key type {type(key)}\")\n\n    def __iter__", "        return False\n\n    def __iter__", expect="contains-contract")
B("C18-b09", "lookup by prefix", D3, "return next(track for track in self._tracks if track.label == key)", "return next(track for track in self._tracks if track.label.startswith(key))", expect="getitem-contract")
P("C18-p01", "loop variable renamed", D3, "return next(track for track in self._tracks if track.label == key)", "return next(t for t in self._tracks if t.label == key)")

# ------------------------------------------------------------------------------------------------ C19
B("C19-b01", "rotation matrix checked against the vector shape", D3, "            and rotationMatrix.shape == MAT3X3F.btype.shape", "            and rotationMatrix.shape == VEC3F.btype.shape", expect="rotationMatrix")
B("C19-b02", "not dropped from the volume guard", F3, "        if not (isinstance(volume, np.ndarray) and volume.shape == Volume.btype.shape):", "        if isinstance(volume, np.ndarray) and volume.shape == Volume.btype.shape:", expect="volume")
B("C19-b03", "and turned into or", D3, "            isinstance(translationVector, np.ndarray)\n            and translationVector.shape == VEC3F.btype.shape", "            isinstance(translationVector, np.ndarray)\n            or translationVector.shape == VEC3F.btype.shape", expect="translationVector")
B("C19-b04", "Seelab focus check deleted", CAL, "        if not isinstance(focus, np.ndarray) or focus.shape != (2,):\n            raise TypeError(\"focus must be a (2,) shape numpy array\")\n", "", expect="focus")
B("C19-b05", "coupled check reduced to one comparison", F3, "            application_point.shape != force.shape\n            or application_point.shape != torque.shape", "            application_point.shape != force.shape", expect="coupled-shape")
B("C19-b06", "single event allows two values", EVT, "if len(values) > 1 and type == EventsDataType.singleEvent:", "if len(values) > 2 and type == EventsDataType.singleEvent:", expect="event-values")
B("C19-b07", "viewport list branch mis-parenthesised again", TYP, "        elif isinstance(origin, (list, tuple)):\n            if len(origin) != 2:\n                raise TypeError(\"origin must be of length 2 if it is a list or tuple\")\n        else:\n            raise TypeError(\"origin must be a numpy array, a list or a tuple\")",
  "        elif isinstance(origin, list) or isinstance(origin, tuple) and len(origin) != 2:\n            raise TypeError(\"origin must be of length 2 if it is a list or tuple\")", expect="viewport-accepts")
B("C19-b08", "viewport coercion accepts any array", OPT, "        elif isinstance(camera_viewport, np.ndarray) and camera_viewport.shape == (\n            2,\n            2,\n        ):", "        elif isinstance(camera_viewport, np.ndarray):", expect="viewport-coercion")
B("C19-b09", "calibration map accepts any rank", CAL, "            or len(cameras_calibration_map.shape) != 1", "            or len(cameras_calibration_map.shape) < 1", expect="cameras_calibration_map")
B("C19-b10", "!= turned into == in a Seelab guard", CAL, "        if not isinstance(decentering, np.ndarray) or decentering.shape != (2,):", "        if not isinstance(decentering, np.ndarray) or decentering.shape == (2,):", expect="decentering")
P("C19-p01", "guard with the literal shape", D3, "            and rotationMatrix.shape == MAT3X3F.btype.shape", "            and rotationMatrix.shape == (3, 3)")
P("C19-p02", "De Morgan form", F3, "        if not (isinstance(volume, np.ndarray) and volume.shape == Volume.btype.shape):", "        if not isinstance(volume, np.ndarray) or volume.shape != Volume.btype.shape:")

# ------------------------------------------------------------------------------------------------ C20
B("C20-b01", "tracks list at class level", D3, "        self.flag = flag\n        self.nFrames = nFrames\n\n        self._tracks = []", "        self.flag = flag\n        self.nFrames = nFrames", D3, "class Data3D(Block):\n    type = BlockType.data3D\n", "class Data3D(Block):\n    type = BlockType.data3D\n    _tracks = []\n", expect="no-class-level-container")
B("C20-b02", "mutable default stored in the EMG block", EMG, "    def __init__(\n        self, frequency, nSamples, startTime=0.0, format=EMGBlockFormat.byTrack\n    ) -> None:", "    def __init__(\n        self, frequency, nSamples, startTime=0.0, format=EMGBlockFormat.byTrack, signals=[]\n    ) -> None:",
  EMG, "        self._signals = []\n        self._emgMap = []", "        self._signals = signals\n        self._emgMap = []", expect="no-shared-default")
B("C20-b03", "module-level cache filled by the decoder", EVT, "class TemporalEventsDataFormat(Enum):", "_CACHE = {}\n\n\nclass TemporalEventsDataFormat(Enum):", EVT, "        t = TemporalEventsData(format, start_time)\n", "        t = TemporalEventsData(format, start_time)\n        _CACHE[nEvents] = t\n", expect="no-module-state")
B("C20-b04", "optical setup default list again", OPT, "channels: Optional[List[OpticalChannelData]] = None,", "channels: Optional[List[OpticalChannelData]] = [],", OPT, "self.channels = channels if channels is not None else []", "self.channels = channels", expect="no-shared-default")
B("C20-b05", "events list shared through a default", EVT, "    def __init__(self, format=TemporalEventsDataFormat.standard, start_time=0.0):", "    def __init__(self, format=TemporalEventsDataFormat.standard, start_time=0.0, events=[]):", EVT, "        self.events = []\n", "        self.events = events\n", expect="no-shared-default")
B("C20-b06", "decoder returns a cached instance", EVT, "        t = TemporalEventsData(format, start_time)\n        t.events = [Event._build(stream) for _ in range(nEvents)]\n\n        return t", "        t = TemporalEventsData(format, start_time)\n        t.events = [Event._build(stream) for _ in range(nEvents)]\n\n        return TemporalEventsData._last", expect="decoder-fresh")
B("C20-b07", "platform map never created per instance", FPD, "        self._plat_map = []\n        self._platforms = []", "        self._platforms = []", expect="fresh-containers")
P("C20-p01", "default None replaced by a fresh list", OPT, "self.channels = channels if channels is not None else []", "self.channels = list(channels) if channels is not None else []")

# ------------------------------------------------------------------------------------------------ helper extraction
P("C01-p06", "header fields written by an extracted helper method", EMG,
  "        # nSignals\n        i32.bwrite(file, len(self._signals))\n\n        # frequency\n        i32.bwrite(file, self.frequency)\n", "        self._write_counts(file)\n",
  EMG, "    def __getitem__(self, key) -> EMGTrack:", "    def _write_counts(self, file) -> None:\n        i32.bwrite(file, len(self._signals))\n        i32.bwrite(file, self.frequency)\n\n    def __getitem__(self, key) -> EMGTrack:")
P("C06-p03", "header fields written by an extracted helper method", EMG,
  "        # nSignals\n        i32.bwrite(file, len(self._signals))\n\n        # frequency\n        i32.bwrite(file, self.frequency)\n", "        self._write_counts(file)\n",
  EMG, "    def __getitem__(self, key) -> EMGTrack:", "    def _write_counts(self, file) -> None:\n        i32.bwrite(file, len(self._signals))\n        i32.bwrite(file, self.frequency)\n\n    def __getitem__(self, key) -> EMGTrack:")

# ------------------------------------------------------------------------------------------------ session 3 (rules after seeded round 9)
P("C18-p30", "explicit bound on the integer key, taken from the number of tracks", D3, "        if isinstance(key, int):\n            return self._tracks[key]\n        elif isinstance(key, str):\n            try:\n                return next(track for track in self._tracks if track.label == key)",
  "        if isinstance(key, int):\n            if not -len(self._tracks) <= key < len(self._tracks):\n                raise IndexError(\"track index out of range\")\n            return self._tracks[key]\n        elif isinstance(key, str):\n            try:\n                return next(track for track in self._tracks if track.label == key)")
B("C18-b30", "integer key bounded by the number of frames", D3, "        if isinstance(key, int):\n            return self._tracks[key]\n        elif isinstance(key, str):\n            try:\n                return next(track for track in self._tracks if track.label == key)",
  "        if isinstance(key, int):\n            if not -self.nFrames <= key < self.nFrames:\n                raise IndexError(\"track index out of range\")\n            return self._tracks[key]\n        elif isinstance(key, str):\n            try:\n                return next(track for track in self._tracks if track.label == key)", expect="getitem-contract")
P("C20-p30", "mutable default copied before it is used as a scratch list", FPC, "    def add_platforms(self, plats, channels=None):", "    def add_platforms(self, plats, channels=[]):",
  FPC, "        if channels:\n            for plat, channel in zip(plats, channels):", "        channels = list(channels)\n        channels.reverse()\n        channels.reverse()\n        if channels:\n            for plat, channel in zip(plats, channels):")
B("C20-b30", "mutable default used as a scratch list in place", FPC, "    def add_platforms(self, plats, channels=None):", "    def add_platforms(self, plats, channels=[]):",
  FPC, "        if channels:\n            for plat, channel in zip(plats, channels):", "        channels.reverse()\n        channels.reverse()\n        if channels:\n            for plat, channel in zip(plats, channels):", expect="no-shared-default")
B("C02-b30", "reserved word of the optical setup skipped by an absolute seek", OPT, "        nChannels = i32.bread(stream)\n        i32.skip(stream)", "        nChannels = i32.bread(stream)\n        stream.seek(8)", expect="codec-call-shape")
B("C03-b30", "parsed table sorted by offset", TDF, "        self.entries = [TdfEntry._build(self.handler) for _ in range(self.nEntries)]", "        self.entries = [TdfEntry._build(self.handler) for _ in range(self.nEntries)]\n        self.entries.sort(key=lambda e: e.offset)", expect="parse-on-enter")
