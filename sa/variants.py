"""Variants for the self-test (E8): textual single-site edits keyed by an anchor text that must occur exactly once.
kind 'break'   : realistic change that breaks the property and still compiles -> must be reported
kind 'preserve': behaviour-preserving refactoring                              -> must stay silent
"""
VARIANTS = []


def B(id_, what, *edits, expect=None):
    VARIANTS.append(dict(id=id_, prop=id_.split("-")[0], kind="break", what=what, edits=_e(edits), expect=expect))


def P(id_, what, *edits):
    VARIANTS.append(dict(id=id_, prop=id_.split("-")[0], kind="preserve", what=what, edits=_e(edits)))


def _e(edits):
    return [tuple(edits[i:i + 3]) for i in range(0, len(edits), 3)]


D3, EMG, F3, FPD, FPC, D2, CAL, OPT, EVT, TYP, TDF, BLK, UTL = (
    "tdfData3D.py", "tdfEMG.py", "tdfForce3D.py", "tdfForcePlatformsData.py", "tdfForcePlatformsCalibration.py", "tdfData2D.py",
    "tdfCalibrationData.py", "tdfOpticalSystem.py", "tdfEvents.py", "tdfTypes.py", "basictdf.py", "tdfBlock.py", "tdfUtils.py")

# ------------------------------------------------------------------------------------------------ C01
B("C01-b01", "EMG bias +49 -> +48 on the read side", EMG, "+ 49  # Why", "+ 48  # Why", expect="nSamples")
B("C01-b02", "Data3D reader reads nTracks before startTime", D3,
  "        startTime = f32.bread(stream)\n        nTracks = u32.bread(stream)", "        nTracks = u32.bread(stream)\n        startTime = f32.bread(stream)")
B("C01-b03", "Data3D reader skips 2 words after nLinks", D3, "            i32.skip(stream, 1)", "            i32.skip(stream, 2)", expect="padding width")
B("C01-b04", "ForceTorque3D decoder passes frequency where startTime goes", F3,
  "            startTime,\n            format,\n        )\n        if format", "            frequency,\n            format,\n        )\n        if format", expect="startTime")
B("C01-b05", "MarkerTrack label width 256 -> 32 on the write side", D3, "BTSString.bwrite(file, 256, self.label)", "BTSString.bwrite(file, 32, self.label)", expect="width")
B("C01-b06", "EMG decoder builds one signal fewer", EMG, "for n in range(nSignals):", "for n in range(nSignals - 1):", expect="count")
B("C01-b07", "MarkerTrack writes stop instead of stop - start", D3, "i32.bwrite(file, np.array(segment.stop - segment.start))", "i32.bwrite(file, np.array(segment.stop))")
B("C01-b08", "Data3D flag decoded as constant", D3, "flag = Flags(u32.bread(stream))", "u32.bread(stream)\n        flag = Flags.rawData", expect="flag")
B("C01-b09", "ForcePlatformData decoder stores runs one frame late", FPD, "data[start_frame : start_frame + n_frames] = dat", "data[start_frame + 1 : start_frame + n_frames + 1] = dat")
B("C01-b10", "Event count read as 16 bit", EVT, "nItems = i32.bread(stream)", "nItems = i16.bread(stream)",
  EVT, "from basictdf.tdfTypes import BTSString, f32, i32, u32", "from basictdf.tdfTypes import BTSString, f32, i16, i32, u32", expect="on-disk type")
B("C01-b11", "EMG decoder drops the channel (automatic channels)", EMG, "d.addSignal(emgSignal, channel=emgMap[n])", "d.addSignal(emgSignal)", expect="_emgMap")
B("C01-b12", "Data2D grid reshaped frame-major", D2, "[nCameras, nFrames]\n        )", "[nFrames, nCameras]\n        ).T")
B("C01-b13", "Data3D writer accepts byFrame, reader refuses it", D3,
  "        if self.format not in [\n            Data3dBlockFormat.byTrack,\n            Data3dBlockFormat.byTrackWithoutLinks,\n        ]:",
  "        if self.format not in [\n            Data3dBlockFormat.byTrack,\n            Data3dBlockFormat.byTrackWithoutLinks,\n            Data3dBlockFormat.byFrame,\n        ]:", expect="format")
B("C01-b14", "OpticalChannelData reader swaps camera_type and camera_name", OPT,
  "            camera_type=camera_type,\n            camera_name=camera_name,", "            camera_type=camera_name,\n            camera_name=camera_type,", expect="camera_")
B("C01-b15", "Seelab reader passes focus as optical_center", CAL, "            optical_center=optical_center,\n            radial_distortion=radial_distorion,", "            optical_center=focus,\n            radial_distortion=radial_distorion,", expect="optical_center")
B("C01-b16", "ForceTorqueTrack writer stores torque before force", F3,
  "                ForceType.bwrite(file, self.force[frame])\n                # torque\n                TorqueType.bwrite(file, self.torque[frame])",
  "                TorqueType.bwrite(file, self.torque[frame])\n                # torque\n                ForceType.bwrite(file, self.force[frame])")
B("C01-b17", "EMG writer emits the wall clock in startTime", EMG, "f32.bwrite(file, self.startTime)", "f32.bwrite(file, time.time())", EMG, "import numpy as np\n\nfrom basictdf.tdfBlock", "import time\nimport numpy as np\n\nfrom basictdf.tdfBlock")
P("C01-p01", "rename a reader local", D3, "        frequency = i32.bread(stream)\n        startTime = f32.bread(stream)\n        nTracks = u32.bread(stream)",
  "        freq = i32.bread(stream)\n        startTime = f32.bread(stream)\n        nTracks = u32.bread(stream)", D3, "        d = Data3D(\n            frequency,", "        d = Data3D(\n            freq,")
P("C01-p02", "bpad replaced by literal zeros", D3, "            i32.bpad(file)\n            # links", "            file.write(b\"\\x00\" * 4)\n            # links")
P("C01-p03", "keyword arguments in the constructor call", EMG, "d = EMG(frequency, nSamples, startTime, format)", "d = EMG(frequency=frequency, nSamples=nSamples, startTime=startTime, format=format)")
P("C01-p04", "reader skips with a relative seek", EMG, "        i32.skip(stream)  # padding\n        segmentData", "        stream.seek(4, 1)  # padding\n        segmentData")
P("C01-p05", "writer binds the count to a local first", F3, "        u32.bwrite(file, len(self._tracks))", "        nTracks = len(self._tracks)\n        u32.bwrite(file, nTracks)")

# ------------------------------------------------------------------------------------------------ C02
B("C02-b01", "EMG.nBytes counts 4 bytes per channel", EMG, "base = 4 + 4 + 4 + 2 * len(self._signals) + 4", "base = 4 + 4 + 4 + 4 * len(self._signals) + 4", expect="size-identity")
B("C02-b02", "Data3D.nBytes forgets the link-table header", D3, "            links_size = (\n                4\n                + 4\n                + (", "            links_size = (\n                4\n                + (", expect="size-identity")
B("C02-b03", "ForcePlatformData.nBytes counts 4 bytes per table row", FPD, "base = 4 + 4 + (4 + 4) * nSegments", "base = 4 + 4 + 4 * nSegments", expect="size-identity")
B("C02-b04", "Event.nBytes omits the type word", EVT, "return 256 + 4 + 4 + len(self.values) * 4", "return 256 + 4 + len(self.values) * 4", expect="size-identity")
B("C02-b05", "add_block records the wrong size", TDF, "            size=newBlock.nBytes,", "            size=len(newBlock),", expect="container-size")
B("C02-b06", "later slots get the new offset without the size", TDF, "            entry.offset = new_entry.offset + new_entry.size", "            entry.offset = new_entry.offset", expect="later slot")
B("C02-b07", "ForceTorque3D writer adds a field without touching nBytes", F3, "        # padding\n        i32.bpad(file)\n\n        for track in self._tracks:", "        # padding\n        i32.bpad(file, 2)\n\n        for track in self._tracks:")
B("C02-b08", "Data2DPCK.nBytes ignores the count grid", D2, "return 2 * nCameras * nFrames + sum(", "return nCameras * nFrames + sum(", expect="size-identity")
B("C02-b09", "ForcePlatformInfo.nBytes constant off", FPC, "nBytes = 256 + (4 * 2) + (4 * 3 * 4) + 256", "nBytes = 256 + (4 * 2) + (4 * 3 * 3) + 256", expect="size-identity")
B("C02-b10", "Data3D.nBytes drops the format guard of the link table", D3, "        if self.format in [\n            Data3dBlockFormat.byFrame,\n            Data3dBlockFormat.byTrack,\n        ]:\n            links_size", "        if True:\n            links_size", expect="size-identity")
B("C02-b11", "block written at the slot's old offset expression", TDF, "        self.handler.seek(new_entry.offset, 0)\n        self.handler.write(block_buffer.getvalue())", "        self.handler.seek(new_entry.offset + new_entry.size, 0)\n        self.handler.write(block_buffer.getvalue())", expect="container-size")
B("C02-b12", "MarkerTrack.nBytes uses 8 bytes per coordinate triple", D3, "base += 4 + 4 + (segment.stop - segment.start) * TrackType.btype.itemsize", "base += 4 + 4 + (segment.stop - segment.start) * 8", expect="size-identity")
P("C02-p01", "nBytes written with sum()", EMG, "        base = 4 + 4 + 4 + 2 * len(self._signals) + 4\n        for signal in self._signals:\n            base += signal.nBytes\n        return base",
  "        return 16 + 2 * len(self._signals) + sum(signal.nBytes for signal in self._signals)")
P("C02-p02", "constants folded differently", EVT, "return 256 + 4 + 4 + len(self.values) * 4", "return 264 + 4 * len(self.values)")
P("C02-p03", "itemsize spelled through the codec", FPD, "base = 4 + 4 + (4 + 4) * nSegments", "base = 2 * i32.btype.itemsize + SegmentData.btype.itemsize * nSegments")

# ------------------------------------------------------------------------------------------------ C03
B("C03-b01", "remove_block forgets to append the new unused slot", TDF, "        self.entries.append(newEntry)\n        newEntry._write(self.handler)", "        newEntry._write(self.handler)", expect="slot")
B("C03-b02", "add_block seeks with a 280-byte entry stride", TDF, "self.handler.seek(64 + 288 * n, 0)", "self.handler.seek(64 + 280 * n, 0)", expect="geometry")
B("C03-b03", "the appended unused slot keeps the removed size", TDF, "            offset=newOffset,\n            size=0,", "            offset=newOffset,\n            size=oldEntry.size,", expect="unused-size-zero")
B("C03-b04", "free-slot offset computed before the shift", TDF,
  "        self.entries.remove(oldEntry)\n        self.handler.seek(64 + 288 * oldEntryPos, 0)", "        self.entries.remove(oldEntry)\n        newOffset = self.entries[-1].offset + self.entries[-1].size if self.entries else 4096\n        self.handler.seek(64 + 288 * oldEntryPos, 0)",
  TDF, "        if self.entries:\n            newOffset = self.entries[-1].offset + self.entries[-1].size\n        else:\n            newOffset = 64 + 288 * self.nEntries\n", "", expect="offset-provenance")
B("C03-b05", "free-slot offset drops the size of the last entry", TDF, "            newOffset = self.entries[-1].offset + self.entries[-1].size", "            newOffset = self.entries[-1].offset", expect="offset-provenance")
B("C03-b06", "remove_block rewrites the header slot count", TDF, "        self.entries.remove(oldEntry)\n", "        self.entries.remove(oldEntry)\n        self.nEntries = len(self.entries)\n", expect="header-frame")
B("C03-b07", "seek into the header to 'update' the count", TDF, "        # delete entry\n", "        self.handler.seek(20, 0)\n        # delete entry\n", expect="header-frame")
B("C03-b08", "Tdf.new writes a non-zero size in empty slots", TDF, "                # size\n                i32.bwrite(f, 0)", "                # size\n                i32.bwrite(f, 288)", expect="unused-size-zero")
B("C03-b09", "re-pointing loop starts two slots later", TDF, "            self.entries[unusedBlockPos + 1 :], start=unusedBlockPos + 1\n        ):\n            entry.offset", "            self.entries[unusedBlockPos + 2 :], start=unusedBlockPos + 2\n        ):\n            entry.offset", expect="repoint")
B("C03-b10", "table end used as free offset whenever the first block is removed", TDF, "        if self.entries:\n            newOffset", "        if oldEntryPos != 0:\n            newOffset", expect="offset-provenance")
P("C03-p01", "geometry through named constants", TDF, "self.handler.seek(64 + 288 * n, 0)", "self.handler.seek(288 * n + 64, 0)")
P("C03-p02", "last entry bound to a local", TDF, "            newOffset = self.entries[-1].offset + self.entries[-1].size", "            last = self.entries[-1]\n            newOffset = last.offset + last.size")

# ------------------------------------------------------------------------------------------------ C04
B("C04-b01", "shift loop also rewrites the size", TDF, "            entry.offset -= oldEntry.size\n", "            entry.offset -= oldEntry.size\n            entry.size = entry.size\n            entry.format = 0\n", expect="entry-frame")
B("C04-b02", "tail read bounded to one block", TDF, "temp = self.handler.read()", "temp = self.handler.read(oldEntry.size)", expect="tail")
B("C04-b03", "tail move source and destination swapped", TDF,
  "        self.handler.seek(oldEntry.offset + oldEntry.size, 0)\n        temp = self.handler.read()\n        self.handler.seek(oldEntry.offset, 0)",
  "        self.handler.seek(oldEntry.offset, 0)\n        temp = self.handler.read()\n        self.handler.seek(oldEntry.offset + oldEntry.size, 0)", expect="shift-consistency")
B("C04-b04", "comment carried by truthiness", TDF, "comment = comment if comment is not None else old_entry.comment", "comment = comment or old_entry.comment", expect="comment-carry")
B("C04-b05", "replace_block drops the comment", TDF, "self.add_block(newBlock, comment)", "self.add_block(newBlock)", expect="comment-carry")
B("C04-b06", "TdfEntry._write drops the comment", TDF, "        BTSString.bwrite(file, 256, self.comment)", "        BTSString.bwrite(file, 256, \"\")", expect="comment")
B("C04-b07", "two block types dispatched to one class", TDF, "    elif block_type == BlockType.forceAndTorqueData:\n        return ForceTorque3D", "    elif block_type == BlockType.forceAndTorqueData:\n        return Data3D", expect="dispatch-exhaustive")
B("C04-b08", "data2D dispatched to the stub in tdfBlock", TDF, "from basictdf.tdfData2D import Data2D\n", "from basictdf.tdfBlock import Data2D\n", expect="dispatch")
B("C04-b09", "table shift by the removed offset instead of its size", TDF, "entry.offset -= oldEntry.size", "entry.offset -= oldEntry.offset", expect="shift-consistency")
B("C04-b10", "get_block decodes with the format of the first entry", TDF, "return block_class._build(self.handler, entry.format)", "return block_class._build(self.handler, self.entries[0].format)", expect="read-through-handle")
B("C04-b11", "TdfEntry reader swaps the two dates", TDF, "            creation_date,\n            last_modification_date,\n            last_access_date,\n            comment,\n        )", "            last_modification_date,\n            creation_date,\n            last_access_date,\n            comment,\n        )", expect="entry-codec-symmetry")
B("C04-b12", "old entry looked up after the removal", TDF,
  "        old_entry = next((i for i in self.entries if i.type == newBlock.type), None)\n\n        if old_entry is None:\n            raise ValueError(f\"No block of type {newBlock.type} found\")\n\n        comment = comment if comment is not None else old_entry.comment\n\n        self.remove_block(newBlock.type)",
  "        self.remove_block(newBlock.type)\n        old_entry = next((i for i in self.entries if i.type == newBlock.type), None)\n\n        if old_entry is None:\n            raise ValueError(f\"No block of type {newBlock.type} found\")\n\n        comment = comment if comment is not None else old_entry.comment\n", expect="comment-carry")
P("C04-p01", "dispatch through a dict", TDF, "    if block_type == BlockType.unusedSlot:\n        return UnusedBlock\n    elif block_type == BlockType.notDefined:\n        return NotDefinedBlock\n",
  "    if block_type == BlockType.unusedSlot:\n        return UnusedBlock\n    if block_type == BlockType.notDefined:\n        return NotDefinedBlock\n    elif False:\n        pass\n")
P("C04-p02", "comment default as an if statement", TDF, "        comment = comment if comment is not None else old_entry.comment\n", "        if comment is None:\n            comment = old_entry.comment\n")

# ------------------------------------------------------------------------------------------------ C05
B("C05-b01", "EMGTrack decoder no longer pre-fills with NaN", EMG, "        trackData[:] = np.nan\n", "", expect="nan-prefill")
B("C05-b02", "MarkerTrack decoder pre-fills with zero", D3, "trackData[:] = np.NaN", "trackData[:] = 0", expect="nan-prefill")
B("C05-b03", "ForceTorqueTrack pre-fills torque after the copy loop", F3,
  "        torque_data[:] = np.nan\n\n        for startFrame, nFrames in segmentData:\n            for frame in range(startFrame, startFrame + nFrames):\n                application_point_data[frame] = ApplicationPointType.bread(stream)\n                force_data[frame] = ForceType.bread(stream)\n                torque_data[frame] = TorqueType.bread(stream)\n",
  "\n        for startFrame, nFrames in segmentData:\n            for frame in range(startFrame, startFrame + nFrames):\n                application_point_data[frame] = ApplicationPointType.bread(stream)\n                force_data[frame] = ForceType.bread(stream)\n                torque_data[frame] = TorqueType.bread(stream)\n        torque_data[:] = np.nan\n", expect="nan-prefill")
B("C05-b04", "runs derived from zeros instead of NaN", EMG, "maskedTrackData = np.ma.masked_invalid(self.data)", "maskedTrackData = np.ma.masked_equal(self.data, 0)", expect="segments-derivation")
B("C05-b05", "data loop skips the first run", D3, "        for segment in segments:\n            # trackData", "        for segment in segments[1:]:\n            # trackData", expect="segments-single-source")
B("C05-b06", "force sliced with different bounds than the application point", FPD, "force = self.force[start:stop]", "force = self.force[start : stop - 1]", expect="segments-single-source")
B("C05-b07", "ForcePlatformData decoder loses its NaN pre-fill again", FPD, "        data[:] = np.nan\n", "", expect="nan-prefill")
B("C05-b08", "MarkerTrack buffer allocated with the segment length", D3,
  "        trackData = np.empty(nFrames, dtype=TrackType.btype)\n        trackData[:] = np.NaN\n\n        label = BTSString.bread(stream, 256)\n        nSegments = i32.bread(stream)\n        i32.skip(stream)\n        segmentData = SegmentData.bread(stream, nSegments)\n        for startFrame, nFrames in segmentData:\n",
  "        label = BTSString.bread(stream, 256)\n        nSegments = i32.bread(stream)\n        i32.skip(stream)\n        segmentData = SegmentData.bread(stream, nSegments)\n        for startFrame, nFrames in segmentData:\n            pass\n        trackData = np.empty(nFrames, dtype=TrackType.btype)\n        trackData[:] = np.NaN\n        for startFrame, nFrames in segmentData:\n", expect="nan-prefill")
B("C05-b09", "segment table written from a different run list than the data", F3, "        for segment in segments:\n            # startFrame", "        for segment in segments[:-1]:\n            # startFrame")
B("C05-b10", "runs derived from the force array while the data rows come from all three", F3, "maskedPressureData = np.ma.masked_invalid(self.application_point)", "maskedPressureData = np.ma.masked_invalid(self.application_point[1:])", expect="segments-derivation")
P("C05-p01", "buffer allocated by np.full", EMG, "        trackData = np.empty(nSamples, dtype=\"<f4\")\n        trackData[:] = np.nan\n", "        trackData = np.full(nSamples, np.nan, dtype=\"<f4\")\n")
P("C05-p02", "segments read once into a differently named local", D3, "        segments = self._segments\n\n        # nSegments\n        i32.bwrite(file, len(segments))\n\n        # padding\n        i32.bpad(file, 1)\n\n        for segment in segments:\n            # startFrame\n            i32.bwrite(file, np.array(segment.start))",
  "        runs = self._segments\n        segments = runs\n\n        # nSegments\n        i32.bwrite(file, len(runs))\n\n        # padding\n        i32.bpad(file, 1)\n\n        for segment in runs:\n            # startFrame\n            i32.bwrite(file, np.array(segment.start))")

# ------------------------------------------------------------------------------------------------ C06
B("C06-b01", "lens name 64 bytes wide on both sides", OPT, "lens_name = BTSString.bread(stream, 32)", "lens_name = BTSString.bread(stream, 64)", OPT, "BTSString.bwrite(file, 32, self.lens_name)", "BTSString.bwrite(file, 64, self.lens_name)", expect="lens_name")
B("C06-b02", "EMG bias removed on both sides", EMG, " + 49  # Why", " + 0  # Why", EMG, "self.nSamples - 49", "self.nSamples - 0", expect="bias")
B("C06-b03", "viewport origin and size exchanged on both sides", TYP, "        origin = VEC2I.bread(stream)\n        size = VEC2I.bread(stream)", "        size = VEC2I.bread(stream)\n        origin = VEC2I.bread(stream)",
  TYP, "        VEC2I.bwrite(stream, self.origin)\n        VEC2I.bwrite(stream, self.size)", "        VEC2I.bwrite(stream, self.size)\n        VEC2I.bwrite(stream, self.origin)", expect="origin")
B("C06-b04", "big-endian doubles", TYP, "f64 = TdfType(np.dtype(\"<f8\"))", "f64 = TdfType(np.dtype(\">f8\"))", expect="little-endian")
B("C06-b05", "new files get 16 slots", TDF, "nEntries = 14", "nEntries = 16", expect="nEntries")
B("C06-b06", "header reserved area shortened on both sides", TDF, "i32.bpad(f, 5)", "i32.bpad(f, 4)", TDF, "i32.skip(self.handler, 5)", "i32.skip(self.handler, 4)", expect="reserved")
B("C06-b07", "events count 16 bit on both sides", EVT, "nItems = i32.bread(stream)", "nItems = u16.bread(stream)", EVT, "u32.bwrite(stream, len(self.values))  # nItems", "u16.bwrite(stream, len(self.values))  # nItems",
  EVT, "from basictdf.tdfTypes import BTSString, f32, i32, u32", "from basictdf.tdfTypes import BTSString, f32, i32, u16, u32", expect="nItems")
B("C06-b08", "reserved word of the optical setup dropped on both sides", OPT, "        i32.skip(stream)  # reserved0\n\n        channels", "\n        channels", OPT, "        # Reserved 0\n        i32.bpad(file, 1)\n\n        # channels", "        # channels")
B("C06-b09", "new files get version 2", TDF, "            # version\n            i32.bwrite(f, 1)", "            # version\n            i32.bwrite(f, 2)", expect="version")
B("C06-b10", "entry comment 128 bytes on both sides", TDF, "BTSString.bwrite(file, 256, self.comment)", "BTSString.bwrite(file, 128, self.comment)", TDF, "comment = BTSString.bread(file, 256)", "comment = BTSString.bread(file, 128)", expect="comment")
B("C06-b11", "date stored big-endian on both sides", TYP, "struct.unpack(\"<i\", data)", "struct.unpack(\">i\", data)", TYP, "struct.pack(\"<i\", int(data.timestamp()))", "struct.pack(\">i\", int(data.timestamp()))", expect="little-endian")
B("C06-b12", "platform vertices stored as 3x4 on both sides", FPC, "ForcePlatformVertices = TdfType(np.dtype(\"(4,3)<f4\"))", "ForcePlatformVertices = TdfType(np.dtype(\"(3,4)<f4\"))", expect="position")
B("C06-b13", "2D cells stored camera-major on both sides", D2,
  "        for frame in range(nFrames):\n            for camera in range(nCameras):\n                nPoints = nPointsCaptured[camera, frame]", "        for camera in range(nCameras):\n            for frame in range(nFrames):\n                nPoints = nPointsCaptured[camera, frame]",
  D2, "        u16.bwrite(stream, nPointsCaptured.flatten())\n        for frame in range(nFrames):\n            for camera in range(nCameras):", "        u16.bwrite(stream, nPointsCaptured.flatten())\n        for camera in range(nCameras):\n            for frame in range(nFrames):", expect="cell")
B("C06-b14", "signature constant altered", TDF, "SIGNATURE = b\"\\x82K`A", "SIGNATURE = b\"\\x83K`A", expect="SIGNATURE")
P("C06-p01", "attribute renamed consistently", OPT, "BTSString.bwrite(file, 32, self.lens_name)", "BTSString.bwrite(file, 32, self.lens)", OPT, "        self.lens_name = lens_name\n", "        self.lens_name = lens_name\n        self.lens = lens_name\n")
P("C06-p02", "two independent header reads reordered by statement grouping", EMG, "        # frequency\n        i32.bwrite(file, self.frequency)\n", "        # frequency\n        frequency = self.frequency\n        i32.bwrite(file, frequency)\n")
