"""E0 class facts: __init__ attribute summaries (with guards), attribute kinds, adder summaries,
element types of container attributes, property expansion."""
from __future__ import annotations

import ast
import copy

from .index import ClassInfo, FuncInfo, Program, is_self_attr, walk_no_nested
from .report import AnalysisError, norm
from .sym import C, N, Ctx, simplify, subst


class InitSummary:
    """Result of abstractly evaluating __init__: attr -> expression over parameter names;
    guards: list of (test node, raises exception name, stmt) in order; order of stores."""

    def __init__(self):
        self.attrs = {}  # attr -> expr (params as Names; IfExp = phi)
        self.stores = []  # (attr, stmt)
        self.guards = []  # (cond ast (already substituted), exc, stmt, position index)
        self.params = []
        self.defaults = {}
        self.super_kwargs = False


def init_summary(prog: Program, c: ClassInfo) -> InitSummary:
    s = InitSummary()
    f = None
    for k in prog.mro(c):
        f = k.get("__init__")
        if f:
            break
    if f is None:
        return s
    s.params = f.params
    s.defaults = f.defaults()
    sn = f.self_name or "self"
    ctx = Ctx(prog, f.module, f.cls)
    env = {}
    pos = [0]

    def ev(n):
        return simplify(subst(n, env), ctx)

    def block(stmts, env):
        """returns (env, terminated_by_raise)"""
        nonlocal_env = env
        for st in stmts:
            if isinstance(st, (ast.Assign, ast.AnnAssign)):
                targets = st.targets if isinstance(st, ast.Assign) else [st.target]
                if st.value is None:
                    continue
                v = simplify(subst(st.value, nonlocal_env), ctx)
                for t in targets:
                    if isinstance(t, ast.Name):
                        nonlocal_env[t.id] = v
                    elif is_self_attr(t, self_name=sn):
                        nonlocal_env["self." + t.attr] = v
                        s.stores.append((t.attr, st))
            elif isinstance(st, ast.If):
                cond = simplify(subst(st.test, nonlocal_env), ctx)
                e1, r1 = block(st.body, dict(nonlocal_env))
                e2, r2 = block(st.orelse, dict(nonlocal_env))
                if r1 and not r2:
                    s.guards.append((cond, _exc_of(st.body), st))
                    nonlocal_env = e2
                elif r2 and not r1:
                    neg = ast.UnaryOp(op=ast.Not(), operand=cond)
                    s.guards.append((neg, _exc_of(st.orelse), st))
                    nonlocal_env = e1
                elif r1 and r2:
                    return nonlocal_env, True
                else:
                    merged = {}
                    for k in set(e1) | set(e2):
                        a, b = e1.get(k), e2.get(k)
                        if (a is None or b is None) and not k.startswith("self."):
                            # a local (parameter) rebound on one side only keeps its old value on the other
                            a = a if a is not None else ast.Name(id=k, ctx=ast.Load())
                            b = b if b is not None else ast.Name(id=k, ctx=ast.Load())
                        if a is None or b is None:
                            merged[k] = a if a is not None else b
                        elif norm(a) == norm(b):
                            merged[k] = a
                        else:
                            merged[k] = ast.IfExp(test=cond, body=a, orelse=b)
                    nonlocal_env = merged
            elif isinstance(st, ast.Raise):
                return nonlocal_env, True
            elif isinstance(st, ast.Expr) and isinstance(st.value, ast.Call):
                if norm(st.value.func) == "super().__init__":
                    s.super_kwargs = True
        return nonlocal_env, False

    def _exc_of(stmts):
        for st in stmts:
            if isinstance(st, ast.Raise) and st.exc is not None:
                e = st.exc.func if isinstance(st.exc, ast.Call) else st.exc
                return norm(e)
        return ""

    envf, _ = block(f.node.body, env)
    for k, v in envf.items():
        if k.startswith("self."):
            s.attrs[k[5:]] = v
    return s


def attr_kinds(prog: Program, c: ClassInfo):
    """attr -> {'kind': seq|fixed|frames|scalar, 'shape': tuple|None, 'guarded': bool, 'param': name|None}"""
    out = {}
    summ = init_summary(prog, c)
    usage_seq, usage_frames = set(), set()
    for f in c.all_funcs():
        sn = f.self_name or "self"
        for n in walk_no_nested(f.node):
            if isinstance(n, ast.Call):
                fn = norm(n.func)
                if fn in ("len", "iter", "enumerate", "sum", "max", "min", "list") and n.args and is_self_attr(n.args[0], self_name=sn):
                    usage_seq.add(n.args[0].attr)
                if fn == "zip":
                    for a in n.args:
                        if is_self_attr(a, self_name=sn):
                            usage_seq.add(a.attr)
                if isinstance(n.func, ast.Attribute) and n.func.attr in ("append", "remove", "insert", "index", "pop", "extend") and is_self_attr(n.func.value, self_name=sn):
                    usage_seq.add(n.func.value.attr)
                if fn in ("np.ma.masked_invalid", "numpy.ma.masked_invalid") and n.args and is_self_attr(n.args[0], self_name=sn):
                    usage_frames.add(n.args[0].attr)
            if isinstance(n, (ast.For, ast.comprehension)) and is_self_attr(n.iter, self_name=sn):
                usage_seq.add(n.iter.attr)
            if isinstance(n, ast.Attribute) and n.attr == "shape" and is_self_attr(n.value, self_name=sn):
                usage_frames.add(n.value.attr)
            if isinstance(n, ast.Delete):
                for t in n.targets:
                    if isinstance(t, ast.Subscript) and is_self_attr(t.value, self_name=sn):
                        usage_seq.add(t.value.attr)
    for a, v in summ.attrs.items():
        info = {"kind": "scalar", "shape": None, "guarded": False, "param": None, "value": v}
        vv = v
        if isinstance(vv, ast.BoolOp) and isinstance(vv.op, ast.Or):
            # `platforms or []`
            if any(isinstance(x, (ast.List, ast.ListComp)) for x in vv.values):
                info["kind"] = "seq"
        if isinstance(vv, (ast.List, ast.ListComp, ast.Tuple)):
            info["kind"] = "seq"
        if isinstance(vv, ast.Name) and vv.id in summ.params:
            info["param"] = vv.id
            shp = guard_shape(prog, c, summ, vv.id)
            if shp is not None:
                info["kind"], info["shape"], info["guarded"] = "fixed", shp, True
            elif guard_rank1(summ, vv.id) or guard_len(summ, vv.id):
                info["kind"] = "seq"
        if info["kind"] == "scalar":
            if a in usage_frames:
                info["kind"] = "frames"
            elif a in usage_seq:
                info["kind"] = "seq"
        out[a] = info
    return out


def guard_len(summ: InitSummary, p: str):
    for cond, exc, st in summ.guards:
        for n in ast.walk(cond):
            if isinstance(n, ast.Call) and norm(n.func) == "len" and n.args and norm(n.args[0]) == p:
                return True
    return False


def guard_rank1(summ: InitSummary, p: str):
    for cond, exc, st in summ.guards:
        for n in ast.walk(cond):
            if isinstance(n, ast.Compare) and norm(n.left) == f"len({p}.shape)":
                return True
    return False


def shape_of_expr(prog, c: ClassInfo, node):
    """Evaluate a shape expression: tuple literal or T.btype.shape -> tuple | None"""
    if isinstance(node, ast.Tuple):
        try:
            return tuple(ast.literal_eval(node))
        except Exception:
            return None
    if isinstance(node, ast.Attribute) and node.attr == "shape" and isinstance(node.value, ast.Attribute) and node.value.attr == "btype" and isinstance(node.value.value, ast.Name):
        cod = prog.codec(c.module, node.value.value.id)
        if cod:
            return tuple(cod[1].shape)
    return None


def guard_shape(prog: Program, c: ClassInfo, summ: InitSummary, p: str):
    """Shape demanded of parameter p by a raising guard in __init__ (None if no such guard)."""
    for cond, exc, st in summ.guards:
        for n in ast.walk(cond):
            if isinstance(n, ast.Compare) and len(n.ops) == 1 and norm(n.left) == f"{p}.shape":
                shp = shape_of_expr(prog, c, n.comparators[0])
                if shp is not None:
                    return shp
    return None


def adder_summary(prog: Program, c: ClassInfo, meth: str):
    """Which parameters of method `meth` get appended to which self attributes.
    Returns {attr: [value exprs appended (over param names)]}"""
    f = prog.lookup_method(c, meth)
    out = {}
    if f is None:
        return None
    sn = f.self_name or "self"
    # every value that can reach an append on some path, locals substituted and conditional expressions split
    seen = set()
    try:
        paths = path_returns(f.node)
    except AnalysisError:
        paths = []
    for pe in paths:
        for e in pe.effects:
            for n in ast.walk(e):
                if isinstance(n, ast.Call) and isinstance(n.func, ast.Attribute) and n.func.attr == "append" and is_self_attr(n.func.value, self_name=sn) and len(n.args) == 1:
                    for _, v in split_ifexp(n.args[0]):
                        k = (n.func.value.attr, norm(v))
                        if k not in seen:
                            seen.add(k)
                            out.setdefault(n.func.value.attr, []).append(v)
    if not paths:
        for n in walk_no_nested(f.node):
            if isinstance(n, ast.Call) and isinstance(n.func, ast.Attribute) and n.func.attr == "append" and is_self_attr(n.func.value, self_name=sn) and len(n.args) == 1:
                out.setdefault(n.func.value.attr, []).append(n.args[0])
    return f, out


def element_class(prog: Program, c: ClassInfo, attr: str):
    """Element class of container attribute `attr`: from isinstance guards in methods that append to it,
    or from comprehensions over K._build in the decoder."""
    found = []
    for f in c.all_funcs():
        sn = f.self_name or "self"
        appended = []
        for n in walk_no_nested(f.node):
            if isinstance(n, ast.Call) and isinstance(n.func, ast.Attribute) and n.func.attr == "append" and is_self_attr(n.func.value, attr, sn) and n.args and isinstance(n.args[0], ast.Name):
                appended.append(n.args[0].id)
        if not appended:
            continue
        for n in walk_no_nested(f.node):
            if isinstance(n, ast.Call) and norm(n.func) == "isinstance" and len(n.args) == 2 and isinstance(n.args[0], ast.Name) and n.args[0].id in appended and isinstance(n.args[1], ast.Name):
                k = prog.resolve_class(c.module, n.args[1].id)
                if k:
                    found.append(k)
    b = c.get("_build")
    if b:
        for n in walk_no_nested(b.node):
            if isinstance(n, ast.Assign) and len(n.targets) == 1 and isinstance(n.targets[0], ast.Attribute) and n.targets[0].attr == attr and isinstance(n.value, ast.ListComp):
                e = n.value.elt
                if isinstance(e, ast.Call) and isinstance(e.func, ast.Attribute) and isinstance(e.func.value, ast.Name):
                    k = prog.resolve_class(c.module, e.func.value.id)
                    if k:
                        found.append(k)
    names = {k.name for k in found}
    if len(names) == 1:
        return found[0]
    return None


def property_body_expr(prog: Program, c: ClassInfo, name: str):
    """If `name` is a @property of c whose body is straight-line assignments + return, return the
    returned expression with locals substituted (over self)."""
    f = c.get(name, "getter")
    if f is None:
        return None
    env = {}
    ctx = Ctx(prog, f.module, c)
    for st in f.node.body:
        if isinstance(st, ast.Expr) and isinstance(st.value, ast.Constant):
            continue
        if isinstance(st, ast.Assign) and len(st.targets) == 1 and isinstance(st.targets[0], ast.Name):
            env[st.targets[0].id] = subst(st.value, env)
            continue
        if isinstance(st, ast.Return) and st.value is not None:
            return subst(st.value, env)
        return None
    return None


# ------------------------------------------------------------------------------------------------------------------
# Path summaries: every way a (loop-free at the relevant places) function can end, with locals substituted.
class PathEnd:
    __slots__ = ("guards", "kind", "value", "node", "effects")

    def __init__(self, guards, kind, value, node, effects):
        self.guards, self.kind, self.value, self.node, self.effects = guards, kind, value, node, effects

    def __repr__(self):
        g = " and ".join(("" if pol else "not ") + "(" + ast.unparse(t) + ")" for t, pol in self.guards)
        return f"<{self.kind} {ast.unparse(self.value) if self.value is not None else None} if {g or 'True'}>"


def _subst_env(node, env):
    import copy as _copy

    class S(ast.NodeTransformer):
        def visit_Name(self, n):
            if isinstance(n.ctx, ast.Load) and n.id in env:
                return _copy.deepcopy(env[n.id])
            return n

        def _comp(self, n):
            bound = {x.id for g in n.generators for x in ast.walk(g.target) if isinstance(x, ast.Name)}
            saved = {b: env.pop(b) for b in list(bound) if b in env}
            try:
                self.generic_visit(n)
            finally:
                env.update(saved)
            return n

        visit_ListComp = visit_GeneratorExp = visit_SetComp = visit_DictComp = _comp

    return S().visit(_copy.deepcopy(node))


def _static_truth(t):
    """True / False when the test is decided by its own text (`None is None`, `<constructed object> is not None`), else None"""
    if isinstance(t, ast.Constant):
        return bool(t.value)
    if isinstance(t, ast.UnaryOp) and isinstance(t.op, ast.Not):
        v = _static_truth(t.operand)
        return None if v is None else not v
    if isinstance(t, ast.Compare) and len(t.ops) == 1 and isinstance(t.ops[0], (ast.Is, ast.IsNot)) and isinstance(t.comparators[0], ast.Constant) and t.comparators[0].value is None:
        l = t.left
        is_none = None
        if isinstance(l, ast.Constant):
            is_none = l.value is None
        elif isinstance(l, (ast.List, ast.Tuple, ast.Dict, ast.Set, ast.ListComp, ast.JoinedStr)):
            is_none = False
        elif isinstance(l, ast.Call) and isinstance(l.func, ast.Name) and l.func.id[:1].isupper():
            is_none = False  # a constructor call yields an object
        if is_none is None:
            return None
        return is_none if isinstance(t.ops[0], ast.Is) else not is_none
    return None


def path_returns(fn, limit=256, assign_calls=False):
    """Enumerate the ends of a function: [(guards, 'return'|'raise'|'fall', value expr with locals substituted)].
    Loops are entered once (their assignments make the assigned names opaque afterwards); `effects` lists the expression
    statements (calls) met on the path, substituted."""
    out = []

    def run(stmts, env, guards, effects, k):
        """k: continuation called with (env, guards, effects) when the block falls through"""
        if not stmts:
            return k(env, guards, effects)
        st, rest = stmts[0], stmts[1:]
        if len(out) > limit:
            raise AnalysisError(f"{fn.name}: more than {limit} paths")
        nxt = lambda e, g, f: run(rest, e, g, f, k)
        if isinstance(st, ast.Return):
            out.append(PathEnd(guards, "return", _subst_env(st.value, env) if st.value is not None else None, st, effects))
            return
        if isinstance(st, ast.Raise):
            out.append(PathEnd(guards, "raise", _subst_env(st.exc, env) if st.exc is not None else None, st, effects))
            return
        if isinstance(st, (ast.Assign, ast.AnnAssign)):
            val = st.value
            tg = st.targets if isinstance(st, ast.Assign) else [st.target]
            env = dict(env)
            if val is not None:
                v = _subst_env(val, env)
                for t in tg:
                    if isinstance(t, ast.Name):
                        env[t.id] = v
                        if assign_calls and any(isinstance(x, ast.Call) for x in ast.walk(v)):
                            # the call happens here whether or not the local is used later
                            effects = effects + [ast.Expr(value=v)]
                    elif isinstance(t, ast.Tuple) and isinstance(v, ast.Tuple) and len(t.elts) == len(v.elts):
                        for a, b in zip(t.elts, v.elts):
                            if isinstance(a, ast.Name):
                                env[a.id] = b
                    else:
                        for x in ast.walk(t):
                            if isinstance(x, ast.Name) and isinstance(x.ctx, ast.Store):
                                env[x.id] = ast.Name(id=f"?{x.id}", ctx=ast.Load())
                        if not isinstance(t, ast.Name):
                            effects = effects + [ast.Assign(targets=[_subst_env(t, env)], value=v, lineno=st.lineno)]
            return nxt(env, guards, effects)
        if isinstance(st, ast.AugAssign):
            env = dict(env)
            if isinstance(st.target, ast.Name):
                cur = env.get(st.target.id, ast.Name(id=st.target.id, ctx=ast.Load()))
                env[st.target.id] = ast.BinOp(left=cur, op=st.op, right=_subst_env(st.value, env))
            else:
                effects = effects + [_subst_env(st, env)]
            return nxt(env, guards, effects)
        if isinstance(st, ast.If):
            t = _subst_env(st.test, env)
            known = _static_truth(t)
            if known is not False:
                run(st.body, env, guards + ([(t, True)] if known is None else []), effects, nxt)
            if known is not True:
                run(st.orelse, env, guards + ([(t, False)] if known is None else []), effects, nxt)
            return
        if isinstance(st, (ast.For, ast.While)):
            env2 = dict(env)
            for x in ast.walk(st):
                if isinstance(x, ast.Name) and isinstance(x.ctx, ast.Store):
                    env2[x.id] = ast.Name(id=f"?{x.id}", ctx=ast.Load())
            hdr = _subst_env(st.iter if isinstance(st, ast.For) else st.test, env)
            # ends reached from inside the loop body
            run(st.body, env2, guards + [(ast.Call(func=ast.Name(id="__loop__", ctx=ast.Load()), args=[hdr], keywords=[]), True)], effects, lambda e, g, f: None)
            mark = ast.Expr(value=ast.Call(func=ast.Name(id="__loop__", ctx=ast.Load()), args=[hdr], keywords=[]))
            mark._loop = st       # the loop statement, for rules that look into the body
            eff = effects + [mark]
            return run(st.orelse, env2, guards, eff, nxt)
        if isinstance(st, ast.Try):
            run(st.body + st.orelse, env, guards, effects, lambda e, g, f: run(st.finalbody, e, g, f, nxt))
            env2 = dict(env)
            for x in ast.walk(ast.Module(body=st.body, type_ignores=[])):
                if isinstance(x, ast.Name) and isinstance(x.ctx, ast.Store):
                    env2[x.id] = ast.Name(id=f"?{x.id}", ctx=ast.Load())
            for hd in st.handlers:
                ex = ast.Call(func=ast.Name(id="__except__", ctx=ast.Load()), args=[hd.type] if hd.type is not None else [], keywords=[])
                ex._try = st
                run(hd.body, env2, guards + [(ex, True)], effects, lambda e, g, f: run(st.finalbody, e, g, f, nxt))
            return
        if isinstance(st, ast.With):
            env = dict(env)
            for it in st.items:
                ce = _subst_env(it.context_expr, env)
                effects = effects + [ast.Expr(value=ce)]
                if isinstance(it.optional_vars, ast.Name):
                    env[it.optional_vars.id] = ast.Name(id=f"?{it.optional_vars.id}", ctx=ast.Load())
            return run(st.body, env, guards, effects, nxt)
        if isinstance(st, ast.Expr):
            if not (isinstance(st.value, ast.Constant)):
                effects = effects + [ast.Expr(value=_subst_env(st.value, env))]
            return nxt(env, guards, effects)
        if isinstance(st, ast.Assert):
            return run(rest, env, guards + [(_subst_env(st.test, env), True)], effects, k)
        return nxt(env, guards, effects)

    def fall(env, guards, effects):
        out.append(PathEnd(guards, "fall", None, fn, effects))

    run(list(fn.body), {}, [], [], fall)
    return out


def split_ifexp(expr):
    """[(conds, leaf expr)] for nested conditional expressions"""
    if isinstance(expr, ast.IfExp):
        out = []
        for c, e in split_ifexp(expr.body):
            out.append(([(expr.test, True)] + c, e))
        for c, e in split_ifexp(expr.orelse):
            out.append(([(expr.test, False)] + c, e))
        return out
    return [([], expr)]


def decide_under(expr, guards):
    """`expr` with every conditional sub-expression whose test is one of the path's guards (same text; `not` stripped) replaced by
    the arm that guard selects - on that path the other arm is not evaluated"""
    import copy as _copy
    known = {}
    for t, pol in flat_facts(guards):
        known[ast.dump(t)] = pol

    class D(ast.NodeTransformer):
        def visit_IfExp(self, n):
            self.generic_visit(n)
            t, flip = n.test, False
            while isinstance(t, ast.UnaryOp) and isinstance(t.op, ast.Not):
                t, flip = t.operand, not flip
            k = known.get(ast.dump(t))
            if k is None:
                return n
            return n.body if (k != flip) else n.orelse

    return D().visit(_copy.deepcopy(expr))


def return_leaves(fn):
    """all (guards, value) a function can return, conditional expressions split"""
    out = []
    for pe in path_returns(fn):
        if pe.kind == "return" and pe.value is not None:
            for c, e in split_ifexp(pe.value):
                out.append((pe.guards + c, decide_under(e, pe.guards + c), pe))
        elif pe.kind in ("return", "fall"):
            out.append((pe.guards, None, pe))
    return out


def inline_self_calls(prog, cls, expr, depth=3):
    """replace self.m(args) by the body expression of m when m is a plain method of cls consisting of a single return"""
    import copy as _copy
    if depth == 0:
        return expr

    class X(ast.NodeTransformer):
        def visit_Call(self, n):
            self.generic_visit(n)
            f = n.func
            if isinstance(f, ast.Attribute) and isinstance(f.value, ast.Name) and f.value.id == "self":
                ms = prog.lookup_method(cls, f.attr)
                if ms is not None and ms.kind == "method":
                    body = [s for s in ms.node.body if not (isinstance(s, ast.Expr) and isinstance(s.value, ast.Constant))]
                    if len(body) == 1 and isinstance(body[0], ast.Return) and body[0].value is not None:
                        params = [a.arg for a in ms.node.args.args][1:]
                        defaults = ms.node.args.defaults
                        env = {}
                        dmap = dict(zip(params[len(params) - len(defaults):], defaults))
                        for p, a in zip(params, n.args):
                            env[p] = a
                        for kw in n.keywords:
                            if kw.arg in params:
                                env[kw.arg] = kw.value
                        for p in params:
                            if p not in env:
                                if p not in dmap:
                                    return n
                                env[p] = dmap[p]
                        return inline_self_calls(prog, cls, _subst_env(body[0].value, env), depth - 1)
            return n

    return X().visit(_copy.deepcopy(expr))


def flat_facts(guards):
    """atomic (test, polarity) facts implied by a list of path guards: `not` flips, a true conjunction / false disjunction
    splits; comparison operators are left as they are (use compare_fact to read them)"""
    out = []

    def flat(t, pol):
        if isinstance(t, ast.UnaryOp) and isinstance(t.op, ast.Not):
            return flat(t.operand, not pol)
        if isinstance(t, ast.BoolOp) and ((isinstance(t.op, ast.And) and pol) or (isinstance(t.op, ast.Or) and not pol)):
            for v in t.values:
                flat(v, pol)
            return
        if isinstance(t, ast.BoolOp):
            # a false conjunction / true disjunction: a clause, resolved below against the unit facts
            clauses.append([(v, pol) for v in t.values])
            return
        out.append((t, pol))

    clauses = []
    for t, pol in guards:
        flat(t, pol)
    # unit resolution: in `not (A and B)` with A known to hold, B fails (same-text tests of a path agree, as in _static_truth)
    changed = True
    while changed and clauses:
        changed = False
        known = {}
        for t, pol in out:
            known[ast.dump(t)] = pol
        for cl in list(clauses):
            rest = []
            sat = False
            for v, pol in cl:
                neg = 0
                w = v
                while isinstance(w, ast.UnaryOp) and isinstance(w.op, ast.Not):
                    w = w.operand
                    neg ^= 1
                want = pol ^ bool(neg)
                k = known.get(ast.dump(w))
                if k is None:
                    rest.append((v, pol))
                elif k == want:
                    sat = True
            if sat:
                clauses.remove(cl)
            elif len(rest) == 1:
                clauses.remove(cl)
                flat(*rest[0])
                changed = True
    return out


def equality_fact(t, pol):
    """(left, right, equal?) when the fact states that two expressions are equal / different"""
    if isinstance(t, ast.Compare) and len(t.ops) == 1 and isinstance(t.ops[0], (ast.Eq, ast.NotEq)):
        eq = isinstance(t.ops[0], ast.Eq)
        return t.left, t.comparators[0], (eq if pol else not eq)
    return None


def self_mutations(effects, sn="self"):
    """effect nodes (from path_returns) that change the object: stores into self.<...> and mutating calls on self.<attr>"""
    out = []
    for e in effects:
        if isinstance(e, (ast.Assign, ast.AugAssign)):
            for t in (e.targets if isinstance(e, ast.Assign) else [e.target]):
                base = t
                while isinstance(base, (ast.Attribute, ast.Subscript)):
                    base = base.value
                if isinstance(base, ast.Name) and base.id == sn:
                    out.append(e)
        for x in ast.walk(e):
            if isinstance(x, ast.Call) and isinstance(x.func, ast.Attribute) and x.func.attr in ("append", "insert", "extend", "remove", "pop", "clear", "sort", "reverse") \
                    and is_self_attr(x.func.value, self_name=sn):
                out.append(e)
    return out


def type_facts(guards, param):
    """{type text: bool} - what the path's guards say about isinstance(param, T); a true disjunction whose other members are
    known false yields its last member (unit propagation), so `if not (A or B): raise` followed by `if A: .. else: ..` gives
    B on the else path"""
    known = {}
    disj = []  # lists of (atom, wanted polarity) of which at least one holds

    def isinst(t):
        if isinstance(t, ast.Call) and norm(t.func) == "isinstance" and len(t.args) == 2 and norm(t.args[0]) == param:
            if isinstance(t.args[1], ast.Tuple):
                return None
            return norm(t.args[1])
        if isinstance(t, ast.Compare) and len(t.ops) == 1 and isinstance(t.ops[0], (ast.Is, ast.Eq)) and isinstance(t.left, ast.Call) and norm(t.left.func) == "type" \
                and len(t.left.args) == 1 and norm(t.left.args[0]) == param:
            return norm(t.comparators[0])
        return None

    def walk(t, pol):
        if isinstance(t, ast.UnaryOp) and isinstance(t.op, ast.Not):
            return walk(t.operand, not pol)
        if isinstance(t, ast.BoolOp):
            conj = (isinstance(t.op, ast.And) and pol) or (isinstance(t.op, ast.Or) and not pol)
            if conj:
                for v in t.values:
                    walk(v, pol)
            else:
                disj.append([(v, pol) for v in t.values])
            return
        if isinstance(t, ast.Call) and norm(t.func) == "isinstance" and len(t.args) == 2 and norm(t.args[0]) == param and isinstance(t.args[1], ast.Tuple):
            if pol:
                disj.append([(ast.Call(func=t.func, args=[t.args[0], e], keywords=[]), True) for e in t.args[1].elts])
            else:
                for e in t.args[1].elts:
                    known[norm(e)] = False
            return
        k = isinst(t)
        if k is not None:
            known[k] = pol

    for t, pol in guards:
        walk(t, pol)
    changed = True
    while changed:
        changed = False
        for d in disj:
            open_ = []
            sat = False
            for v, pol in d:
                vv, pp = v, pol
                while isinstance(vv, ast.UnaryOp) and isinstance(vv.op, ast.Not):
                    vv, pp = vv.operand, not pp
                k = isinst(vv)
                if k is None:
                    open_.append(None)
                elif k in known:
                    if known[k] == pp:
                        sat = True
                else:
                    open_.append((k, pp))
            if not sat and len(open_) == 1 and open_[0] is not None and open_[0][0] not in known:
                known[open_[0][0]] = open_[0][1]
                changed = True
    return known


def range_facts(guards, key: str, length: str):
    """(lower, upper): whether the path's guards establish  0 <= key  and  key < length  (texts of the expressions)"""
    lower = upper = False
    zero = ("0",)

    def rel(a, op, b, pol):
        """normalised relation text  a OP b  that is known to hold"""
        neg = {ast.Lt: ast.GtE, ast.GtE: ast.Lt, ast.Gt: ast.LtE, ast.LtE: ast.Gt, ast.Eq: ast.NotEq, ast.NotEq: ast.Eq}
        if not pol:
            if type(op) not in neg:
                return None
            op = neg[type(op)]()
        return norm(a).replace(" ", ""), type(op), norm(b).replace(" ", "")

    def feed(r):
        nonlocal lower, upper
        if r is None:
            return
        a, op, b = r
        k, L = key.replace(" ", ""), length.replace(" ", "")
        if (a in zero and b == k and op is ast.LtE) or (a == k and b in zero and op is ast.GtE) or (a == k and b == "-1" and op is ast.Gt) or (a == "-1" and b == k and op is ast.Lt):
            lower = True
        if (a == k and b == L and op is ast.Lt) or (a == L and b == k and op is ast.Gt) or (a == k and b == L + "-1" and op is ast.LtE) or (a == L + "-1" and b == k and op is ast.GtE):
            upper = True

    for t, pol in flat_facts(guards):
        if isinstance(t, ast.Compare):
            # key in range(length)  /  key in range(0, length): for an integer key that is 0 <= key < length (callers use this on the integer paths)
            if len(t.ops) == 1 and isinstance(t.ops[0], (ast.In, ast.NotIn)) and isinstance(t.comparators[0], ast.Call) and norm(t.comparators[0].func) == "range" \
                    and not t.comparators[0].keywords and norm(t.left).replace(" ", "") == key.replace(" ", ""):
                ra = t.comparators[0].args
                if (len(ra) == 1 or (len(ra) == 2 and norm(ra[0]) == "0")) and norm(ra[-1]).replace(" ", "") == length.replace(" ", "") and (isinstance(t.ops[0], ast.In) == pol):
                    lower = upper = True
                continue
            if len(t.ops) == 1:
                feed(rel(t.left, t.ops[0], t.comparators[0], pol))
            elif pol:
                items = [t.left] + list(t.comparators)
                for a, op, b in zip(items, t.ops, items[1:]):
                    feed(rel(a, op, b, True))
    return lower, upper


def consistent_assignments(guards, atoms):
    """atoms: {name: recogniser(expr) -> True/False/None}, where a recogniser says whether an expression IS the atom (True), its
    negation (False) or something else (None). Returns the set of assignments (tuples of booleans in the order of `atoms`)
    under which every guard of the path can have its recorded outcome; sub-expressions that are no atom are unconstrained."""
    import itertools
    names = list(atoms)

    def ev(e, asg):
        for i, n_ in enumerate(names):
            r = atoms[n_](e)
            if r is True:
                return asg[i]
            if r is False:
                return not asg[i]
        if isinstance(e, ast.UnaryOp) and isinstance(e.op, ast.Not):
            v = ev(e.operand, asg)
            return None if v is None else not v
        if isinstance(e, ast.BoolOp):
            vals = [ev(v, asg) for v in e.values]
            if isinstance(e.op, ast.And):
                if any(v is False for v in vals):
                    return False
                return True if all(v is True for v in vals) else None
            if any(v is True for v in vals):
                return True
            return False if all(v is False for v in vals) else None
        if isinstance(e, ast.Constant):
            return bool(e.value)
        return None

    out = set()
    for asg in itertools.product((True, False), repeat=len(names)):
        okk = True
        for t, pol in guards:
            v = ev(t, asg)
            if v is not None and v != pol:
                okk = False
                break
        if okk:
            out.add(asg)
    return out


def template_call_is_total(module_tree, y, class_node=None):
    """`TEMPLATE.format(a, b, k=c)` / `TEMPLATE % (a, b)` cannot raise on its own when TEMPLATE is a string constant bound once at
    module (or class) level - so it contains none of the caller's text -, its replacement fields are plain (`{}` / `{0}` / `{name}`,
    conversions !r !s, no attribute / index lookup, no format spec; `%s` / `%r` only) and agree in number / name with the
    arguments, and the arguments are names, attributes, constants or type() / len() / repr() / str() of those."""
    import string

    def const_of(t):
        name = t.id if isinstance(t, ast.Name) else (t.attr if isinstance(t, ast.Attribute) and isinstance(t.value, ast.Name) and t.value.id in ("self", "cls") or
                                                     (isinstance(t, ast.Attribute) and class_node is not None and isinstance(t.value, ast.Name) and t.value.id == class_node.name) else None)
        if isinstance(t, ast.Constant) and isinstance(t.value, str):
            return t.value
        if name is None:
            return None
        bodies = [module_tree.body] + ([class_node.body] if class_node is not None and not isinstance(t, ast.Name) else [])
        for body in bodies:
            defs = [st for st in body if isinstance(st, (ast.Assign, ast.AnnAssign)) and any(isinstance(x, ast.Name) and x.id == name for x in (st.targets if isinstance(st, ast.Assign) else [st.target]))]
            if len(defs) == 1 and isinstance(defs[0].value, ast.Constant) and isinstance(defs[0].value.value, str):
                # never rebound anywhere else in the module
                stores = [x for x in ast.walk(module_tree) if isinstance(x, ast.Name) and x.id == name and isinstance(x.ctx, ast.Store)]
                if len(stores) <= 1:
                    return defs[0].value.value
        return None

    def plain(a):
        if isinstance(a, (ast.Name, ast.Constant)):
            return True
        if isinstance(a, ast.Attribute):
            return plain(a.value)
        if isinstance(a, ast.Call) and isinstance(a.func, ast.Name) and a.func.id in ("type", "len", "repr", "str") and len(a.args) == 1 and not a.keywords:
            return plain(a.args[0])
        return False

    if isinstance(y, ast.Call) and isinstance(y.func, ast.Attribute) and y.func.attr == "format":
        tmpl = const_of(y.func.value)
        if tmpl is None or not all(plain(a) for a in y.args) or not all(k.arg and plain(k.value) for k in y.keywords):
            return False
        try:
            fields = list(string.Formatter().parse(tmpl))
        except ValueError:
            return False
        auto = 0
        for _, fname, spec, conv in fields:
            if fname is None:
                continue
            if spec or conv not in (None, "r", "s"):
                return False
            if fname == "":
                if auto >= len(y.args):
                    return False
                auto += 1
            elif fname.isdigit():
                if int(fname) >= len(y.args):
                    return False
            elif fname.isidentifier():
                if fname not in {k.arg for k in y.keywords}:
                    return False
            else:
                return False
        return True
    if isinstance(y, ast.BinOp) and isinstance(y.op, ast.Mod):
        tmpl = const_of(y.left)
        if tmpl is None:
            return False
        args = list(y.right.elts) if isinstance(y.right, ast.Tuple) else [y.right]
        if not all(plain(a) for a in args):
            return False
        import re as _re
        convs = _re.findall(r"%(.)", tmpl.replace("%%", ""))
        return isinstance(y.right, ast.Tuple) and all(c_ in "sr" for c_ in convs) and len(convs) == len(args)
    return False
