"""E0 class facts: __init__ attribute summaries (with guards), attribute kinds, adder summaries,
element types of container attributes, property expansion."""
from __future__ import annotations

import ast
import copy

from .index import ClassInfo, FuncInfo, Program, is_self_attr, walk_no_nested
from .report import norm
from .sym import C, N, Ctx, simplify, subst


class InitSummary:
    """Result of abstractly evaluating __init__: attr -> expression over parameter names;
    guards: list of (test node, raises exception name, stmt) in order; order of stores."""

    def __init__(self):
        self.attrs = {}  # attr -> expr (params as Names; IfExp = phi)
        self.stores = []  # (attr, stmt)
        self.guards = []  # (cond ast (already substituted), exc, stmt, position index)
        self.params = []
        self.defaults = {}
        self.super_kwargs = False


def init_summary(prog: Program, c: ClassInfo) -> InitSummary:
    s = InitSummary()
    f = None
    for k in prog.mro(c):
        f = k.get("__init__")
        if f:
            break
    if f is None:
        return s
    s.params = f.params
    s.defaults = f.defaults()
    sn = f.self_name or "self"
    ctx = Ctx(prog, f.module, f.cls)
    env = {}
    pos = [0]

    def ev(n):
        return simplify(subst(n, env), ctx)

    def block(stmts, env):
        """returns (env, terminated_by_raise)"""
        nonlocal_env = env
        for st in stmts:
            if isinstance(st, (ast.Assign, ast.AnnAssign)):
                targets = st.targets if isinstance(st, ast.Assign) else [st.target]
                if st.value is None:
                    continue
                v = simplify(subst(st.value, nonlocal_env), ctx)
                for t in targets:
                    if isinstance(t, ast.Name):
                        nonlocal_env[t.id] = v
                    elif is_self_attr(t, self_name=sn):
                        nonlocal_env["self." + t.attr] = v
                        s.stores.append((t.attr, st))
            elif isinstance(st, ast.If):
                cond = simplify(subst(st.test, nonlocal_env), ctx)
                e1, r1 = block(st.body, dict(nonlocal_env))
                e2, r2 = block(st.orelse, dict(nonlocal_env))
                if r1 and not r2:
                    s.guards.append((cond, _exc_of(st.body), st))
                    nonlocal_env = e2
                elif r2 and not r1:
                    neg = ast.UnaryOp(op=ast.Not(), operand=cond)
                    s.guards.append((neg, _exc_of(st.orelse), st))
                    nonlocal_env = e1
                elif r1 and r2:
                    return nonlocal_env, True
                else:
                    merged = {}
                    for k in set(e1) | set(e2):
                        a, b = e1.get(k), e2.get(k)
                        if a is None or b is None:
                            merged[k] = a if a is not None else b
                        elif norm(a) == norm(b):
                            merged[k] = a
                        else:
                            merged[k] = ast.IfExp(test=cond, body=a, orelse=b)
                    nonlocal_env = merged
            elif isinstance(st, ast.Raise):
                return nonlocal_env, True
            elif isinstance(st, ast.Expr) and isinstance(st.value, ast.Call):
                if norm(st.value.func) == "super().__init__":
                    s.super_kwargs = True
        return nonlocal_env, False

    def _exc_of(stmts):
        for st in stmts:
            if isinstance(st, ast.Raise) and st.exc is not None:
                e = st.exc.func if isinstance(st.exc, ast.Call) else st.exc
                return norm(e)
        return ""

    envf, _ = block(f.node.body, env)
    for k, v in envf.items():
        if k.startswith("self."):
            s.attrs[k[5:]] = v
    return s


def attr_kinds(prog: Program, c: ClassInfo):
    """attr -> {'kind': seq|fixed|frames|scalar, 'shape': tuple|None, 'guarded': bool, 'param': name|None}"""
    out = {}
    summ = init_summary(prog, c)
    usage_seq, usage_frames = set(), set()
    for f in c.all_funcs():
        sn = f.self_name or "self"
        for n in walk_no_nested(f.node):
            if isinstance(n, ast.Call):
                fn = norm(n.func)
                if fn in ("len", "iter", "enumerate", "sum", "max", "min", "list") and n.args and is_self_attr(n.args[0], self_name=sn):
                    usage_seq.add(n.args[0].attr)
                if fn == "zip":
                    for a in n.args:
                        if is_self_attr(a, self_name=sn):
                            usage_seq.add(a.attr)
                if isinstance(n.func, ast.Attribute) and n.func.attr in ("append", "remove", "insert", "index", "pop", "extend") and is_self_attr(n.func.value, self_name=sn):
                    usage_seq.add(n.func.value.attr)
                if fn in ("np.ma.masked_invalid", "numpy.ma.masked_invalid") and n.args and is_self_attr(n.args[0], self_name=sn):
                    usage_frames.add(n.args[0].attr)
            if isinstance(n, (ast.For, ast.comprehension)) and is_self_attr(n.iter, self_name=sn):
                usage_seq.add(n.iter.attr)
            if isinstance(n, ast.Attribute) and n.attr == "shape" and is_self_attr(n.value, self_name=sn):
                usage_frames.add(n.value.attr)
            if isinstance(n, ast.Delete):
                for t in n.targets:
                    if isinstance(t, ast.Subscript) and is_self_attr(t.value, self_name=sn):
                        usage_seq.add(t.value.attr)
    for a, v in summ.attrs.items():
        info = {"kind": "scalar", "shape": None, "guarded": False, "param": None, "value": v}
        vv = v
        if isinstance(vv, ast.BoolOp) and isinstance(vv.op, ast.Or):
            # `platforms or []`
            if any(isinstance(x, (ast.List, ast.ListComp)) for x in vv.values):
                info["kind"] = "seq"
        if isinstance(vv, (ast.List, ast.ListComp, ast.Tuple)):
            info["kind"] = "seq"
        if isinstance(vv, ast.Name) and vv.id in summ.params:
            info["param"] = vv.id
            shp = guard_shape(prog, c, summ, vv.id)
            if shp is not None:
                info["kind"], info["shape"], info["guarded"] = "fixed", shp, True
            elif guard_rank1(summ, vv.id) or guard_len(summ, vv.id):
                info["kind"] = "seq"
        if info["kind"] == "scalar":
            if a in usage_frames:
                info["kind"] = "frames"
            elif a in usage_seq:
                info["kind"] = "seq"
        out[a] = info
    return out


def guard_len(summ: InitSummary, p: str):
    for cond, exc, st in summ.guards:
        for n in ast.walk(cond):
            if isinstance(n, ast.Call) and norm(n.func) == "len" and n.args and norm(n.args[0]) == p:
                return True
    return False


def guard_rank1(summ: InitSummary, p: str):
    for cond, exc, st in summ.guards:
        for n in ast.walk(cond):
            if isinstance(n, ast.Compare) and norm(n.left) == f"len({p}.shape)":
                return True
    return False


def shape_of_expr(prog, c: ClassInfo, node):
    """Evaluate a shape expression: tuple literal or T.btype.shape -> tuple | None"""
    if isinstance(node, ast.Tuple):
        try:
            return tuple(ast.literal_eval(node))
        except Exception:
            return None
    if isinstance(node, ast.Attribute) and node.attr == "shape" and isinstance(node.value, ast.Attribute) and node.value.attr == "btype" and isinstance(node.value.value, ast.Name):
        cod = prog.codec(c.module, node.value.value.id)
        if cod:
            return tuple(cod[1].shape)
    return None


def guard_shape(prog: Program, c: ClassInfo, summ: InitSummary, p: str):
    """Shape demanded of parameter p by a raising guard in __init__ (None if no such guard)."""
    for cond, exc, st in summ.guards:
        for n in ast.walk(cond):
            if isinstance(n, ast.Compare) and len(n.ops) == 1 and norm(n.left) == f"{p}.shape":
                shp = shape_of_expr(prog, c, n.comparators[0])
                if shp is not None:
                    return shp
    return None


def adder_summary(prog: Program, c: ClassInfo, meth: str):
    """Which parameters of method `meth` get appended to which self attributes.
    Returns {attr: [value exprs appended (over param names)]}"""
    f = prog.lookup_method(c, meth)
    out = {}
    if f is None:
        return None
    sn = f.self_name or "self"
    for n in walk_no_nested(f.node):
        if isinstance(n, ast.Call) and isinstance(n.func, ast.Attribute) and n.func.attr == "append" and is_self_attr(n.func.value, self_name=sn) and len(n.args) == 1:
            out.setdefault(n.func.value.attr, []).append(n.args[0])
    return f, out


def element_class(prog: Program, c: ClassInfo, attr: str):
    """Element class of container attribute `attr`: from isinstance guards in methods that append to it,
    or from comprehensions over K._build in the decoder."""
    found = []
    for f in c.all_funcs():
        sn = f.self_name or "self"
        appended = []
        for n in walk_no_nested(f.node):
            if isinstance(n, ast.Call) and isinstance(n.func, ast.Attribute) and n.func.attr == "append" and is_self_attr(n.func.value, attr, sn) and n.args and isinstance(n.args[0], ast.Name):
                appended.append(n.args[0].id)
        if not appended:
            continue
        for n in walk_no_nested(f.node):
            if isinstance(n, ast.Call) and norm(n.func) == "isinstance" and len(n.args) == 2 and isinstance(n.args[0], ast.Name) and n.args[0].id in appended and isinstance(n.args[1], ast.Name):
                k = prog.resolve_class(c.module, n.args[1].id)
                if k:
                    found.append(k)
    b = c.get("_build")
    if b:
        for n in walk_no_nested(b.node):
            if isinstance(n, ast.Assign) and len(n.targets) == 1 and isinstance(n.targets[0], ast.Attribute) and n.targets[0].attr == attr and isinstance(n.value, ast.ListComp):
                e = n.value.elt
                if isinstance(e, ast.Call) and isinstance(e.func, ast.Attribute) and isinstance(e.func.value, ast.Name):
                    k = prog.resolve_class(c.module, e.func.value.id)
                    if k:
                        found.append(k)
    names = {k.name for k in found}
    if len(names) == 1:
        return found[0]
    return None


def property_body_expr(prog: Program, c: ClassInfo, name: str):
    """If `name` is a @property of c whose body is straight-line assignments + return, return the
    returned expression with locals substituted (over self)."""
    f = c.get(name, "getter")
    if f is None:
        return None
    env = {}
    ctx = Ctx(prog, f.module, c)
    for st in f.node.body:
        if isinstance(st, ast.Expr) and isinstance(st.value, ast.Constant):
            continue
        if isinstance(st, ast.Assign) and len(st.targets) == 1 and isinstance(st.targets[0], ast.Name):
            env[st.targets[0].id] = subst(st.value, env)
            continue
        if isinstance(st, ast.Return) and st.value is not None:
            return subst(st.value, env)
        return None
    return None
