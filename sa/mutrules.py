"""Rules over the container mutators (Tdf.add_block / remove_block / replace_block / new / __enter__),
shared by C03, C04, C09, C10 (DESIGN section 3)."""
from __future__ import annotations

import ast

from .cfg import CFG
from .container import Container, FuncFacts, term_const_bytes
from .index import is_self_attr, walk_no_nested
from .layout import Field, Rep, Str, Date, Raw, Sub, Install, walk_terms
from .poly import Poly
from .report import AnalysisError, head, norm
from .sym import C, N, canon, equal, simplify, subst, to_poly

FILE_EFFECTS = ("raw_write", "entry_write", "block_write", "codec_write", "truncate", "handle_passed", "handle_other")


def MOD(ct):
    return ct.mod.path.name


def entry_field_poly(ct: Container, ff: FuncFacts, expr):
    """Polynomial of an offset expression; None if not arithmetic."""
    return to_poly(ff.resolve(expr), ct.ctx)


# ------------------------------------------------------------------------------------------------
# R1 header-frame
def header_frame(ct: Container, rep, rule="header-frame"):
    n_seek = 0
    for ff in ct.all_facts():
        if ff.f.name == "new":
            continue
        fq = f"Tdf.{ff.f.name}"
        for e in ff.ev("seek"):
            n_seek += 1
            if e.whence not in ("0", "os.SEEK_SET", "io.SEEK_SET"):
                if ff.f.name in ("add_block", "remove_block", "replace_block"):
                    rep.fail(rule, MOD(ct), fq, e.stmt, f"relative/end seek (whence={e.whence}) in a mutator: position is not tied to the table geometry or an entry")
                continue
            k = ct.slot_index(e.target, ff)
            if k is not None:
                cv = k.const_value()
                if cv is not None and cv < 0:
                    rep.fail(rule, MOD(ct), fq, e.stmt, f"seek target lies inside the file header (slot index {cv})")
                else:
                    rep.ok(rule, f"{fq}: seek({norm(e.target)}) is table slot {k}", nontrivial=True)
                continue
            p = to_poly(ff.resolve(e.target), ct.ctx)
            atoms = p.atoms() if p is not None else {"?"}
            if atoms and all(a.endswith(".offset") or a.endswith(".size") for a in atoms) and (p.t.get((), 0) == 0):
                rep.ok(rule, f"{fq}: seek({norm(e.target)}) is an entry's data range")
                continue
            rep.fail(rule, MOD(ct), fq, e.stmt,
                     f"seek target `{norm(e.target)}` is neither a table slot ({ct.HDR}+{ct.ENT}*i) nor an entry's offset/size: header or foreign bytes could be overwritten")
        for e in ff.ev("self_store"):
            if e.attr in ("nEntries", "version", "signature") and ff.f.name != "__enter__":
                rep.fail(rule, MOD(ct), fq, e.stmt, f"self.{e.attr} is assigned outside __enter__ (header fields must mirror the file)")
    rep.floor(rule + "/seeks", n_seek, 7)
    # nothing but `new` writes raw bytes other than the tail move
    for ff in ct.all_facts():
        if ff.f.name in ("new",):
            continue
        for e in ff.ev("codec_write"):
            rep.fail(rule, MOD(ct), f"Tdf.{ff.f.name}", e.stmt, "field-level write straight to the handle outside the entry/block serialisers")


# R2 slot-balance
def slot_balance(ct: Container, rep, rule="slot-balance"):
    n = 0
    for name in ("add_block", "remove_block", "replace_block"):
        ff = ct.facts(name)
        cfg = ff.cfg
        delta_at = {}
        for e in ff.ev("table_append", "table_remove", "table_rebind"):
            if e.kind == "table_rebind":
                rep.fail(rule, MOD(ct), f"Tdf.{name}", e.stmt, "the entry table is rebound wholesale inside a mutator")
                continue
            delta_at[e.node.id] = delta_at.get(e.node.id, 0) + (1 if e.kind == "table_append" else -1)
        # nodes on cycles
        for nid in delta_at:
            if nid in cfg.reachable(cfg.nodes[nid], normal_only=True):
                raise AnalysisError(f"Tdf.{name}: table append/remove inside a loop is not modelled by slot-balance")
        # enumerate normal paths on the DAG (back edges skipped via visited-on-path)
        results = set()

        def dfs(x, acc, onpath):
            if x == cfg.exit.id:
                results.add(acc)
                return
            for y in cfg.succ[x]:
                if y in cfg.exc_succ[x] or y in onpath:
                    continue
                dfs(y, acc + delta_at.get(y, 0), onpath | {y})

        dfs(cfg.entry.id, 0, {cfg.entry.id})
        n += 1
        if results <= {0}:
            rep.ok(rule, f"Tdf.{name}: every normal path appends as many slots as it removes ({len(delta_at)} table size events)",
                   nontrivial=bool(delta_at))
        else:
            node = next((e.stmt for e in ff.ev("table_append", "table_remove")), ff.f.node)
            rep.fail(rule, MOD(ct), f"Tdf.{name}", node, f"a normal path changes the number of table slots by {sorted(results - {0})}",
                     construct=f"Tdf.{name} slot balance")
    rep.floor(rule, n, 3)


# R3 geometry-constants
def geometry_constants(ct: Container, rep, rule="geometry-constants"):
    n = 0
    for ff in ct.all_facts():
        if ff.f.name == "new":
            continue
        for e in ff.ev("seek"):
            if str(getattr(e, "whence", "0")) not in ("0", "None"):
                continue      # a relative seek skips bytes (reserved words of a header being read); it is not a table position
            t = ff.resolve(e.target)
            lits = [x.value for x in ast.walk(t) if isinstance(x, ast.Constant) and isinstance(x.value, int) and x.value > 1]
            if not lits:
                continue
            n += 1
            if ct.slot_index(e.target, ff) is not None:
                rep.ok(rule, f"Tdf.{ff.f.name}: seek({norm(e.target)}) uses header {ct.HDR} / entry {ct.ENT} bytes", nontrivial=True)
            else:
                rep.fail(rule, MOD(ct), f"Tdf.{ff.f.name}", e.stmt,
                         f"seek target `{norm(e.target)}` is not {ct.HDR} + {ct.ENT}*i: the header is {ct.HDR} bytes and TdfEntry._write emits {ct.ENT} bytes")
    # TdfEntry.nBytes constant
    from . import facts as F

    summ = F.init_summary(ct.prog, ct.entry_cls)
    nb = summ.attrs.get("nBytes")
    if nb is not None:
        v = ct.prog.const_int(ct.mod, nb, ct.entry_cls)
        node = next(st for a, st in summ.stores if a == "nBytes")
        n += 1
        if v == ct.ENT:
            rep.ok(rule, f"TdfEntry.nBytes == {ct.ENT} == bytes(TdfEntry._write)")
        else:
            rep.fail(rule, MOD(ct), "TdfEntry.__init__", node, f"TdfEntry.nBytes is {v}, its writer emits {ct.ENT} bytes")
    # any other occurrence of the literal geometry in offset expressions of the mutators
    for name in ("remove_block", "add_block"):
        ff = ct.facts(name)
        for stn in walk_no_nested(ff.f.node):
            if isinstance(stn, ast.Assign) and len(stn.targets) == 1 and isinstance(stn.targets[0], ast.Name):
                for sub in ast.walk(stn.value):
                    if isinstance(sub, ast.BinOp) and isinstance(sub.op, ast.Add):
                        lits = [x.value for x in ast.walk(sub) if isinstance(x, ast.Constant) and isinstance(x.value, int) and x.value > 8]
                        if len(lits) >= 2 and not any(isinstance(x, ast.BinOp) and isinstance(x.op, ast.Add) and x is not sub for x in ast.walk(sub)):
                            n += 1
                            if ct.slot_index(sub) is not None:
                                rep.ok(rule, f"Tdf.{name}: `{norm(sub)}` uses the codec geometry")
                            else:
                                rep.fail(rule, MOD(ct), f"Tdf.{name}", stn, f"`{norm(sub)}` is not {ct.HDR} + {ct.ENT}*i")
    rep.floor(rule, n, 4)


# R4 unused-size-zero
def unused_size_zero(ct: Container, rep, rule="unused-size-zero"):
    n = 0
    for ff in ct.all_facts():
        for c in walk_no_nested(ff.f.node):
            if ct.is_entry_ctor(c):
                a = ct.entry_ctor_args(c)
                ty = a.get("type")
                if isinstance(ty, ast.Attribute) and isinstance(ty.value, ast.Name) and norm(ty) != "BlockType.unusedSlot":
                    # a class constant that names the member (`UnusedBlock.type`)
                    k_ = ct.prog.resolve_class(ct.mod, ty.value.id)
                    ca_ = ct.prog.class_attr(k_, ty.attr) if k_ is not None and not ct.prog.is_enum(k_) else None
                    if ca_ is not None:
                        ty = ca_[1]
                if ty is not None and norm(ty) == "BlockType.unusedSlot":
                    n += 1
                    sz, fm = a.get("size"), a.get("format")
                    if sz is not None and ct.prog.const_int(ct.mod, sz) == 0 and fm is not None and ct.prog.const_int(ct.mod, fm) == 0:
                        rep.ok(rule, f"Tdf.{ff.f.name}: unused slot built with size 0, format 0")
                    else:
                        rep.fail(rule, MOD(ct), f"Tdf.{ff.f.name}", c, f"unused slot built with size `{norm(sz)}`, format `{norm(fm)}` (must be 0, 0)",
                                 construct=f"TdfEntry(type=BlockType.unusedSlot, size={norm(sz)}, format={norm(fm)})")
    # empty-container writer: the inline entry loop of Tdf.new
    hu = ct.header_unit
    rep_t = next((t for t in hu.wterms if isinstance(t, Rep)), None)
    if rep_t is None:
        raise AnalysisError("Tdf.new: entry loop not found")
    flds = [t for t in rep_t.body if isinstance(t, (Field, Str, Date, Raw))]
    eflds = [t for t in ct.entry_unit.wterms if isinstance(t, (Field, Str, Date, Raw))]
    names = []
    for t in eflds:
        v = getattr(t, "value", None)
        names.append(norm(v).replace("self.", "").replace(".value", "") if v is not None else "pad")
    if len(flds) != len(eflds):
        rep.fail(rule, MOD(ct), "Tdf.new", rep_t.node, f"the empty table writes {len(flds)} fields per slot, TdfEntry._write writes {len(eflds)}")
    else:
        for t, nm in zip(flds, names):
            if nm in ("type", "format", "size"):
                n += 1
                v = ct.prog.const_int(ct.mod, t.value) if getattr(t, "value", None) is not None else None
                if v == 0:
                    rep.ok(rule, f"Tdf.new: slot field {nm} = 0")
                else:
                    rep.fail(rule, MOD(ct), "Tdf.new", t.stmt or t.node, f"empty slot written with {nm} = `{norm(t.value)}` (must be 0)")
    rep.floor(rule, n, 4)


# R5 offset-provenance
def offset_provenance(ct: Container, rep, rule="offset-provenance"):
    ff = ct.facts("remove_block")
    fq = "Tdf.remove_block"
    cfg = ff.cfg
    removes = ff.ev("table_remove")
    appends = ff.ev("table_append")
    shifts = [e for e in ff.ev("field_assign") if e.field == "offset" and e.op in ("Sub", "Add")]
    if removes and not shifts and not ff.ev("self_call") \
            and not any(isinstance(n, ast.Attribute) and n.attr == "offset" and isinstance(n.ctx, ast.Store) for n in ast.walk(ff.f.node)):
        # definite: nothing in remove_block assigns an entry offset, so the entries after the removed one keep pointing
        # block-size bytes too far
        rep.fail(rule, MOD(ct), fq, removes[0].stmt, "the entries after the removed one are never shifted (no `.offset` is assigned in remove_block): their offsets stay one block size too large after the tail moved up",
                 construct=f"{fq} later entries not shifted")
        return
    if not removes or not appends or not shifts:
        raise AnalysisError("Tdf.remove_block: remove / shift / append structure not found (anchor vanished)")
    rm, ap, sh = removes[0], appends[0], shifts[0]
    removed = norm(rm.value)
    # the loop that contains the shift
    shift_loop = None
    for cn in cfg.nodes:
        if cn.kind == "loop" and any(s is sh.stmt for s in ast.walk(cn.stmt)):
            shift_loop = cn
    if shift_loop is None:
        raise AnalysisError("Tdf.remove_block: the offset shift is not inside a loop over the table")
    # appended entry and its offset expression
    if not (isinstance(ap.value, ast.Name) and ff.entry_names.get(ap.value.id, ("",))[0] == "fresh"):
        raise AnalysisError("Tdf.remove_block: appended slot is not a freshly built TdfEntry")
    ctor = ff.entry_names[ap.value.id][1]
    off = ct.entry_ctor_args(ctor).get("offset")
    if off is None:
        raise AnalysisError("Tdf.remove_block: appended slot has no offset argument")

    # classify every leaf expression reaching `off` (through single-def names and if/else, IfExp)
    leaves = []  # (expr, def stmt, guard text)

    def collect(expr, stmt, guard, depth=0):
        if depth > 6:
            leaves.append((expr, stmt, guard))
            return
        if isinstance(expr, ast.IfExp):
            collect(expr.body, stmt, (guard + [norm(expr.test)]), depth + 1)
            collect(expr.orelse, stmt, (guard + ["not " + norm(expr.test)]), depth + 1)
            return
        if isinstance(expr, ast.Name) and expr.id in ff.defs and expr.id not in ff.entry_names:
            for v, st in ff.defs[expr.id]:
                g = list(guard)
                # enclosing if tests of the defining statement
                for t, br in enclosing_tests(ff.f.node, st):
                    g.append(("" if br else "not ") + norm(t))
                collect(v, st, g, depth + 1)
            return
        leaves.append((expr, stmt, guard))

    collect(off, ctor, [])
    n = 0
    for expr, stmt, guard in leaves:
        n += 1
        cn = cfg.node_of(stmt) if stmt is not None else None
        if cn is None:
            # the expression sits inside the constructor call: its statement
            cands = [s for s in walk_no_nested(ff.f.node) if isinstance(s, ast.stmt) and s is not ff.f.node
                     and not isinstance(s, (ast.If, ast.For, ast.While, ast.Try, ast.With)) and any(x is expr for x in ast.walk(s))]
            st2 = cands[-1] if cands else None
            cn = cfg.node_of(st2) if st2 is not None else None
        if cn is None:
            raise AnalysisError(f"{fq}: cannot locate the statement computing `{norm(expr)}`")
        after_shift = cfg.dominates(shift_loop, cn)
        after_remove = cfg.dominates(rm.node, cn)
        before_append = not cfg.dominates(ap.node, cn)
        # aliases of table elements (`last = self.entries[-1]`): substitute when bound after the removal
        alias_env = {}
        for nm in {x.id for x in ast.walk(expr) if isinstance(x, ast.Name)}:
            info = ff.entry_names.get(nm)
            d = ff.defs.get(nm, [])
            if info and info[0] == "elem" and info[1] == "subscript" and len(d) == 1:
                dn = cfg.node_of(d[0][1])
                if dn is not None and cfg.dominates(rm.node, dn) and not cfg.dominates(ap.node, dn):
                    alias_env[nm] = d[0][0]
        p = to_poly(ff.resolve(subst(expr, alias_env) if alias_env else expr), ct.ctx)
        atoms = p.atoms() if p is not None else set()
        last = f"self.{ct.entries_attr}[-1]"
        L_off, L_size, R_size = f"{last}.offset", f"{last}.size", f"{removed}.size"
        desc = f"`{norm(expr)}`" + (f" under [{' and '.join(guard)}]" if guard else "")
        entry_atoms = {a for a in atoms if a.endswith(".offset") or a.endswith(".size")}
        geom_atoms = atoms - entry_atoms
        if entry_atoms:
            if p == Poly.atom(L_off) + Poly.atom(L_size) and after_shift and after_remove and before_append:
                rep.ok(rule, f"{fq}: free-slot offset {desc} = end of the last remaining entry, evaluated after the shift", nontrivial=True)
            elif p == Poly.atom(L_off) + Poly.atom(L_size) - Poly.atom(R_size) and not after_remove:
                rep.ok(rule, f"{fq}: free-slot offset {desc} = old end of data minus the removed size", nontrivial=True)
            elif not after_shift:
                rep.fail(rule, MOD(ct), fq, stmt, f"free-slot offset {desc} is read from the table BEFORE later entries are shifted down by the removed size (stale: the slot will not point at end of data)",
                         construct=f"{norm(head(stmt))} :: {norm(expr)}")
            else:
                rep.fail(rule, MOD(ct), fq, stmt, f"free-slot offset {desc} is not `last.offset + last.size` of the last remaining entry",
                         construct=f"{norm(head(stmt))} :: {norm(expr)}")
        else:
            # geometry only: table end; correct only when nothing (live) remains
            implies_empty = any(_says_empty(g, f"self.{ct.entries_attr}") for g in guard) and after_remove
            k = ct.slot_index(expr, ff)
            table_end = k is not None and k == Poly.atom("self.nEntries")
            if implies_empty and not table_end:
                rep.fail(rule, MOD(ct), fq, stmt, f"free-slot offset {desc} is not the end of the table ({ct.HDR} + {ct.ENT}*self.nEntries): with no entry left the next block would be placed inside the table",
                         construct=f"{norm(head(stmt))} :: {norm(expr)}")
            elif implies_empty:
                rep.ok(rule, f"{fq}: free-slot offset {desc} (table end) only when no entry remains", nontrivial=True)
            else:
                rep.fail(rule, MOD(ct), fq, stmt, f"free-slot offset {desc} is the end of the table, which is end of data only when no live block remains; the guard does not imply that",
                         construct=f"{norm(head(stmt))} :: {norm(expr)}")
    rep.floor(rule, n, 1)


def _says_empty(guard_text: str, table: str):
    """does the guard (text of a test, possibly prefixed by `not `) state that the table is empty?"""
    pol = True
    g = guard_text.strip()
    try:
        t = ast.parse(g, mode="eval").body
    except SyntaxError:
        return False
    while isinstance(t, ast.UnaryOp) and isinstance(t.op, ast.Not):
        t, pol = t.operand, not pol
    tt = norm(t).replace(" ", "")
    T = table.replace(" ", "")
    nonempty = None
    if tt in (T, f"len({T})", f"bool({T})"):
        nonempty = True
    elif isinstance(t, ast.Compare) and len(t.ops) == 1 and norm(t.left).replace(" ", "") == f"len({T})" and isinstance(t.comparators[0], ast.Constant):
        k, op = t.comparators[0].value, t.ops[0]
        if (k == 0 and isinstance(op, (ast.Gt, ast.NotEq))) or (k == 1 and isinstance(op, ast.GtE)):
            nonempty = True
        elif (k == 0 and isinstance(op, (ast.Eq, ast.LtE))) or (k == 1 and isinstance(op, ast.Lt)):
            nonempty = False
    if nonempty is None:
        return False
    return (not nonempty) if pol else nonempty


def enclosing_tests(fn, target):
    """[(test expr, branch True/False)] of the if statements enclosing `target` inside fn."""
    out = []

    def rec(stmts, acc):
        for st in stmts:
            if st is target:
                out.extend(acc)
                return True
            if isinstance(st, ast.If):
                if rec(st.body, acc + [(st.test, True)]) or rec(st.orelse, acc + [(st.test, False)]):
                    return True
            elif isinstance(st, (ast.For, ast.While, ast.With)):
                if rec(st.body, acc) or rec(getattr(st, "orelse", []), acc):
                    return True
            elif isinstance(st, ast.Try):
                if rec(st.body, acc) or rec(st.orelse, acc) or rec(st.finalbody, acc) or any(rec(h.body, acc) for h in st.handlers):
                    return True
        return False

    rec(fn.body, [])
    return out


# R6 tail-move-order (+ shift-consistency)
def tail_move(ct: Container, rep, rule="tail-move-order", shift_rule="shift-consistency"):
    ff = ct.facts("remove_block")
    fq = "Tdf.remove_block"
    cfg = ff.cfg
    reads = ff.ev("read")
    writes = ff.ev("raw_write")
    truncs = ff.ev("truncate")
    flushes = ff.ev("flush")
    if not reads or not writes:
        # definite when nothing else in remove_block could move the bytes (no call receives the handle, no other method of the
        # file object is called): the bytes after the removed block stay where they are / are cut off by the truncate
        if not ff.ev("handle_passed", "handle_other", "self_call") and (reads or writes or truncs):
            what = "written back" if reads else "read"
            at = (reads or writes or truncs)[0].stmt
            rep.fail(rule, MOD(ct), fq, at, f"the bytes after the removed block are never {what}: the tail is not moved up over the removed block (the blocks after it are lost or left at stale offsets)",
                     construct=f"{fq} tail never {what}")
            return
        raise AnalysisError(f"{fq}: tail move (read / write) not found (anchor vanished)")
    if not truncs:
        rep.fail(rule, MOD(ct), fq, writes[0].stmt, "the file is not truncated after the tail was moved up: the removed block's size stays in the file as dead bytes",
                 construct="truncate after tail move")
        return
    rd, wr, tr = reads[0], writes[0], truncs[0]
    removed = norm(ff.ev("table_remove")[0].value) if ff.ev("table_remove") else None
    # the written value is what was read
    rd_name = None
    if isinstance(rd.stmt, ast.Assign) and isinstance(rd.stmt.targets[0], ast.Name):
        rd_name = rd.stmt.targets[0].id
    if rd_name is not None and norm(wr.value) == rd_name and rd.call is not None and rd.stmt.value is not rd.call:
        rep.fail(rule, MOD(ct), fq, rd.stmt, f"the bytes moved up are `{norm(rd.stmt.value)[:80]}`, not simply everything after the removed block: under some condition the tail is dropped or altered",
                 construct=f"{fq} tail bytes conditional")
    elif rd_name is not None and norm(wr.value) == rd_name:
        rep.ok(rule, f"{fq}: bytes written back are the bytes read (`{rd_name}`)")
    else:
        rep.fail(rule, MOD(ct), fq, wr.stmt, f"tail write emits `{norm(wr.value)}`, not the bytes read by `{norm(head(rd.stmt))}`")
    if rd.size is None:
        rep.ok(rule, f"{fq}: read() takes the whole tail")
    else:
        rep.fail(rule, MOD(ct), fq, rd.stmt, f"tail read is bounded (`{norm(rd.size)}`): blocks after the next one would be lost")
    if tr.size is None:
        rep.ok(rule, f"{fq}: truncate() at the current position")
    else:
        rep.fail(rule, MOD(ct), fq, tr.stmt, f"truncate to explicit size `{norm(tr.size)}`")

    def sole_prev(ev, what):
        prev = ff.position_before(ev.node)
        if len(prev) == 1 and prev[0] is not None:
            return prev[0]
        return None

    s1 = sole_prev(rd, "read")
    s2 = sole_prev(wr, "write")
    t_prev = sole_prev(tr, "truncate")
    want_src = to_poly(ast.parse(f"{removed}.offset + {removed}.size", mode="eval").body, ct.ctx)
    want_dst = to_poly(ast.parse(f"{removed}.offset", mode="eval").body, ct.ctx)
    if s1 is not None and s1.kind == "seek" and to_poly(ff.resolve(s1.target), ct.ctx) == want_src:
        rep.ok(shift_rule, f"{fq}: tail is read from {removed}.offset + {removed}.size", nontrivial=True)
    else:
        rep.fail(shift_rule, MOD(ct), fq, (s1.stmt if s1 else rd.stmt), f"tail read does not start at the end of the removed block ({removed}.offset + {removed}.size)")
    if s2 is not None and s2.kind == "seek" and to_poly(ff.resolve(s2.target), ct.ctx) == want_dst:
        rep.ok(shift_rule, f"{fq}: tail is written at {removed}.offset", nontrivial=True)
    else:
        rep.fail(shift_rule, MOD(ct), fq, (s2.stmt if s2 else wr.stmt), f"tail is not written at the removed block's offset ({removed}.offset)")
    # shift amount of table offsets == removed size
    shifts = [e for e in ff.ev("field_assign") if e.field == "offset"]
    for e in shifts:
        if e.op == "Sub" and norm(ff.resolve(e.value)) == f"{removed}.size":
            rep.ok(shift_rule, f"{fq}: table offsets move by {removed}.size, the distance the bytes move", nontrivial=True)
        else:
            rep.fail(shift_rule, MOD(ct), fq, e.stmt, f"table offsets change by `{e.op} {norm(e.value)}` while the bytes move down by {removed}.size")
    if t_prev is wr:
        rep.ok(rule, f"{fq}: truncate directly follows the tail write (cursor at new end of data)")
    else:
        rep.fail(rule, MOD(ct), fq, tr.stmt, f"something moves the cursor between the tail write and truncate: `{norm(head(t_prev.stmt)) if t_prev else '?'}`")
    # order by dominance: seek1 < read < seek2 < write < truncate < flush
    chain = [x for x in (s1, rd, s2, wr, tr) if x is not None]
    okk = all(cfg.dominates(a.node, b.node) and a.node.id != b.node.id for a, b in zip(chain, chain[1:]))
    fl = [f for f in flushes if cfg.dominates(tr.node, f.node)]
    if okk and fl:
        rep.ok(rule, f"{fq}: seek -> read -> seek -> write -> truncate -> flush in that order on every path", nontrivial=True)
    else:
        rep.fail(rule, MOD(ct), fq, tr.stmt, "tail move steps are not ordered seek, read, seek, write, truncate, flush on every path",
                 construct="tail move order")
    # the tail move happens after the table was rewritten or before - either is fine; but truncate must exist on all normal paths after remove
    rm = ff.ev("table_remove")
    if rm and not cfg.all_paths_pass(rm[0].node, cfg.exit, lambda n: n.id == tr.node.id):
        rep.fail(rule, MOD(ct), fq, tr.stmt, "a normal path removes the entry without truncating the file", construct="truncate on all paths")


def later_slots_precheck(ct: Container, ff: FuncFacts, pos):
    """`if any(e.type != BlockType.unusedSlot for e in self.entries[pos+1:]): raise ...` - returns the If statement or None."""
    want = to_poly(ast.BinOp(left=pos, op=ast.Add(), right=C(1)), ct.ctx)
    for st in walk_no_nested(ff.f.node):
        if not (isinstance(st, ast.If) and st.body and isinstance(st.body[-1], ast.Raise) and not st.orelse):
            continue
        t = st.test
        neg = False
        if isinstance(t, ast.UnaryOp) and isinstance(t.op, ast.Not):
            t, neg = t.operand, True
        if not (isinstance(t, ast.Call) and norm(t.func) in ("any", "all") and t.args and isinstance(t.args[0], (ast.GeneratorExp, ast.ListComp))):
            continue
        g = t.args[0]
        gen = g.generators[0]
        if gen.ifs or len(g.generators) != 1 or not ct.is_entries_slice(gen.iter):
            continue
        if isinstance(gen.iter, ast.Subscript) and (gen.iter.slice.upper is not None or gen.iter.slice.step is not None):
            continue
        if to_poly(ff.resolve(ct.slice_lower(gen.iter)), ct.ctx) != want:
            continue
        v = norm(gen.target)
        e = g.elt
        if not (isinstance(e, ast.Compare) and len(e.ops) == 1 and {norm(e.left), norm(e.comparators[0])} == {f"{v}.type", "BlockType.unusedSlot"}):
            continue
        is_ne = isinstance(e.ops[0], ast.NotEq)
        fn = norm(t.func)
        # raise iff some later entry is not unused:  any(!=)  or  not all(==)
        if (fn == "any" and is_ne and not neg) or (fn == "all" and not is_ne and isinstance(e.ops[0], ast.Eq) and neg):
            return st
    return None


# R7 repoint-later-slots
def repoint_later(ct: Container, rep, rule="repoint-later-slots"):
    ff = ct.facts("add_block")
    fq = "Tdf.add_block"
    stores = ff.ev("table_store")
    if not stores:
        raise AnalysisError(f"{fq}: the new entry is not stored into the table by index")
    pos = stores[0].index
    loops = [(n, info) for n, info in ff.index_names.items() if isinstance(info, tuple) and info[0] == "enumerate"]
    if not loops:
        raise AnalysisError(f"{fq}: re-pointing loop (enumerate over a table slice) not found")
    ivar, (_, lo, start, loop) = loops[0]
    want = to_poly(ast.BinOp(left=pos, op=ast.Add(), right=C(1)), ct.ctx)
    sl = loop.iter.args[0]
    if to_poly(ff.resolve(lo), ct.ctx) == want and (not isinstance(sl, ast.Subscript) or sl.slice.upper is None) and (not isinstance(sl, ast.Subscript) or sl.slice.step is None):
        rep.ok(rule, f"{fq}: loop covers every slot after the filled one ({norm(loop.iter.args[0])})", nontrivial=True)
    else:
        rep.fail(rule, MOD(ct), fq, loop, f"re-pointing loop iterates `{norm(loop.iter.args[0])}`, not all slots after index {norm(pos)}")
    # body: if type == unused: assign+write  else: raise
    fa = [e for e in ff.ev("field_assign") if e.field == "offset"]
    raises = [e for e in ff.ev("raise") if any(s is e.stmt for s in ast.walk(loop))]
    pre = later_slots_precheck(ct, ff, pos)
    pre_dom = pre is not None and ff.cfg.dominates(ff.cfg.node_of(pre), ff.cfg.node_of(loop))
    for e in fa:
        tests = [(t, br) for t, br in enclosing_tests(ff.f.node, e.stmt)]
        conds = [norm(t) for t, br in tests if br]
        if len(tests) == 1 and tests[0][1] and norm(tests[0][0]).replace(" ", "") in (
                f"{norm(e.entry)}.type==BlockType.unusedSlot", f"BlockType.unusedSlot=={norm(e.entry)}.type"):
            rep.ok(rule, f"{fq}: every later unused slot is re-pointed (only condition: type == unusedSlot)")
        elif not tests and pre_dom:
            rep.ok(rule, f"{fq}: every later slot is re-pointed unconditionally; a dominating check established they are all unused", nontrivial=True)
        else:
            rep.fail(rule, MOD(ct), fq, e.stmt, f"re-pointing is conditional on {conds or 'an else-branch'}: some later unused slots keep a stale offset")
    # value: end of the new block
    new_entry = norm(stores[0].value)
    want_v = to_poly(ast.parse(f"{new_entry}.offset + {new_entry}.size", mode="eval").body, ct.ctx)
    want_x = to_poly(ff.expand_fresh(ast.parse(f"{new_entry}.offset + {new_entry}.size", mode="eval").body), ct.ctx)
    for e in fa:
        got = to_poly(ff.resolve(e.value), ct.ctx)
        got_x = to_poly(ff.expand_fresh(e.value), ct.ctx)
        if e.op == "=" and (got == want_v or (got_x is not None and got_x == want_x)):
            rep.ok(rule, f"{fq}: later slots point at {new_entry}.offset + {new_entry}.size (end of data)", nontrivial=True)
        else:
            rep.fail(rule, MOD(ct), fq, e.stmt, f"later slot offset is `{norm(e.value)}` (op {e.op}), not the end of the new block `{new_entry}.offset + {new_entry}.size`")
    if raises or pre_dom:
        rep.ok(rule, f"{fq}: a live entry after the filled slot is refused")
    else:
        rep.fail(rule, MOD(ct), fq, loop, "a live entry after an unused slot is no longer refused (its offset would silently be wrong)",
                 construct="refuse live entry after unused slot")


# R8 initial-layout
def initial_layout(ct: Container, rep, rule="initial-layout"):
    hu = ct.header_unit
    fq = "Tdf.new"
    top = [t for t in hu.wterms if isinstance(t, (Field, Str, Date, Raw, Rep))]
    rep_t = next((t for t in top if isinstance(t, Rep)), None)
    if rep_t is None:
        raise AnalysisError("Tdf.new: entry loop not found")
    # the slot count written in the header equals the loop count
    hdr_fields = top[: top.index(rep_t)]
    cnt = ct.NSLOTS
    count_fields = [t for t in hdr_fields if isinstance(t, Field) and t.role == "data" and ct.prog.const_int(ct.mod, t.value) == cnt]
    if cnt is not None and count_fields:
        rep.ok(rule, f"{fq}: header slot count {cnt} == number of entries written")
    else:
        rep.fail(rule, MOD(ct), fq, rep_t.node, f"the entry loop writes {cnt} slots but the header does not record that count")
    # offsets of all slots = HDR + N*ENT
    flds = [t for t in rep_t.body if isinstance(t, (Field, Str, Date, Raw))]
    eflds = [t for t in ct.entry_unit.wterms if isinstance(t, (Field, Str, Date, Raw))]
    idx = next((i for i, t in enumerate(eflds) if getattr(t, "value", None) is not None and norm(t.value) == "self.offset"), None)
    if idx is None or idx >= len(flds):
        raise AnalysisError("TdfEntry._write: offset field not found")
    v = ct.prog.const_int(ct.mod, flds[idx].value)
    want = ct.HDR + (cnt or 0) * ct.ENT
    if v == want:
        rep.ok(rule, f"{fq}: every slot points at {want} = {ct.HDR} + {cnt}*{ct.ENT} (end of table)", nontrivial=True)
    else:
        rep.fail(rule, MOD(ct), fq, flds[idx].stmt or flds[idx].node, f"empty slots point at `{norm(flds[idx].value)}`={v}, the table ends at {want}")
    # nothing after the table
    after = top[top.index(rep_t) + 1:]
    if not after:
        rep.ok(rule, f"{fq}: nothing is written after the table")
    else:
        rep.fail(rule, MOD(ct), fq, after[0].stmt or after[0].node, "bytes are written after the table of an empty container")
    return want


# R9 shift-loop
def shift_loop(ct: Container, rep, rule="shift-loop"):
    ff = ct.facts("remove_block")
    fq = "Tdf.remove_block"
    shifts = [e for e in ff.ev("field_assign") if e.field == "offset"]
    rm = ff.ev("table_remove")
    if not shifts or not rm:
        raise AnalysisError(f"{fq}: shift loop not found")
    e = shifts[0]
    loop = None
    for st in walk_no_nested(ff.f.node):
        if isinstance(st, ast.For) and any(s is e.stmt for s in ast.walk(st)):
            loop = st
    if loop is None:
        raise AnalysisError(f"{fq}: shift is not in a loop")
    removed = rm[0].value
    idx = None
    if isinstance(removed, ast.Name) and ff.entry_names.get(removed.id, ("",))[0] == "elem":
        idx = ff.entry_names[removed.id][2]
    it = loop.iter
    if isinstance(it, ast.Call) and norm(it.func) == "enumerate":
        it = it.args[0]
    if idx is not None and ct.is_entries_slice(it) and equal(ct.slice_lower(it), idx, ct.ctx) and (not isinstance(it, ast.Subscript) or (it.slice.upper is None and it.slice.step is None)) \
            and ff.cfg.dominates(rm[0].node, ff.cfg.node_of(loop)):
        rep.ok(rule, f"{fq}: after the removal, every entry from the removed index on is shifted ({norm(it)})", nontrivial=True)
    else:
        rep.fail(rule, MOD(ct), fq, loop, f"shift loop iterates `{norm(it)}`; it must cover every entry from the removed index ({norm(idx)}) to the end, after the removal")
    tests = enclosing_tests(ff.f.node, e.stmt)
    if not tests:
        rep.ok(rule, f"{fq}: the shift is unconditional")
    else:
        rep.fail(rule, MOD(ct), fq, e.stmt, f"the shift is conditional on `{norm(tests[0][0])}`: some later entries keep a stale offset")
    return loop


# ------------------------------------------------------------------------------------------------ C10
def _table_methods(ct):
    """the two primitives, then every other method of the class (which normally touches neither table nor slots)"""
    first = [ct.facts("add_block"), ct.facts("remove_block")]
    rest = [ff for ff in ct.all_facts() if ff.f.kind == "method" and ff.f.name not in ("add_block", "remove_block", "__init__", "__enter__", "new")
            and not any(ff is x for x in first)]
    return first + rest


def dirty_entry(ct: Container, rep, rule="dirty-entry"):
    n = 0
    for ff in _table_methods(ct):
        name = ff.f.name
        fq = f"Tdf.{name}"
        cfg = ff.cfg
        # the table object is replaced wholesale (`self.entries = <saved list>`): a memory-only change of every slot at once - the file
        # keeps the table it has, the open object announces another one
        for e in ff.ev("table_rebind"):
            n += 1
            rep.fail(rule, MOD(ct), fq, e.stmt, f"`{norm(head(e.stmt))[:60]}` replaces the in-memory table wholesale without rewriting the slots on disk: the open object and the file no longer describe the same blocks",
                     construct=f"{fq} rebinds the table")
        writes = ff.ev("entry_write")
        for e in ff.ev("table_store", "table_append", "field_assign"):
            ent = e.value if e.kind in ("table_store", "table_append") else e.entry
            ename = norm(ent)
            n += 1
            wnodes = {w.node.id for w in writes if norm(w.entry) == ename}
            # inside a loop: the write must happen before the loop header is reached again
            loop_hdr = None
            for cn in cfg.nodes:
                if cn.kind == "loop" and any(s is e.stmt for s in ast.walk(cn.stmt)) and e.stmt is not cn.stmt:
                    loop_hdr = cn
            dst = loop_hdr if loop_hdr is not None else cfg.exit
            # normal paths only
            avoid = wnodes
            reach = cfg.reachable(e.node, avoid=avoid, normal_only=True)
            if wnodes and dst.id not in reach:
                rep.ok(rule, f"{fq}: `{norm(head(e.stmt))}` is followed by {ename}._write(handle) on every normal path", nontrivial=True)
            else:
                rep.fail(rule, MOD(ct), fq, e.stmt, f"table change `{norm(head(e.stmt))}` can reach the end of the operation without `{ename}` being written to its slot (memory-only update)")
        for e in ff.ev("table_remove"):
            n += 1
            # every following entry is rewritten: a loop over entries[idx:] with an entry write, dominated by the removal
            okk = False
            for cn in cfg.nodes:
                if cn.kind == "loop" and isinstance(cn.stmt, ast.For):
                    it = cn.stmt.iter
                    if isinstance(it, ast.Call) and norm(it.func) == "enumerate":
                        it = it.args[0]
                    if ct.is_entries_slice(it) and cfg.dominates(e.node, cn) and any(w for w in writes if any(s is w.stmt for s in ast.walk(cn.stmt))):
                        okk = True
            if okk:
                rep.ok(rule, f"{fq}: after the removal the following slots are rewritten", nontrivial=True)
            else:
                rep.fail(rule, MOD(ct), fq, e.stmt, "an entry is removed from the table but the following slots are not rewritten on disk")
    rep.floor(rule, n, 5)


def slot_position(ct: Container, rep, rule="slot-position"):
    n = 0
    for ff in _table_methods(ct):
        name = ff.f.name
        fq = f"Tdf.{name}"
        cfg = ff.cfg
        for w in ff.ev("entry_write"):
            n += 1
            ename = norm(w.entry)
            info = ff.entry_names.get(ename)
            prev = ff.position_before(w.node)
            if not prev or any(p is None for p in prev):
                rep.fail(rule, MOD(ct), fq, w.stmt, f"`{ename}` is written without the cursor having been positioned")
                continue
            # expected index of that entry in the table
            if info and info[0] == "fresh":
                st = [e for e in ff.ev("table_store") if norm(e.value) == ename]
                ap = [e for e in ff.ev("table_append") if norm(e.value) == ename]
                if st:
                    want = to_poly(ff.resolve(st[0].index), ct.ctx)
                    good = all(p.kind == "seek" and ct.slot_index(p.target, ff) == want for p in prev)
                    if good:
                        rep.ok(rule, f"{fq}: {ename} stored at index {want} and written at slot {want}", nontrivial=True)
                    else:
                        bad = next(p for p in prev if not (p.kind == "seek" and ct.slot_index(p.target, ff) == want))
                        rep.fail(rule, MOD(ct), fq, w.stmt, f"{ename} is table element {want} but is written at the position set by `{norm(head(bad.stmt))}`")
                elif ap:
                    # appended = last element: must continue a sequential run that covers the table to its end
                    good = _sequential_to_end(ct, ff, prev)
                    if good and cfg.dominates(ap[0].node, w.node) or good:
                        rep.ok(rule, f"{fq}: appended {ename} is written right after the run that rewrote the table to its end (slot N-1)", nontrivial=True)
                    else:
                        rep.fail(rule, MOD(ct), fq, w.stmt, f"appended {ename} (last table element) is not written at the last slot")
                else:
                    rep.fail(rule, MOD(ct), fq, w.stmt, f"{ename} is written to the file but never stored into the in-memory table")
            elif info and info[0] == "elem" and info[1] == "enumerate":
                ivar = info[2].id
                _, lo, start, loop = ff.index_names[ivar]
                if not equal(ff.resolve(lo), ff.resolve(start), ct.ctx):
                    rep.fail(rule, MOD(ct), fq, loop, f"enumerate start `{norm(start)}` differs from the slice start `{norm(lo)}`: index {ivar} is not the element's table index",
                             construct=f"for {norm(loop.target)} in {norm(loop.iter)}")
                    continue
                good = all(p.kind == "seek" and ct.slot_index(p.target, ff) == Poly.atom(ivar) for p in prev)
                if good:
                    rep.ok(rule, f"{fq}: element {ivar} written at slot {ivar}", nontrivial=True)
                else:
                    rep.fail(rule, MOD(ct), fq, w.stmt, f"table element {ivar} is not written at slot {ivar}")
            elif info and info[0] == "elem" and info[1] == "for":
                # sequential run: seek(slot lo) before the loop, exactly one write per iteration, nothing else moves the cursor
                loop = next((cn for cn in cfg.nodes if cn.kind == "loop" and any(s is w.stmt for s in ast.walk(cn.stmt))), None)
                if loop is None:
                    rep.fail(rule, MOD(ct), fq, w.stmt, "element written outside its loop")
                    continue
                lo = ct.slice_lower(loop.stmt.iter)
                want = to_poly(ff.resolve(lo), ct.ctx)
                inside = lambda ev: any(s is ev.stmt for s in ast.walk(loop.stmt))
                good = True
                for p in prev:
                    if p is w:
                        continue  # previous iteration's write
                    if p.kind == "seek" and not inside(p) and ct.slot_index(p.target, ff) == want:
                        continue
                    good = False
                    bad = p
                if good:
                    rep.ok(rule, f"{fq}: sequential run from slot {want}: element j of {norm(loop.stmt.iter)} lands on slot {want}+j", nontrivial=True)
                else:
                    rep.fail(rule, MOD(ct), fq, w.stmt, f"sequential rewrite of {norm(loop.stmt.iter)} does not start at slot {want} (cursor set by `{norm(head(bad.stmt))}`)")
            else:
                rep.fail(rule, MOD(ct), fq, w.stmt, f"cannot relate `{ename}` to a table index")
    rep.floor(rule, n, 4)


def _sequential_to_end(ct, ff, prev):
    """prev events of the appended entry's write: each is either the sequential loop's write (loop over
    entries[lo:] with open upper bound) or the seek preceding that loop."""
    for p in prev:
        if p.kind == "entry_write":
            info = ff.entry_names.get(norm(p.entry))
            if not (info and info[0] == "elem" and info[1] in ("for", "enumerate")):
                return False
            loop = next((st for st in walk_no_nested(ff.f.node) if isinstance(st, ast.For) and any(s is p.stmt for s in ast.walk(st))), None)
            it = loop.iter if loop is not None else None
            if isinstance(it, ast.Call) and norm(it.func) == "enumerate" and it.args:
                it = it.args[0]
            if loop is None or not ct.is_entries_slice(it):
                return False
            if isinstance(it, ast.Subscript) and it.slice.upper is not None:
                return False
        elif p.kind == "seek":
            # empty loop: seek to slot lo, lo == len(entries) at that time; accept when the seek precedes such a loop
            if ct.slot_index(p.target, ff) is None:
                return False
        else:
            return False
    return True


def flush_on_exit(ct: Container, rep, rule="flush-on-exit"):
    n = 0
    for name in ("add_block", "remove_block"):
        ff = ct.facts(name)
        fq = f"Tdf.{name}"
        cfg = ff.cfg
        flush_ids = {e.node.id for e in ff.ev("flush")}
        effects = ff.ev(*FILE_EFFECTS)
        if not effects:
            raise AnalysisError(f"{fq}: no file effect found (anchor vanished)")
        bad = None
        for e in effects:
            reach = cfg.reachable(e.node, avoid=flush_ids, normal_only=True)
            if cfg.exit.id in reach:
                bad = e
                break
        n += 1
        if bad is None and flush_ids:
            rep.ok(rule, f"{fq}: every path from a file effect ({len(effects)} sites) to a normal return passes flush()", nontrivial=True)
        else:
            node = bad.stmt if bad else ff.f.node
            rep.fail(rule, MOD(ct), fq, node, f"`{norm(head(node))}` can reach a normal return without handler.flush(): bytes may stay pending in the buffer",
                     construct=f"{fq} flush after {norm(head(node))}")
    rep.floor(rule, n, 2)


def parse_on_enter(ct: Container, rep, rule="parse-on-enter"):
    enter = ct.prog.need_method(ct.tdf, "__enter__")
    fq = "Tdf.__enter__"
    st = None
    for s in enter.node.body:
        if isinstance(s, ast.Assign) and len(s.targets) == 1 and ct.is_entries(s.targets[0]):
            st = s
    nested = [s for s in walk_no_nested(enter.node) if isinstance(s, ast.Assign) and len(s.targets) == 1 and ct.is_entries(s.targets[0])]
    if st is None:
        if nested:
            rep.fail(rule, MOD(ct), fq, nested[0], "the entry table is (re)built only conditionally on context entry: a stale table from a previous context can survive")
        else:
            raise AnalysisError("Tdf.__enter__ no longer assigns the entry table")
        return
    hu = ct.header_unit
    rp = next((t for t in hu.rterms if isinstance(t, Rep) and any(isinstance(x, Sub) and x.cls is ct.entry_cls for x in t.body)), None)
    inst = next((t for t in hu.rterms if isinstance(t, Install) and t.attr == ct.entries_attr), None)
    cnt_inst = next((t for t in hu.rterms if isinstance(t, Install) and t.attr == "nEntries"), None)
    if rp is not None and inst is not None and rp.listph and norm(inst.value) == rp.listph and rp.kind == "range" and norm(rp.lo) == "0" \
            and cnt_inst is not None and norm(cnt_inst.value).startswith("_R") and norm(rp.hi) in ("self.nEntries", norm(cnt_inst.value)):
        rep.ok(rule, f"{fq}: table = [TdfEntry._build(handle) for range(nEntries read from the header)] on every entry", nontrivial=True)
    else:
        rep.fail(rule, MOD(ct), fq, st, "the table is not rebuilt as nEntries (from the header) decoded entries")
    # the list index of an entry IS its slot number (add_block / remove_block seek to 64 + 288 * index): nothing in the class may
    # reorder the table - a sort (by offset, by type), a reverse, or a sorted copy bound back to it puts the entries of a file whose
    # unused slots do not already sort last under other slots than the ones they were read from
    for f_ in ct.tdf.all_funcs():
        for x in walk_no_nested(f_.node):
            if isinstance(x, ast.Call) and isinstance(x.func, ast.Attribute) and x.func.attr in ("sort", "reverse") and ct.is_entries(x.func.value):
                rep.fail(rule, MOD(ct), f"Tdf.{f_.name}", x, f"`{norm(x)[:60]}` reorders the parsed table: an entry's list index no longer is its slot number, and the table writes of add_block / remove_block "
                         "(64 + 288 * index) land in other slots than the entries came from", construct=f"Tdf.{f_.name} reorders the table")
            elif isinstance(x, ast.Assign) and any(ct.is_entries(t) for t in x.targets) and isinstance(x.value, ast.Call) and norm(x.value.func) in ("sorted", "reversed", "list") \
                    and x.value.args and any(isinstance(y, ast.Call) and norm(y.func) in ("sorted", "reversed") for y in ast.walk(x.value)):
                rep.fail(rule, MOD(ct), f"Tdf.{f_.name}", x, f"`{norm(head(x))[:60]}` rebinds the table to a reordered copy: list index and slot number no longer agree", construct=f"Tdf.{f_.name} reorders the table")
    # handle opened on every entry, before the reads
    for e in walk_no_nested(enter.node):
        if isinstance(e, ast.If) and any(ct.is_entries(t) for s in ast.walk(e) if isinstance(s, ast.Assign) for t in s.targets):
            rep.fail(rule, MOD(ct), fq, e, "table parse is conditional")


def size_from_fs(ct: Container, rep, rule="size-from-fs"):
    cached = ct.tdf.get("nBytes", "cached")
    if cached is not None:
        rep.fail(rule, MOD(ct), "Tdf.nBytes", cached.node, f"Tdf.nBytes is memoised ({', '.join(cached.decorators)}): after the first question the object keeps answering with the size the file had then, "
                 "whatever was added or removed since", construct="Tdf.nBytes memoised")
        return
    g = ct.prog.need_method(ct.tdf, "nBytes", "getter")
    from .facts import return_leaves
    rets = [s for s in walk_no_nested(g.node) if isinstance(s, ast.Return)]
    leaves = return_leaves(g.node)
    okk = bool(leaves) and all(v is not None and norm(v) in (
        "self.file_path.stat().st_size", "os.path.getsize(self.file_path)", "os.stat(self.file_path).st_size") for _, v, _ in leaves)
    if okk:
        rep.ok(rule, "Tdf.nBytes is the file system's size of the file")
    else:
        rep.fail(rule, MOD(ct), "Tdf.nBytes", rets[0] if rets else g.node, "Tdf.nBytes is not taken from the file system (it could disagree with the bytes on disk)")


def get_block_reads_disk(ct: Container, rep, rule="read-through-handle"):
    ff = ct.facts("get_block")
    fq = "Tdf.get_block"
    dec = ff.ev("decode")
    if not dec:
        other = [c for c in walk_no_nested(ff.f.node) if isinstance(c, ast.Call) and isinstance(c.func, ast.Attribute) and c.func.attr == "_build" and c.args
                 and not ct.is_handle(c.args[0])]
        if other:
            rep.fail(rule, MOD(ct), fq, other[0], f"`{norm(other[0])[:70]}` decodes from `{norm(other[0].args[0])}`, not from the session's handle self.{ct.handle}: a second stream "
                     "(its own buffer, its own position) does not see what the mutators have just written through the handle", construct=f"{fq} decodes from {norm(other[0].args[0])}")
            return
        raise AnalysisError(f"{fq}: no <class>._build(handle, ...) call found")
    d = dec[0]
    prev = ff.position_before(d.node)
    ent = None
    good = bool(prev)
    for p in prev:
        if p is None or p.kind != "seek" or p.whence not in ("0",):
            good = False
            continue
        t = p.target
        if isinstance(t, ast.Attribute) and t.attr == "offset" and isinstance(t.value, ast.Name):
            ent = t.value.id
        else:
            good = False
    if good and ent:
        rep.ok(rule, f"{fq}: decodes from the handle at {ent}.offset", nontrivial=True)
    else:
        rep.fail(rule, MOD(ct), fq, d.stmt, "the block is not decoded from the handle positioned at the entry's offset")
        return
    # entry comes from self.entries on every path; format and class from the same entry
    defs = ff.origins(ent)
    if defs and all(ct.is_entries_elem(v) or ct.is_next_over_entries(v) for v, st in defs):
        rep.ok(rule, f"{fq}: `{ent}` is an element of the in-memory table on every path")
    else:
        rep.fail(rule, MOD(ct), fq, d.stmt, f"`{ent}` does not always come from the entry table")
    c = d.call
    fmt = c.args[1] if len(c.args) > 1 else None
    recv = c.func.value
    cls_def = [(recv, d.stmt)] if isinstance(recv, ast.Call) else ff.defs.get(norm(recv), [])
    cls_ok = bool(cls_def) and all(isinstance(v, ast.Call) and v.args and norm(v.args[0]) == f"{ent}.type" for v, st in cls_def)
    if fmt is not None and norm(fmt) == f"{ent}.format" and cls_ok:
        rep.ok(rule, f"{fq}: decoder class and format are taken from the same entry that supplies the offset", nontrivial=True)
    else:
        rep.fail(rule, MOD(ct), fq, d.stmt, f"decoder class / format / offset are not all taken from the same entry `{ent}`")
    # every path that returns a block returns what was decoded ON THAT PATH (not an object remembered from an earlier call, which a
    # mutation in between makes stale), and get_block itself keeps nothing in the object
    from .facts import path_returns, self_mutations
    nret = 0
    for pe in path_returns(ff.f.node):
        if pe.kind == "raise":
            continue
        muts = self_mutations(pe.effects, ff.f.self_name or "self")
        if muts:
            rep.fail(rule, MOD(ct), fq, muts[0], f"`{norm(head(muts[0]))[:70]}`: reading a block changes the Tdf object (a cache or a field of the table that is not written back): "
                     "what the object reports can then differ from the bytes on disk", construct=f"{fq} stores into the object")
        if pe.kind != "return" or pe.value is None:
            continue
        nret += 1
        builds = [x for x in ast.walk(pe.value) if isinstance(x, ast.Call) and isinstance(x.func, ast.Attribute) and x.func.attr == "_build" and x.args and ct.is_handle(x.args[0])]
        if not builds:
            rep.fail(rule, MOD(ct), fq, pe.node, f"a path returns `{norm(pe.value)[:70]}`, which is not decoded from the handle on that path", construct=f"{fq} returns without decoding")
    if nret:
        rep.ok(rule, f"{fq}: {nret} returning path(s) each decode from the handle; nothing is stored into the object")


def session_boundary(prog, rep, rule="session-boundary"):
    """Entering and leaving a context neither write to the file nor cut it: __enter__ opens and parses, __exit__ flushes/closes.
    (Purely syntactic over the two methods, so it gives a verdict even when the rest of the class cannot be modelled.)"""
    tdf = prog.need_cls("Tdf", "basictdf")
    enter = prog.need_method(tdf, "__enter__")
    exit_ = prog.need_method(tdf, "__exit__")
    handles = set()
    for st in walk_no_nested(enter.node):
        if isinstance(st, (ast.Assign, ast.AnnAssign)):
            tg = st.targets[0] if isinstance(st, ast.Assign) else st.target
            val_ = st.value
            if isinstance(val_, ast.Name):
                defs_ = [a for a in walk_no_nested(enter.node) if isinstance(a, (ast.Assign, ast.AnnAssign)) and getattr(a, "value", None) is not None
                         and any(isinstance(t_, ast.Name) and t_.id == val_.id for t_ in (a.targets if isinstance(a, ast.Assign) else [a.target]))]
                val_ = defs_[0].value if len(defs_) == 1 else val_
            if isinstance(tg, ast.Attribute) and isinstance(tg.value, ast.Name) and tg.value.id == "self" and val_ is not None \
                    and any(isinstance(c, ast.Call) and isinstance(c.func, ast.Attribute) and c.func.attr == "open" or isinstance(c, ast.Call) and norm(c.func) == "open" for c in ast.walk(val_)):
                handles.add(tg.attr)
    if not handles:
        raise AnalysisError("Tdf.__enter__ no longer assigns an opened file to an attribute (anchor vanished)")
    is_h = lambda e: isinstance(e, ast.Attribute) and isinstance(e.value, ast.Name) and e.value.id == "self" and e.attr in handles
    n = 0
    for f in (enter, exit_):
        fq = f"Tdf.{f.name}"
        bad = []
        for c in walk_no_nested(f.node):
            if not isinstance(c, ast.Call):
                continue
            if isinstance(c.func, ast.Attribute) and is_h(c.func.value) and c.func.attr in ("write", "writelines", "truncate"):
                bad.append((c, f"`{norm(c)[:70]}` writes to / cuts the file"))
            elif isinstance(c.func, ast.Attribute) and c.func.attr in ("bwrite", "_write", "write", "bpad", "pad") and any(is_h(a) for a in c.args):
                bad.append((c, f"`{norm(c)[:70]}` serialises into the session's handle"))
            elif norm(c.func) in ("os.truncate", "os.ftruncate", "os.write", "shutil.copy", "shutil.copyfile", "shutil.copy2", "shutil.move", "os.replace", "os.rename"):
                bad.append((c, f"`{norm(c)[:70]}` changes a file"))
        n += 1
        if bad:
            for c, why in bad:
                rep.fail(rule, tdf.module.path.name, fq, c, f"{why} while a context is being {'entered' if f is enter else 'left'}: bytes change outside any mutation "
                         "(e.g. a session-level roll-back undoes the valid operations that preceded a refused one)")
        else:
            rep.ok(rule, f"{fq}: no write, truncate or serialisation into self.{'/'.join(sorted(handles))}", nontrivial=True)
    rep.floor(rule, n, 2)


def eq_on_decoded_content(ct: Container, rep, rule="eq-on-decoded-content"):
    """Tdf.__eq__ compares what the files CONTAIN: everything it reaches (methods and properties of Tdf, transitively) obtains block
    content through the decoders (`<Class>._build(handle, ..)`), never as raw bytes read from the handle - stored bytes include the
    format's don't-care bytes (pads, reserved words, what follows a string's terminator), so two files with equal content would
    compare unequal."""
    tdf = ct.tdf
    eq = tdf.get("__eq__")
    if eq is None:
        raise AnalysisError("anchor vanished: Tdf.__eq__")
    by_name = {}
    for f in tdf.all_funcs():
        if f.kind != "setter":
            by_name.setdefault(f.name, []).append(f)
    seen, todo = set(), [eq]
    raw = []
    while todo:
        f = todo.pop()
        if id(f) in seen:
            continue
        seen.add(id(f))
        for x in walk_no_nested(f.node):
            if isinstance(x, ast.Attribute) and x.attr in by_name and isinstance(x.ctx, ast.Load) and isinstance(x.value, ast.Name):
                todo += by_name[x.attr]
            if isinstance(x, ast.Call) and isinstance(x.func, ast.Attribute) and x.func.attr in ("read", "readinto", "readline", "readlines", "read_bytes") \
                    and (ct.is_handle(x.func.value) or (isinstance(x.func.value, ast.Attribute) and x.func.value.attr == "file_path")) and f.name not in ("__enter__", "_open_and_parse"):
                raw.append((f, x))
    if raw:
        f, x = raw[0]
        rep.fail(rule, MOD(ct), f"Tdf.{f.name}", x, f"`{norm(x)[:60]}` hands raw stored bytes to the comparison of two files (reached from Tdf.__eq__): bytes the format leaves undefined "
                 "make files with equal content compare unequal", construct=f"Tdf.__eq__ reaches raw read in {f.name}")
    else:
        rep.ok(rule, f"Tdf.__eq__: {len(seen)} methods/properties reached, none reads raw bytes from the handle (content comes from the decoders)", nontrivial=True)
