"""E7 reference layout of the TDF format, written independently of the structure of the code
(from the BTS field comments, the hand-assembled byte strings of the test-suite and the reference capture).
It is data, not a copy of source text: it names fields, on-disk kinds, widths and counts.

Term language
  ("f", name, kind, size, shape)        one item        kind: i | u | f | x (integer, sign unspecified)
  ("pad", nbytes)                       reserved bytes (zero on write, ignored on read)
  ("a", name, kind, size, shape, n)     n items; n = name of an earlier count field | int
  ("s", name, width)                    NUL-terminated cp1252 string in a fixed field
  ("d", name)                           32-bit date
  ("raw", n)                            n raw bytes (signature)
  ("sub", name, Unit)                   one nested record
  ("rep", count_name, Unit)             count_name nested records
  ("segtable", count_name)              count_name rows of (i4 startFrame, i4 nFrames)
  ("segdata", [(kind,size,n), ...])     for every frame of every run: these scalars
  ("grid", name, kind, size, (a, b))    a*b counts, laid out [a][b]
  ("cells", (outer, inner), kind,size,shape)   for outer, for inner: grid[inner][outer] items
  ("alt", {(format members): [terms]})  by block format
  bias: ("f", ..., {"bias": -49}) - stored value = logical value + bias
"""

HEADER = [
    ("raw", 16),
    ("f", "version", "x", 4, ()),
    ("f", "nEntries", "i", 4, ()),
    ("pad", 8),
    ("d", "creation_date"),
    ("d", "last_modification_date"),
    ("d", "last_access_date"),
    ("pad", 20),
    ("rep", "nEntries", "TdfEntry"),
]
HEADER_CONSTANTS = {"version": 1, "nEntries": 14}

UNITS = {
    "TdfEntry": [
        ("f", "type", "u", 4, ()),
        ("f", "format", "u", 4, ()),
        ("f", "offset", "i", 4, ()),
        ("f", "size", "i", 4, ()),
        ("d", "creation_date"),
        ("d", "last_modification_date"),
        ("d", "last_access_date"),
        ("pad", 4),
        ("s", "comment", 256),
    ],
    "CameraViewPort": [("f", "origin", "i", 4, (2,)), ("f", "size", "i", 4, (2,))],
    # --- 3D data
    "Data3D": [
        ("f", "nFrames", "i", 4, ()),
        ("f", "frequency", "i", 4, ()),
        ("f", "startTime", "f", 4, ()),
        ("f", "nTracks", "u", 4, ()),
        ("f", "volume", "f", 4, (3,)),
        ("f", "rotationMatrix", "f", 4, (3, 3)),
        ("f", "translationVector", "f", 4, (3,)),
        ("f", "flag", "u", 4, ()),
        ("alt", {("byTrack", "byFrame"): [("f", "nLinks", "i", 4, ()), ("pad", 4), ("a", "links", "u", 4, (2,), "nLinks")],
                 ("byTrackWithoutLinks", "byFrameWithoutLinks"): []}),
        ("rep", "nTracks", "MarkerTrack"),
    ],
    "MarkerTrack": [("s", "label", 256), ("f", "nSegments", "i", 4, ()), ("pad", 4), ("segtable", "nSegments"),
                    ("segdata", [("f", 4, 3)])],
    # --- EMG
    "EMG": [
        ("f", "nSignals", "i", 4, ()),
        ("f", "frequency", "i", 4, ()),
        ("f", "startTime", "f", 4, ()),
        ("f", "nSamples", "i", 4, (), {"bias": -49}),
        ("a", "emgMap", "i", 2, (), "nSignals"),
        ("rep", "nSignals", "EMGTrack"),
    ],
    "EMGTrack": [("s", "label", 256), ("f", "nSegments", "i", 4, ()), ("pad", 4), ("segtable", "nSegments"),
                 ("segdata", [("f", 4, 1)])],
    # --- force / torque 3D
    "ForceTorque3D": [
        ("f", "nTracks", "x", 4, ()),
        ("f", "frequency", "i", 4, ()),
        ("f", "startTime", "f", 4, ()),
        ("f", "nFrames", "x", 4, ()),
        ("f", "volume", "f", 4, (3,)),
        ("f", "rotationMatrix", "f", 4, (3, 3)),
        ("f", "translationVector", "f", 4, (3,)),
        ("pad", 4),
        ("rep", "nTracks", "ForceTorqueTrack"),
    ],
    "ForceTorqueTrack": [("s", "label", 256), ("f", "nSegments", "i", 4, ()), ("pad", 4), ("segtable", "nSegments"),
                         ("segdata", [("f", 4, 3), ("f", 4, 3), ("f", 4, 3)])],
    # --- force platforms data
    "ForcePlatformsDataBlock": [
        ("f", "nPlats", "i", 4, ()),
        ("f", "frequency", "i", 4, ()),
        ("f", "startTime", "f", 4, ()),
        ("f", "nFrames", "i", 4, ()),
        ("a", "platMap", "u", 2, (), "nPlats"),
        ("rep", "nPlats", "ForcePlatformData"),
    ],
    "ForcePlatformData": [("f", "nSegments", "i", 4, ()), ("pad", 4), ("segtable", "nSegments"),
                          ("segdata", [("f", 4, 2), ("f", 4, 3), ("f", 4, 1)])],
    # --- force platforms calibration
    "ForcePlatformsCalibrationDataBlock": [
        ("f", "nPlats", "i", 4, ()),
        ("pad", 4),
        ("a", "platMap", "i", 2, (), "nPlats"),
        ("rep", "nPlats", "ForcePlatformInfo"),
    ],
    "ForcePlatformInfo": [("s", "label", 256), ("f", "size", "f", 4, (2,)), ("f", "position", "f", 4, (4, 3)), ("pad", 256)],
    # --- 2D data
    "Data2D": [
        ("f", "nCams", "i", 4, ()),
        ("f", "nFrames", "i", 4, ()),
        ("f", "frequency", "i", 4, ()),
        ("f", "startTime", "f", 4, ()),
        ("f", "flags", "u", 4, ()),
        ("a", "camMap", "x", 2, (), "nCams"),
        ("sub", "data", "Data2DPCK"),
    ],
    "Data2DPCK": [("grid", "nPoints", "u", 2, ("nCams", "nFrames")), ("cells", ("nFrames", "nCams"), "f", 4, (2,))],
    # --- calibration
    "CalibrationDataBlock": [
        ("f", "nCams", "i", 4, ()),
        ("f", "distorsionModel", "i", 4, ()),
        ("f", "volumeSize", "f", 4, (3,)),
        ("f", "volumeRotation", "f", 4, (3, 3)),
        ("f", "volumeTranslation", "f", 4, (3,)),
        ("a", "camMap", "i", 2, (), "nCams"),
        ("alt", {("Seelab1",): [("rep", "nCams", "SeelabCameraData")], ("BTS",): [("rep", "nCams", "BTSCameraData")]}),
    ],
    "SeelabCameraData": [
        ("f", "rotation_matrix", "f", 8, (3, 3)),
        ("f", "translation_vector", "f", 8, (3,)),
        ("f", "focus", "f", 8, (2,)),
        ("f", "optical_center", "f", 8, (2,)),
        ("f", "radial_distortion", "f", 8, (2,)),
        ("f", "decentering", "f", 8, (2,)),
        ("f", "thin_prism", "f", 8, (2,)),
        ("sub", "view_port", "CameraViewPort"),
    ],
    "BTSCameraData": [
        ("f", "rotation_matrix", "f", 8, (3, 3)),
        ("f", "translation_vector", "f", 8, (3,)),
        ("f", "focus", "f", 8, (2,)),
        ("f", "optical_center", "f", 8, (2,)),
        ("a", "x_distortion_coefficients", "f", 8, (), 70),
        ("a", "y_distortion_coefficients", "f", 8, (), 70),
        ("sub", "view_port", "CameraViewPort"),
    ],
    # --- optical setup
    "OpticalSetupBlock": [("f", "nChannels", "i", 4, ()), ("pad", 4), ("rep", "nChannels", "OpticalChannelData")],
    "OpticalChannelData": [
        ("f", "logical_camera_index", "i", 4, ()),
        ("pad", 4),
        ("s", "lens_name", 32),
        ("s", "camera_type", 32),
        ("s", "camera_name", 32),
        ("sub", "camera_viewport", "CameraViewPort"),
    ],
    # --- events
    "TemporalEventsData": [("f", "nEvents", "i", 4, ()), ("f", "start_time", "f", 4, ()), ("rep", "nEvents", "Event")],
    "Event": [("s", "label", 256), ("f", "type", "u", 4, ()), ("f", "nItems", "x", 4, ()), ("a", "values", "f", 4, (), "nItems")],
}

# block type code (jump table) -> top-level unit, for the oracle-sanity parse of the capture
BLOCK_TYPES = {
    2: "CalibrationDataBlock", 4: "Data2D", 5: "Data3D", 6: "OpticalSetupBlock", 7: "ForcePlatformsCalibrationDataBlock",
    9: "ForcePlatformsDataBlock", 11: "EMG", 12: "ForceTorque3D", 16: "TemporalEventsData",
}
# every type code the TDF jump table can carry (TDF_DATABLOCK_NOBLOCK = 0 .. TDF_DATABLOCK_EVENTS = 16): the entry decoder maps the
# stored code through the BlockType enum, so a code without a member makes a file holding such a block unreadable as a whole
ALL_TYPE_CODES = tuple(range(17))
# format code -> member name per block type (only what the reference needs to choose alternatives)
FORMATS = {
    "Data3D": {1: "byTrack", 2: "byTrackWithoutLinks", 3: "byFrame", 4: "byFrameWithoutLinks"},
    "CalibrationDataBlock": {1: "Seelab1", 2: "BTS"},
    # the codes below are those the jump table of the BTS capture records for the layouts the library implements
    # (plus the BTS constant names kept in the source comments: TDF_DATAPLAT_FORMAT_BYTRACK_ISS = 1, TDF_DATA2D_FORMAT_PCK = 2, ...)
    "EMG": {1: "byTrack", 2: "byFrame"},
    "ForceTorque3D": {1: "byTrack", 2: "byFrame"},
    "ForcePlatformsDataBlock": {1: "byTrackISSFormat", 2: "byFrameISSFormat"},
    "ForcePlatformsCalibrationDataBlock": {1: "ISSFormat", 2: "GRPFormat"},
    "Data2D": {1: "RTSFormat", 2: "PCKFormat", 3: "SYNCFormat"},
    "OpticalSetupBlock": {1: "basicFormat"},
    "TemporalEventsData": {1: "standard"},
}
