"""Development aid: print the markdown table of DESIGN.md section E from seeded/*/meta.json.   python -m sa.seed_table"""
import json
from .report import VERIF

if __name__ == "__main__":
    rows = []
    for d in sorted(x for x in (VERIF / "seeded").glob("*") if (x / "meta.json").exists()):
        m = json.loads((d / "meta.json").read_text())
        c = m.get("checks", {})
        own = c.get("own_property_check", {})
        desc = m["description_and_what_it_needs_to_manifest"].strip().splitlines()[0]
        desc = desc.replace("|", "/")[:110]
        verdict = own.get("verdict", "?")
        rules = ", ".join(own.get("rules", [])[:2]) or "-"
        also = ", ".join(sorted(c.get("other_checks_reporting", {}))) or "-"
        rows.append((m["id"], desc, f"{verdict} ({rules})", also))
    print("| id | change (first line of the author's description) | own check | also |")
    print("|---|---|---|---|")
    for r in rows:
        print("| " + " | ".join(r) + " |")
    import collections
    byround = collections.Counter()
    for r in rows:
        k = int(r[0].split("-m")[1])
        rnd = (k + 2) // 3
        byround[(rnd, r[2].split(" ")[0])] += 1
    print()
    for k in sorted(byround):
        print(f"round {k[0]}: {k[1]} {byround[k]}")
