"""Development aid: re-confirm seeded changes written by sub-agents in their scratch worktrees.
    python -m sa.confirm_seeded /tmp/wt 7 8 9      -> writes <worktree>/confirm_r<first k>.json
For every mutant: the demo exits 0 on the clean sources, the patch applies, the 39 baseline tests pass with it, the demo
exits non-zero with it; the worktree is restored afterwards.  Nothing here is part of a registered check."""
from __future__ import annotations

import json
import re
import subprocess
import sys
from concurrent.futures import ThreadPoolExecutor
from pathlib import Path

PY = "/venv/bin/python"


def sh(cmd, cwd, env=None, timeout=900):
    p = subprocess.run(cmd, cwd=str(cwd), env=env, capture_output=True, text=True, timeout=timeout)
    return p.returncode, p.stdout + p.stderr


def confirm(wt: Path, ks):
    import os
    env = dict(os.environ)
    env["PYTHONPATH"] = str(wt / "src")
    env["PYTHONDONTWRITEBYTECODE"] = "1"
    out = []
    for k in ks:
        mid = f"{wt.name}-m{k}"
        diff = wt / "mutants" / f"m{k}.diff"
        demo = wt / "mutants" / f"m{k}_demo.py"
        if not diff.exists() or not demo.exists():
            out.append({"mutant": mid, "missing": True})
            continue
        sh(["git", "checkout", "--", "src"], wt)
        try:
            c0, _ = sh([PY, str(demo)], wt, env)
            ap, _ = sh(["git", "apply", str(diff)], wt)
            tests = ""
            c1 = None
            if ap == 0:
                _, t = sh([PY, "-m", "pytest", "-q", "-p", "no:cacheprovider", "--continue-on-collection-errors"], wt, env)
                m = re.findall(r"^(?:=+ )?(\d+ passed.*?)(?: =+)?$", t, re.M)
                tests = m[-1] if m else t.strip().splitlines()[-1][:120]
                c1, _ = sh([PY, str(demo)], wt, env)
            out.append({"mutant": mid, "demo_clean_exit": c0, "patch_applied": ap, "tests": tests, "demo_mutant_exit": c1})
        except subprocess.TimeoutExpired:
            out.append({"mutant": mid, "timeout": True})
        finally:
            sh(["git", "checkout", "--", "src"], wt)
    (wt / f"confirm_r{ks[0]}.json").write_text(json.dumps(out, indent=1))
    return wt.name, out


if __name__ == "__main__":
    root = Path(sys.argv[1])
    ks = [int(a) for a in sys.argv[2:]] or [7, 8, 9]
    wts = sorted(root.glob("C??"))
    with ThreadPoolExecutor(max_workers=5) as ex:
        for name, res in ex.map(lambda w: confirm(w, ks), wts):
            for d in res:
                print(name, d)
