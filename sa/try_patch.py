"""Apply a unified diff (made against the repository root) to a scratch copy of /repo/src and run checks on it.
    python -m sa.try_patch <diff> [C01 C02 ...|all]
Prints per property: DETECTED / silent / UNDECIDED and the first report lines."""
from __future__ import annotations

import os
import shutil
import subprocess
import sys
import tempfile
from pathlib import Path

from .report import REPO, VERIF

PY = "/venv/bin/python"
ALL = [f"C{n:02d}" for n in range(1, 21)]


def scratch_with_patch(diff: Path):
    tmp = Path(tempfile.mkdtemp(prefix="basictdf-sa-", dir=os.environ.get("TMPDIR") or "/tmp"))
    shutil.copytree(REPO / "src", tmp / "src", ignore=shutil.ignore_patterns("__pycache__", "*.egg-info"))
    p = subprocess.run(["patch", "-p1", "-s", "-d", str(tmp), "-i", str(diff)], capture_output=True, text=True)
    if p.returncode != 0:
        shutil.rmtree(tmp, ignore_errors=True)
        raise RuntimeError(f"patch failed: {p.stdout} {p.stderr}")
    return tmp


def run(diff, props):
    tmp = scratch_with_patch(Path(diff))
    out = {}
    try:
        env = dict(os.environ)
        env["SA_REPO"] = str(tmp)
        env["SA_OUT"] = str(tmp / "evidence")
        start = lambda p: subprocess.Popen([PY, "-B", "-m", "sa.run", p, "quick"], cwd=str(VERIF), env=env, stdout=subprocess.PIPE, stderr=subprocess.STDOUT, text=True)
        props = list(props)
        # the first check computes (and caches) the normal forms of the patched tree; the others then read them
        pr = start(props[0])
        o, _ = pr.communicate(timeout=600)
        out[props[0]] = (pr.returncode, o)
        par = int(os.environ.get("SA_TRY_PAR", "20"))
        rest = props[1:]
        for i in range(0, len(rest), par):
            procs = {p: start(p) for p in rest[i:i + par]}
            for p, pr in procs.items():
                o, _ = pr.communicate(timeout=600)
                out[p] = (pr.returncode, o)
    finally:
        shutil.rmtree(tmp, ignore_errors=True)
    return out


if __name__ == "__main__":
    diff = sys.argv[1]
    props = [a.upper() for a in sys.argv[2:]] or ALL
    if props == ["ALL"]:
        props = ALL
    res = run(diff, props)
    for p in props:
        code, o = res[p]
        lines = [l.strip() for l in o.splitlines() if l.startswith("  ") or l.startswith("ANALYSIS-ERROR")]
        tag = {0: "silent   ", 1: "DETECTED ", 2: "UNDECIDED"}.get(code, str(code))
        if code != 0 or len(props) <= 3:
            print(f"{tag} {p} " + (lines[0][:260] if lines else ""))
            for l in lines[1:3]:
                print(f"            {l[:260]}")
