"""Development aid: normalised form of a function on a patched scratch copy.   python -m sa.normpatch <diff> basictdf Tdf.remove_block"""
import os, shutil, subprocess, sys
from pathlib import Path
from .try_patch import scratch_with_patch, PY
from .report import VERIF
if __name__ == "__main__":
    tmp = scratch_with_patch(Path(sys.argv[1]))
    try:
        env = dict(os.environ); env["SA_REPO"] = str(tmp)
        subprocess.run([PY, "-B", "-m", "sa.shownorm"] + sys.argv[2:], cwd=str(VERIF), env=env)
    finally:
        shutil.rmtree(tmp, ignore_errors=True)
