"""Apply textual single-site edits to a scratch copy of /repo/src (outside /repo and /verif) and run a
check against it.  Used by the self-test (E8) and for ad-hoc experiments:
    python -m sa.mutate C01 tdfEMG.py '+ 49' '+ 48'
"""
from __future__ import annotations

import os
import shutil
import subprocess
import sys
import tempfile
from pathlib import Path

from .report import REPO, VERIF

PY = "/venv/bin/python"


class VariantError(Exception):
    pass


def make_scratch(edits):
    """edits: list of (relative file under src/basictdf, old, new). Returns scratch repo root."""
    tmp = Path(tempfile.mkdtemp(prefix="basictdf-sa-", dir=os.environ.get("TMPDIR") or "/tmp"))
    try:
        dst = tmp / "src" / "basictdf"
        shutil.copytree(REPO / "src" / "basictdf", dst, ignore=shutil.ignore_patterns("__pycache__"))
        for fn, old, new in edits:
            p = dst / fn
            text = p.read_text()
            n = text.count(old)
            if n != 1:
                raise VariantError(f"{fn}: anchor text occurs {n} times (need exactly 1): {old!r}")
            p.write_text(text.replace(old, new))
            try:
                compile(p.read_text(), str(p), "exec")
            except SyntaxError as e:
                raise VariantError(f"{fn}: edited file does not compile: {e}")
        return tmp
    except Exception:
        shutil.rmtree(tmp, ignore_errors=True)
        raise


def run_check(prop, edits, tier="quick"):
    tmp = make_scratch(edits)
    try:
        env = dict(os.environ)
        env["SA_REPO"] = str(tmp)
        env["SA_OUT"] = str(tmp / "evidence")
        env.pop("VERIF_TIER", None)
        p = subprocess.run([PY, "-B", "-m", "sa.run", prop, tier], cwd=str(VERIF), env=env,
                           capture_output=True, text=True, timeout=300)
        return p.returncode, p.stdout + p.stderr
    finally:
        shutil.rmtree(tmp, ignore_errors=True)


if __name__ == "__main__":
    prop = sys.argv[1]
    rest = sys.argv[2:]
    edits = [(rest[i], rest[i + 1], rest[i + 2]) for i in range(0, len(rest), 3)]
    code, out = run_check(prop, edits)
    print(out)
    print("exit", code)
