"""E3 size polynomials: integer-coefficient polynomials over opaque atoms (canonical strings)."""
from __future__ import annotations


class Poly:
    __slots__ = ("t",)

    def __init__(self, terms=None):
        # terms: dict[tuple(sorted atoms)] -> int
        self.t = {k: v for k, v in (terms or {}).items() if v != 0}

    @staticmethod
    def const(n):
        return Poly({(): int(n)})

    @staticmethod
    def atom(a: str):
        return Poly({(a,): 1})

    def __add__(self, o):
        o = _p(o)
        d = dict(self.t)
        for k, v in o.t.items():
            d[k] = d.get(k, 0) + v
        return Poly(d)

    __radd__ = __add__

    def __neg__(self):
        return Poly({k: -v for k, v in self.t.items()})

    def __sub__(self, o):
        return self + (-_p(o))

    def __rsub__(self, o):
        return _p(o) - self

    def __mul__(self, o):
        o = _p(o)
        d = {}
        for k1, v1 in self.t.items():
            for k2, v2 in o.t.items():
                k = tuple(sorted(k1 + k2))
                # an indicator [c] takes the values 0 and 1: [c]*[c] = [c]
                if any(a.startswith("[") for a in k):
                    seen, kk = set(), []
                    for a in k:
                        if a.startswith("[") and a in seen:
                            continue
                        seen.add(a)
                        kk.append(a)
                    k = tuple(kk)
                d[k] = d.get(k, 0) + v1 * v2
        return Poly(d)

    __rmul__ = __mul__

    def is_const(self):
        return all(k == () for k in self.t)

    def const_value(self):
        return self.t.get((), 0) if self.is_const() else None

    def atoms(self):
        s = set()
        for k in self.t:
            s.update(k)
        return s

    def __eq__(self, o):
        return isinstance(o, Poly) and self.t == o.t

    def __hash__(self):
        return hash(frozenset(self.t.items()))

    def is_zero(self):
        return not self.t

    def map_atoms(self, fn):
        """fn(atom) -> Poly | str ; rebuild."""
        out = Poly()
        for k, v in self.t.items():
            term = Poly.const(v)
            for a in k:
                r = fn(a)
                term = term * (Poly.atom(r) if isinstance(r, str) else r)
            out = out + term
        return out

    def split_on(self, pred):
        """(part whose monomials contain an atom satisfying pred, rest)"""
        a, b = {}, {}
        for k, v in self.t.items():
            (a if any(pred(x) for x in k) else b)[k] = v
        return Poly(a), Poly(b)

    def __str__(self):
        if not self.t:
            return "0"
        parts = []
        for k in sorted(self.t, key=lambda k: (len(k), k)):
            v = self.t[k]
            if k == ():
                parts.append(str(v))
            else:
                body = "*".join(k)
                parts.append(body if v == 1 else f"{v}*{body}")
        return " + ".join(parts).replace("+ -", "- ")

    __repr__ = __str__


def _p(x):
    return x if isinstance(x, Poly) else Poly.const(x)
