"""C09 the file stays compact (DESIGN 3/C09)."""
from ..container import Container
from .. import mutrules as M


def run(prog, rep):
    ct = Container(prog)
    rep.explanation = (
        "offset-provenance: the offset given to the slot appended by remove_block is classified by where it is read "
        "relative to the shift loop (dominance on the CFG) and must be end-of-data of the post-shift table; "
        "tail-move-order: seek(end of removed) -> read() -> seek(start of removed) -> write -> truncate -> flush by "
        "dominance with nothing moving the cursor in between; repoint-later-slots and shift-loop: the loops cover the "
        "whole tail of the table unconditionally; initial-layout: Tdf.new's slots point at HDR + N*ENT."
    )
    rep.attempt(lambda: M.offset_provenance(ct, rep))
    rep.attempt(lambda: M.tail_move(ct, rep))
    rep.attempt(lambda: M.repoint_later(ct, rep))
    rep.attempt(lambda: M.shift_loop(ct, rep))
    rep.attempt(lambda: M.initial_layout(ct, rep))
    # the offsets computed above describe the FILE only if every table change is also written to its slot
    rep.attempt(lambda: M.dirty_entry(ct, rep, rule="table-pairing"))
    rep.attempt(lambda: M.slot_position(ct, rep, rule="table-pairing/slot"))
    # entry.size / the end-of-data offsets are taken from nBytes: they describe the bytes only if nBytes == bytes written
    from ..codecs import Codecs
    from .c02 import size_identity
    cd = Codecs(prog)
    cd.flag_errors(rep)
    rep.attempt(size_identity, prog, cd, rep, with_consumed=False)
    # .. for every block object the container is handed - also one that came out of a file: a decoded block declares the size of
    # what it will write only if every attribute the writer reads comes back in the kind the writer's size polynomial assumes
    from .c01 import attr_linkage
    for u_ in cd.units.values():
        rep.attempt(attr_linkage, rep, cd, u_, rule="size-of-decoded-object")
    # .. which identifies len(map) with len(items): true only while the two lists are mutated pairwise on every path
    from .c01 import equivalence_discharge
    equivalence_discharge(prog, cd, rep)
    # .. and relies on the field primitives: bwrite / bpad emit exactly itemsize x n bytes also into an in-memory buffer (a pad that
    # only seeks adds nothing at the end of a buffer), and a string read back from a table entry can be written again (the same codec)
    from .. import primitives as PR
    rep.attempt(PR.tdftype_primitives, prog, rep)
    rep.attempt(PR.string_codec, prog, rep)
    # add_block places the block at the offset of the slot it takes over, sizes it by nBytes and re-points the later slots
    rep.attempt(ct.check_c02, rep)
    # a refused add/remove inside a history must leave table and file as they were: a phantom entry left in the table puts
    # an unused slot in front of a live one at the next successful call
    from .c07 import path_rules
    rep.attempt(path_rules, ct, Codecs(prog), rep, names=("add_block", "remove_block"), include_setters=False, prefix="refusal-leaves-table/")
    rep.attempt(lambda: M.parse_on_enter(ct, rep))
    rep.attempt(lambda: M.flush_on_exit(ct, rep))
    # every table entry is exactly ENT bytes only if the comment field is exactly 256 bytes
    from .c13 import string_write_rules
    rep.attempt(string_write_rules, prog, rep)
    rep.not_decided += ["the arithmetic identity file length = header + table + sum of sizes over concrete histories"]
