"""C18 index, label, membership, iteration and length are coherent (DESIGN 3/C18)."""
from __future__ import annotations

import ast

from ..index import is_self_attr, walk_no_nested
from ..report import AnalysisError, head, norm

CLASSES = [("tdfData3D", "Data3D"), ("tdfForce3D", "ForceTorque3D"), ("tdfEMG", "EMG"), ("tdfEvents", "TemporalEventsData")]
MUTATING = ("append", "remove", "insert", "pop", "clear", "extend", "sort", "reverse")


NP_INPLACE_FUNCS = ("np.put", "np.place", "np.copyto", "np.putmask", "np.fill_diagonal", "numpy.put", "numpy.place", "numpy.copyto", "numpy.putmask")
ARRAY_INPLACE_METHODS = ("sort", "fill", "resize", "partition", "itemset", "setfield", "put", "byteswap", "setflags")


def inplace_effect(fn, roots):
    """(node, why) for the first statement / call in `fn` that writes into an object reachable from the names in `roots`
    (attribute or item store, mutating method, numpy call asked to work in place: copy=False / out=), else None."""
    def rooted(e):
        while isinstance(e, (ast.Attribute, ast.Subscript)):
            e = e.value
        return isinstance(e, ast.Name) and e.id in roots

    for x in walk_no_nested(fn):
        if isinstance(x, (ast.Assign, ast.AugAssign, ast.AnnAssign, ast.Delete)):
            for t in (x.targets if isinstance(x, (ast.Assign, ast.Delete)) else [x.target]):
                if isinstance(t, (ast.Attribute, ast.Subscript)) and rooted(t):
                    return x, f"`{norm(head(x))[:60]}` stores into an operand"
        if isinstance(x, ast.Call):
            fname = norm(x.func)
            if isinstance(x.func, ast.Attribute) and x.func.attr in MUTATING + ARRAY_INPLACE_METHODS and rooted(x.func.value) and isinstance(x.func.value, (ast.Attribute, ast.Subscript)):
                return x, f"`{norm(x)[:60]}` changes an operand's data in place"
            if fname in NP_INPLACE_FUNCS and x.args and rooted(x.args[0]):
                return x, f"`{norm(x)[:60]}` writes into an operand's array"
            for kw in x.keywords:
                if kw.arg == "copy" and isinstance(kw.value, ast.Constant) and kw.value.value is False and fname.split(".")[0] in ("np", "numpy") and any(rooted(a) for a in x.args):
                    return x, f"`{norm(x)[:60]}` (copy=False) overwrites an operand's array in place"
                if kw.arg == "out" and rooted(kw.value):
                    return x, f"`{norm(x)[:60]}` writes its result into an operand (out=)"
    return None


def self_attrs_read(node, sn="self"):
    return [n.attr for n in ast.walk(node) if is_self_attr(n, self_name=sn) and isinstance(n.ctx, ast.Load)]


def isinstance_branches(fn, param):
    """[(type name or tuple names, body stmts)] of the top-level if/elif chain on isinstance(param, T); plus the tail statements."""
    out = []
    tail = []
    body = [s for s in fn.body if not (isinstance(s, ast.Expr) and isinstance(s.value, ast.Constant))]
    i = 0
    while i < len(body):
        st = body[i]
        if isinstance(st, ast.If):
            cur = st
            while True:
                t = cur.test
                if isinstance(t, ast.Call) and norm(t.func) == "isinstance" and len(t.args) == 2 and norm(t.args[0]) == param:
                    out.append((norm(t.args[1]), cur.body, cur))
                else:
                    out.append(("?" + norm(t), cur.body, cur))
                if len(cur.orelse) == 1 and isinstance(cur.orelse[0], ast.If):
                    cur = cur.orelse[0]
                    continue
                if cur.orelse:
                    tail = cur.orelse
                break
        else:
            tail = body[i:]
            break
        i += 1
    return out, tail


def label_predicate(gen_or_comp, key, container):
    """generator `(e for e in self.X if e.label == key)`: returns (ok, why)"""
    g = gen_or_comp.generators
    if len(g) != 1:
        return False, "more than one generator"
    if not is_self_attr(g[0].iter, container):
        return False, f"iterates `{norm(g[0].iter)}`, not self.{container} in list order"
    v = norm(g[0].target)
    conds = list(g[0].ifs)
    elt = gen_or_comp.elt
    if isinstance(gen_or_comp, ast.GeneratorExp) or isinstance(gen_or_comp, ast.ListComp):
        pass
    if conds:
        pred = conds[0] if len(conds) == 1 else None
    else:
        pred = elt  # any(e.label == key for e in ...)
    if pred is None or not (isinstance(pred, ast.Compare) and len(pred.ops) == 1 and isinstance(pred.ops[0], ast.Eq)):
        return False, f"predicate `{norm(pred) if pred is not None else conds}` is not an exact `==` on the label"
    a, b = norm(pred.left), norm(pred.comparators[0])
    if {a, b} == {f"{v}.label", key}:
        return True, ""
    return False, f"predicate `{norm(pred)}` is not `{v}.label == {key}` (no normalisation allowed)"


def raises(stmts, exc):
    for s in stmts:
        if isinstance(s, ast.Raise) and s.exc is not None:
            e = s.exc.func if isinstance(s.exc, ast.Call) else s.exc
            if norm(e) == exc:
                return True
    return False


def check_class(prog, rep, modname, cname):
    c = prog.need_cls(cname, modname)
    mod = c.module.path.name
    meths = {n: prog.need_method(c, n) for n in ("__getitem__", "__contains__", "__iter__", "__len__")}
    containers = {}
    # __len__
    f = meths["__len__"]
    rets = [s for s in walk_no_nested(f.node) if isinstance(s, ast.Return)]
    if len(rets) == 1 and isinstance(rets[0].value, ast.Call) and norm(rets[0].value.func) == "len" and is_self_attr(rets[0].value.args[0]):
        containers["__len__"] = rets[0].value.args[0].attr
        rep.ok("accessor-same-container", f"{cname}.__len__ = len(self.{containers['__len__']})")
    else:
        rep.fail("accessor-same-container", mod, f"{cname}.__len__", rets[0] if rets else f.node, "__len__ is not len(<the item list>)")
    # __iter__
    f = meths["__iter__"]
    rets = [s for s in walk_no_nested(f.node) if isinstance(s, ast.Return)]
    if len(rets) == 1 and isinstance(rets[0].value, ast.Call) and norm(rets[0].value.func) == "iter" and rets[0].value.args and is_self_attr(rets[0].value.args[0]):
        containers["__iter__"] = rets[0].value.args[0].attr
        rep.ok("accessor-same-container", f"{cname}.__iter__ = iter(self.{containers['__iter__']})")
    else:
        yf = [n for n in walk_no_nested(f.node) if isinstance(n, ast.YieldFrom) and is_self_attr(n.value)]
        if yf:
            containers["__iter__"] = yf[0].value.attr
            rep.ok("accessor-same-container", f"{cname}.__iter__ yields from self.{containers['__iter__']}")
        else:
            rep.fail("accessor-same-container", mod, f"{cname}.__iter__", rets[0] if rets else f.node, "__iter__ does not iterate the item list in order")
    # __getitem__ / __contains__ on path summaries: what each path's guards say about the key's type decides which clause of
    # the contract the path has to satisfy; the way the dispatch is written (elif chain, guard clauses, merged tests) does not
    from ..facts import path_returns, split_ifexp, type_facts

    def lookup_gen(v):
        """(generator, has default) when v is next(<gen over the items>[, None]); also self.X[next(i for i, e in enumerate(self.X) if c)]:
        the element at the first matching position is the first matching element"""
        if isinstance(v, ast.Subscript) and is_self_attr(v.value) and isinstance(v.slice, ast.Call) and norm(v.slice.func) == "next" and len(v.slice.args) == 1 \
                and isinstance(v.slice.args[0], ast.GeneratorExp) and len(v.slice.args[0].generators) == 1:
            g = v.slice.args[0].generators[0]
            if isinstance(g.iter, ast.Call) and norm(g.iter.func) == "enumerate" and len(g.iter.args) == 1 and norm(g.iter.args[0]) == norm(v.value) \
                    and isinstance(g.target, ast.Tuple) and len(g.target.elts) == 2 and norm(v.slice.args[0].elt) == norm(g.target.elts[0]):
                gen = ast.GeneratorExp(elt=g.target.elts[1], generators=[ast.comprehension(target=g.target.elts[1], iter=g.iter.args[0], ifs=g.ifs, is_async=0)])
                return gen, False
            # next(i for i in range(len(self.X)) if <cond over self.X[i]>)
            if isinstance(g.iter, ast.Call) and norm(g.iter.func) == "range" and len(g.iter.args) == 1 and norm(g.iter.args[0]) == f"len({norm(v.value)})" \
                    and isinstance(g.target, ast.Name) and norm(v.slice.args[0].elt) == g.target.id:
                i_, base = g.target.id, norm(v.value)
                elem = ast.Name(id="_item", ctx=ast.Load())

                class R(ast.NodeTransformer):
                    def visit_Subscript(self, n):
                        if norm(n) == f"{base}[{i_}]":
                            return elem
                        self.generic_visit(n)
                        return n

                import copy as _copy
                ifs = [R().visit(_copy.deepcopy(c)) for c in g.ifs]
                if not any(isinstance(x, ast.Name) and x.id == i_ for c in ifs for x in ast.walk(c)):
                    gen = ast.GeneratorExp(elt=elem, generators=[ast.comprehension(target=ast.Name(id="_item", ctx=ast.Store()), iter=v.value, ifs=ifs, is_async=0)])
                    return gen, False
        if isinstance(v, ast.Call) and norm(v.func) == "next" and v.args and isinstance(v.args[0], (ast.GeneratorExp, ast.ListComp)):
            if len(v.args) == 1 and not v.keywords:
                return v.args[0], False
            if len(v.args) == 2 and isinstance(v.args[1], ast.Constant) and v.args[1].value is None:
                return v.args[0], True
        return None, False

    f = meths["__getitem__"]
    key = f.params[0]
    fq = f"{cname}.__getitem__"
    seen = {"int": 0, "str": 0, "other": 0, "absent": 0}
    for pe in path_returns(f.node):
        tf = type_facts(pe.guards, key)
        cat = "int" if tf.get("int") else ("str" if tf.get("str") else "other")
        if pe.kind == "raise":
            exc = pe.value.func if isinstance(pe.value, ast.Call) else pe.value
            en = norm(exc) if exc is not None else ""
            if cat == "other":
                seen["other"] += 1
                if en != "TypeError":
                    rep.fail("getitem-contract", mod, fq, pe.node, f"an unsupported key type raises {en}, not TypeError", construct=f"{fq} fallthrough")
            elif cat == "int":
                # 'indexing by position i returns the i-th iterated item' for EVERY position iteration covers: a refusal of an integer
                # key may look at the number of items only (len(self.<items>) / len(self)); a bound taken from another attribute
                # (frames, samples, a header count) refuses valid positions whenever the two numbers differ
                for t, pol in pe.guards:
                    if any(isinstance(x, ast.Call) and norm(x.func) == "isinstance" for x in ast.walk(t)):
                        continue
                    inside_len = {id(y) for x in ast.walk(t) if isinstance(x, ast.Call) and norm(x.func) == "len" for y in ast.walk(x)}
                    foreign = [x for x in ast.walk(t) if isinstance(x, ast.Attribute) and isinstance(x.value, ast.Name) and x.value.id == "self" and id(x) not in inside_len]
                    if foreign and any(isinstance(x, ast.Name) and x.id == key for x in ast.walk(t)):
                        rep.fail("getitem-contract", mod, fq, pe.node, f"an integer key is refused under `{norm(t)[:70]}`, a bound taken from `{norm(foreign[0])}` and not from the number of items: "
                                 "positions that iteration and len() cover raise whenever the two numbers differ", construct=f"{fq} int bound {norm(foreign[0])}")
            elif cat == "str":
                seen["absent"] += 1
                if en != "KeyError":
                    rep.fail("getitem-contract", mod, fq, pe.node, f"an absent label raises {en}, not KeyError (StopIteration must be translated)", construct=f"{fq} absent label")
            continue
        v = pe.value
        if cat == "int":
            seen["int"] += 1
            if pe.kind == "return" and isinstance(v, ast.Subscript) and is_self_attr(v.value) and norm(v.slice) == key:
                containers["__getitem__/int"] = v.value.attr
                rep.ok("getitem-contract", f"{fq}: int -> self.{v.value.attr}[{key}]")
            else:
                rep.fail("getitem-contract", mod, fq, pe.node, "integer key does not return the item at that list position", construct=f"{fq} int branch")
        elif cat == "str":
            seen["str"] += 1
            gen, has_default = lookup_gen(v) if pe.kind == "return" else (None, False)
            if gen is None:
                rep.fail("getitem-contract", mod, fq, pe.node, "label lookup does not take the FIRST match in iteration order (next(<generator over the items>))", construct=f"{fq} str branch")
                continue
            cont = gen.generators[0].iter.attr if is_self_attr(gen.generators[0].iter) else None
            okp, why = label_predicate(gen, key, cont) if cont else (False, f"iterates `{norm(gen.generators[0].iter)}`")
            if not okp:
                rep.fail("getitem-contract", mod, fq, pe.node, f"label lookup: {why}", construct=f"{fq} label predicate")
                continue
            if has_default and not any(norm(t).replace(" ", "") == norm(v).replace(" ", "") + "isnotNone" and pol for t, pol in pe.guards):
                rep.fail("getitem-contract", mod, fq, pe.node, "an absent label does not raise KeyError (the lookup has a default that is returned)", construct=f"{fq} absent label")
                continue
            containers["__getitem__/str"] = cont
            seen["lookup_default"] = has_default
        else:
            seen["other"] += 1
            rep.fail("getitem-contract", mod, fq, pe.node, "an unsupported key type does not raise TypeError", construct=f"{fq} fallthrough")
    if not seen["int"]:
        rep.fail("getitem-contract", mod, fq, f.node, "no integer-key branch", construct=f"{fq} int branch")
    if not seen["str"]:
        rep.fail("getitem-contract", mod, fq, f.node, "no label-key branch", construct=f"{fq} str branch")
    elif "__getitem__/str" in containers:
        if seen["absent"]:
            rep.ok("getitem-contract", f"{fq}: str -> first item of self.{containers['__getitem__/str']} with label == key, KeyError when none", nontrivial=True)
        else:
            rep.fail("getitem-contract", mod, fq, f.node, "an absent label does not raise KeyError (StopIteration must be translated, no default)", construct=f"{fq} absent label")
    if seen["other"]:
        rep.ok("getitem-contract", f"{fq}: any other key type raises TypeError")
    else:
        rep.fail("getitem-contract", mod, fq, f.node, "an unsupported key type does not raise TypeError", construct=f"{fq} fallthrough")
    # __contains__
    f = meths["__contains__"]
    val = f.params[0]
    fq = f"{cname}.__contains__"
    seen_str = seen_item = seen_other = False
    from ..facts import PathEnd, split_ifexp
    ends = []
    for pe0 in path_returns(f.node):
        if pe0.kind == "return" and isinstance(pe0.value, ast.IfExp):
            # a conditional result is one path per arm
            for conds, leaf in split_ifexp(pe0.value):
                ends.append(PathEnd(pe0.guards + conds, "return", leaf, pe0.node, pe0.effects))
        else:
            ends.append(pe0)
    for pe in ends:
        tf = type_facts(pe.guards, val)
        item_types = [t for t, b in tf.items() if b and t != "str"]
        cat = "str" if tf.get("str") else ("item" if item_types else "other")
        if pe.kind == "raise":
            exc = pe.value.func if isinstance(pe.value, ast.Call) else pe.value
            en = norm(exc) if exc is not None else ""
            if cat == "other":
                seen_other = True
                if en != "TypeError":
                    rep.fail("contains-contract", mod, fq, pe.node, f"an unsupported value type raises {en}, not TypeError", construct=f"{fq} fallthrough")
            else:
                rep.fail("contains-contract", mod, fq, pe.node, f"membership of a {cat} value raises {en} instead of answering", construct=f"{fq} {cat} raises")
            continue
        v = pe.value if pe.kind == "return" else None
        if cat == "str":
            seen_str = True
            if isinstance(v, ast.Call) and norm(v.func) == "any" and v.args and isinstance(v.args[0], (ast.GeneratorExp, ast.ListComp)):
                gen = v.args[0]
                cont = gen.generators[0].iter.attr if is_self_attr(gen.generators[0].iter) else None
                okp, why = label_predicate(gen, val, cont) if cont else (False, f"iterates `{norm(gen.generators[0].iter)}`")
                if okp:
                    containers["__contains__/str"] = cont
                    rep.ok("contains-contract", f"{fq}: str -> any(item.label == value) over self.{cont} (same predicate as lookup)", nontrivial=True)
                else:
                    rep.fail("contains-contract", mod, fq, pe.node, f"label membership: {why}", construct=f"{fq} label predicate")
            elif isinstance(v, ast.Constant) and isinstance(v.value, bool):
                # membership stated through the lookup itself: `try: self[value]  except KeyError: return False`, then `return True` -
                # "contained exactly when lookup by it succeeds", with __getitem__'s label branch decided by getitem-contract
                caught = [t for t, pol in pe.guards if pol and isinstance(t, ast.Call) and isinstance(t.func, ast.Name) and t.func.id == "__except__"]
                tr = getattr(caught[0], "_try", None) if caught else None
                looked = [e for e in pe.effects if isinstance(e, ast.Expr) and ((isinstance(e.value, ast.Subscript) and norm(e.value.value) == "self" and norm(e.value.slice) == val)
                                                                               or (isinstance(e.value, ast.Call) and norm(e.value.func) == "self.__getitem__" and [norm(a) for a in e.value.args] == [val]))]
                if caught:
                    body_is_lookup = tr is not None and len(tr.body) == 1 and isinstance(tr.body[0], ast.Expr) and (
                        (isinstance(tr.body[0].value, ast.Subscript) and norm(tr.body[0].value.value) == "self" and norm(tr.body[0].value.slice) == val)
                        or (isinstance(tr.body[0].value, ast.Call) and norm(tr.body[0].value.func) == "self.__getitem__" and [norm(a) for a in tr.body[0].value.args] == [val]))
                    if v.value is False and body_is_lookup and [norm(a) for a in caught[0].args] == ["KeyError"]:
                        rep.ok("contains-contract", f"{fq}: str -> False when the lookup self[{val}] raises KeyError", nontrivial=True)
                    else:
                        rep.fail("contains-contract", mod, fq, pe.node, "label membership is not decided by the label lookup failing with KeyError", construct=f"{fq} str branch")
                elif v.value is True and looked:
                    containers.setdefault("__contains__/str", containers.get("__getitem__/str", containers.get("__len__")))
                    rep.ok("contains-contract", f"{fq}: str -> True after the lookup self[{val}] succeeded", nontrivial=True)
                else:
                    rep.fail("contains-contract", mod, fq, pe.node, "label membership is not any(item.label == value for item in <list>)", construct=f"{fq} str branch")
            else:
                rep.fail("contains-contract", mod, fq, pe.node, "label membership is not any(item.label == value for item in <list>)", construct=f"{fq} str branch")
        elif cat == "item":
            seen_item = True
            if isinstance(v, ast.Compare) and len(v.ops) == 1 and isinstance(v.ops[0], ast.In) and norm(v.left) == val and is_self_attr(v.comparators[0]):
                containers["__contains__/item"] = v.comparators[0].attr
                rep.ok("contains-contract", f"{fq}: {item_types[0]} -> value in self.{v.comparators[0].attr}")
            else:
                rep.fail("contains-contract", mod, fq, pe.node, "item membership is not `value in <list>`", construct=f"{fq} item branch")
        else:
            others = [norm(t) for t, pol in pe.guards if not (isinstance(t, ast.Call) and norm(t.func) == "isinstance")]
            if others and not tf:
                rep.fail("contains-contract", mod, fq, pe.node, f"dispatch on `{others[0]}` instead of the value's type", construct=f"{fq} dispatch")
            else:
                rep.fail("contains-contract", mod, fq, pe.node, "an unsupported value type does not raise TypeError", construct=f"{fq} fallthrough")
    if not seen_str:
        rep.fail("contains-contract", mod, fq, f.node, "no label branch", construct=f"{fq} str branch")
    if not seen_item:
        rep.fail("contains-contract", mod, fq, f.node, "no item-object branch", construct=f"{fq} item branch")
    if seen_other:
        rep.ok("contains-contract", f"{fq}: other types raise TypeError")
    else:
        rep.fail("contains-contract", mod, fq, f.node, "an unsupported value type does not raise TypeError", construct=f"{fq} fallthrough")
    # same container everywhere
    vals = set(containers.values())
    if len(vals) == 1:
        rep.ok("accessor-same-container", f"{cname}: all {len(containers)} access paths read self.{vals.pop()}", nontrivial=True)
    else:
        rep.fail("accessor-same-container", mod, cname, c.node, f"accessors read different containers: {containers}", construct=f"class {cname} accessor containers")
    # keys are dispatched by isinstance (a numpy.str_ label, a bool / IntEnum position are a str / an int): an exact-type test
    # refuses in __getitem__ what __contains__ accepts
    for n, f in meths.items():
        for x in walk_no_nested(f.node):
            if isinstance(x, ast.Compare) and len(x.ops) == 1 and isinstance(x.ops[0], (ast.Eq, ast.Is, ast.NotEq, ast.IsNot)):
                for side in (x.left, x.comparators[0]):
                    if isinstance(side, ast.Call) and norm(side.func) == "type" and len(side.args) == 1 and isinstance(side.args[0], ast.Name) and side.args[0].id in f.params:
                        rep.fail("getitem-contract" if n == "__getitem__" else "contains-contract", mod, f"{cname}.{n}", x,
                                 f"`{norm(x)}` dispatches on the exact type of the key: instances of subclasses (numpy.str_, bool, an IntEnum) are treated as unsupported keys although "
                                 "they are labels / positions", construct=f"{cname}.{n} exact type test")
    # purity
    for n, f in meths.items():
        sn = f.self_name or "self"
        bad = None
        for x in walk_no_nested(f.node):
            if isinstance(x, (ast.Assign, ast.AugAssign, ast.AnnAssign, ast.Delete)):
                tg = x.targets if isinstance(x, (ast.Assign, ast.Delete)) else [x.target]
                for t in tg:
                    base = t
                    while isinstance(base, (ast.Attribute, ast.Subscript)):
                        base = base.value
                    if isinstance(base, ast.Name) and base.id == sn:
                        bad = x
            if isinstance(x, ast.Call) and isinstance(x.func, ast.Attribute):
                base = x.func.value
                root = base
                while isinstance(root, (ast.Attribute, ast.Subscript)):
                    root = root.value
                if isinstance(root, ast.Name) and root.id == sn and (x.func.attr in MUTATING or (base is root and x.func.attr not in ("__len__",) and not x.func.attr.startswith("__") and prog.lookup_method(c, x.func.attr) is not None)):
                    bad = x
        if bad is None:
            rep.ok("accessor-purity", f"{cname}.{n}: no store to self, no mutating call")
        else:
            rep.fail("accessor-purity", mod, f"{cname}.{n}", bad, "an accessor changes the block (store to self or mutating call)")
    # membership by item object (`x in self.<items>`) compares with the items' own __eq__: that comparison must not write either
    from .. import facts as _facts
    for attr_ in set(containers.values()) if isinstance(containers, dict) else []:
        k = _facts.element_class(prog, c, attr_)
        eqf = k.get("__eq__") if k is not None else None
        if eqf is None:
            continue
        bad = inplace_effect(eqf.node, {a.arg for a in eqf.node.args.args})
        fq = f"{k.name}.__eq__"
        if bad is None:
            rep.ok("accessor-purity", f"{fq} (reached by `item in {cname}`): writes neither operand", nontrivial=True)
        else:
            rep.fail("accessor-purity", k.module.path.name, fq, bad[0], f"{bad[1]}: `item in block` (a read) then changes the tracks it is compared with", construct=f"{fq} {norm(bad[0])[:60]}")


def refusal_message_total(prog, rep, modname, cname, rule="getitem-contract"):
    """The KeyError / TypeError of a lookup is the contract; building its message must not be able to raise something else first.
    The message is text with the key interpolated (constant, f-string over names / attributes / len() / type() / repr() / str()):
    a `%` or `.format` applied to text that already contains the key fails for keys such as '50%' or '{x}' (ValueError / KeyError
    / IndexError from the formatting), and the caller sees that instead of the refusal."""
    c = prog.need_cls(cname, modname)
    mod = c.module.path.name
    n = 0
    for mname in ("__getitem__", "__contains__"):
        f = prog.need_method(c, mname)
        for r in [x for x in walk_no_nested(f.node) if isinstance(x, ast.Raise) and isinstance(x.exc, ast.Call)]:
            for a in list(r.exc.args) + [k.value for k in r.exc.keywords]:
                n += 1
                bad = None
                from ..facts import template_call_is_total
                total = {id(z) for y in ast.walk(a) if template_call_is_total(c.module.tree, y) for z in ast.walk(y)}
                for y in ast.walk(a):
                    if id(y) in total:
                        continue   # a module-level constant template filled with plain values
                    if isinstance(y, (ast.Constant, ast.JoinedStr, ast.FormattedValue, ast.Name, ast.Attribute, ast.Load, ast.Subscript, ast.Tuple)):
                        continue
                    if isinstance(y, ast.Call) and isinstance(y.func, ast.Name) and y.func.id in ("type", "len", "repr", "str") and not y.keywords:
                        continue
                    bad = y
                    break
                if bad is not None:
                    rep.fail(rule, mod, f"{cname}.{mname}", r, f"the message of `raise {norm(r.exc.func)}` is built with `{norm(bad)[:60]}`: formatting text that already contains the key can itself raise "
                             "(a label with '%' or braces), and that error replaces the refusal", construct=f"{cname}.{mname} refusal message")
                else:
                    rep.ok(rule, f"{cname}.{mname}: message of {norm(r.exc.func)} is plain interpolation")
    return n


def run(prog, rep):
    rep.explanation = (
        "sibling cross-check over Data3D, ForceTorque3D, EMG, TemporalEventsData: the four accessors of a class read the same "
        "container attribute; __getitem__ is a three-way dispatch (int -> list position, str -> FIRST item whose label == key "
        "else KeyError, anything else TypeError); __contains__ uses the same literal label predicate; none of the 16 methods "
        "stores to self or calls a mutator."
    )
    n = 0
    for modname, cname in CLASSES:
        check_class(prog, rep, modname, cname)
        rep.attempt(refusal_message_total, prog, rep, modname, cname)
        n += 4
    rep.floor("accessors", n, 16)
    rep.not_decided += ["bool / numpy-integer keys beyond what isinstance(key, int) says"]
