"""C18 index, label, membership, iteration and length are coherent (DESIGN 3/C18)."""
from __future__ import annotations

import ast

from ..index import is_self_attr, walk_no_nested
from ..report import AnalysisError, head, norm

CLASSES = [("tdfData3D", "Data3D"), ("tdfForce3D", "ForceTorque3D"), ("tdfEMG", "EMG"), ("tdfEvents", "TemporalEventsData")]
MUTATING = ("append", "remove", "insert", "pop", "clear", "extend", "sort", "reverse")


def self_attrs_read(node, sn="self"):
    return [n.attr for n in ast.walk(node) if is_self_attr(n, self_name=sn) and isinstance(n.ctx, ast.Load)]


def isinstance_branches(fn, param):
    """[(type name or tuple names, body stmts)] of the top-level if/elif chain on isinstance(param, T); plus the tail statements."""
    out = []
    tail = []
    body = [s for s in fn.body if not (isinstance(s, ast.Expr) and isinstance(s.value, ast.Constant))]
    i = 0
    while i < len(body):
        st = body[i]
        if isinstance(st, ast.If):
            cur = st
            while True:
                t = cur.test
                if isinstance(t, ast.Call) and norm(t.func) == "isinstance" and len(t.args) == 2 and norm(t.args[0]) == param:
                    out.append((norm(t.args[1]), cur.body, cur))
                else:
                    out.append(("?" + norm(t), cur.body, cur))
                if len(cur.orelse) == 1 and isinstance(cur.orelse[0], ast.If):
                    cur = cur.orelse[0]
                    continue
                if cur.orelse:
                    tail = cur.orelse
                break
        else:
            tail = body[i:]
            break
        i += 1
    return out, tail


def label_predicate(gen_or_comp, key, container):
    """generator `(e for e in self.X if e.label == key)`: returns (ok, why)"""
    g = gen_or_comp.generators
    if len(g) != 1:
        return False, "more than one generator"
    if not is_self_attr(g[0].iter, container):
        return False, f"iterates `{norm(g[0].iter)}`, not self.{container} in list order"
    v = norm(g[0].target)
    conds = list(g[0].ifs)
    elt = gen_or_comp.elt
    if isinstance(gen_or_comp, ast.GeneratorExp) or isinstance(gen_or_comp, ast.ListComp):
        pass
    if conds:
        pred = conds[0] if len(conds) == 1 else None
    else:
        pred = elt  # any(e.label == key for e in ...)
    if pred is None or not (isinstance(pred, ast.Compare) and len(pred.ops) == 1 and isinstance(pred.ops[0], ast.Eq)):
        return False, f"predicate `{norm(pred) if pred is not None else conds}` is not an exact `==` on the label"
    a, b = norm(pred.left), norm(pred.comparators[0])
    if {a, b} == {f"{v}.label", key}:
        return True, ""
    return False, f"predicate `{norm(pred)}` is not `{v}.label == {key}` (no normalisation allowed)"


def raises(stmts, exc):
    for s in stmts:
        if isinstance(s, ast.Raise) and s.exc is not None:
            e = s.exc.func if isinstance(s.exc, ast.Call) else s.exc
            if norm(e) == exc:
                return True
    return False


def check_class(prog, rep, modname, cname):
    c = prog.need_cls(cname, modname)
    mod = c.module.path.name
    meths = {n: prog.need_method(c, n) for n in ("__getitem__", "__contains__", "__iter__", "__len__")}
    containers = {}
    # __len__
    f = meths["__len__"]
    rets = [s for s in walk_no_nested(f.node) if isinstance(s, ast.Return)]
    if len(rets) == 1 and isinstance(rets[0].value, ast.Call) and norm(rets[0].value.func) == "len" and is_self_attr(rets[0].value.args[0]):
        containers["__len__"] = rets[0].value.args[0].attr
        rep.ok("accessor-same-container", f"{cname}.__len__ = len(self.{containers['__len__']})")
    else:
        rep.fail("accessor-same-container", mod, f"{cname}.__len__", rets[0] if rets else f.node, "__len__ is not len(<the item list>)")
    # __iter__
    f = meths["__iter__"]
    rets = [s for s in walk_no_nested(f.node) if isinstance(s, ast.Return)]
    if len(rets) == 1 and isinstance(rets[0].value, ast.Call) and norm(rets[0].value.func) == "iter" and rets[0].value.args and is_self_attr(rets[0].value.args[0]):
        containers["__iter__"] = rets[0].value.args[0].attr
        rep.ok("accessor-same-container", f"{cname}.__iter__ = iter(self.{containers['__iter__']})")
    else:
        yf = [n for n in walk_no_nested(f.node) if isinstance(n, ast.YieldFrom) and is_self_attr(n.value)]
        if yf:
            containers["__iter__"] = yf[0].value.attr
            rep.ok("accessor-same-container", f"{cname}.__iter__ yields from self.{containers['__iter__']}")
        else:
            rep.fail("accessor-same-container", mod, f"{cname}.__iter__", rets[0] if rets else f.node, "__iter__ does not iterate the item list in order")
    # __getitem__
    f = meths["__getitem__"]
    key = f.params[0]
    br, tail = isinstance_branches(f.node, key)
    types = {t: (body, st) for t, body, st in br}
    fq = f"{cname}.__getitem__"
    if "int" in types:
        body, st = types["int"]
        r = next((s for s in body if isinstance(s, ast.Return)), None)
        if r is not None and isinstance(r.value, ast.Subscript) and is_self_attr(r.value.value) and norm(r.value.slice) == key:
            containers["__getitem__/int"] = r.value.value.attr
            rep.ok("getitem-contract", f"{fq}: int -> self.{r.value.value.attr}[{key}]")
        else:
            rep.fail("getitem-contract", mod, fq, r or st, "integer key does not return the item at that list position")
    else:
        rep.fail("getitem-contract", mod, fq, f.node, "no integer-key branch", construct=f"{fq} int branch")
    if "str" in types:
        body, st = types["str"]
        gens = [n for s in body for n in ast.walk(s) if isinstance(n, (ast.GeneratorExp, ast.ListComp))]
        good = False
        if gens:
            gen = gens[0]
            # container
            cont = gen.generators[0].iter.attr if is_self_attr(gen.generators[0].iter) else None
            okp, why = label_predicate(gen, key, cont) if cont else (False, f"iterates `{norm(gen.generators[0].iter)}`")
            # first match: next(gen)
            nx = [n for s in body for n in ast.walk(s) if isinstance(n, ast.Call) and norm(n.func) == "next" and n.args and n.args[0] is gen]
            if not okp:
                rep.fail("getitem-contract", mod, fq, st, f"label lookup: {why}")
            elif not nx:
                rep.fail("getitem-contract", mod, fq, st, "label lookup does not take the FIRST match in iteration order (next(<generator>))")
            else:
                containers["__getitem__/str"] = cont
                # KeyError when none
                tr = [s for s in body if isinstance(s, ast.Try)]
                kerr = False
                for t in tr:
                    for h in t.handlers:
                        if h.type is not None and norm(h.type) == "StopIteration" and raises(h.body, "KeyError"):
                            kerr = True
                if len(nx[0].args) > 1:
                    kerr = False
                if kerr:
                    good = True
                    rep.ok("getitem-contract", f"{fq}: str -> first item of self.{cont} with label == key, KeyError when none", nontrivial=True)
                else:
                    rep.fail("getitem-contract", mod, fq, st, "an absent label does not raise KeyError (StopIteration must be translated, no default)")
        else:
            # for-loop idiom
            loops = [s for s in body if isinstance(s, ast.For) and is_self_attr(s.iter)]
            if loops and raises(body, "KeyError"):
                lp = loops[0]
                v = norm(lp.target)
                ifs = [s for s in lp.body if isinstance(s, ast.If)]
                if ifs and isinstance(ifs[0].test, ast.Compare) and {norm(ifs[0].test.left), norm(ifs[0].test.comparators[0])} == {f"{v}.label", key} \
                        and isinstance(ifs[0].test.ops[0], ast.Eq) and any(isinstance(s, ast.Return) and norm(s.value) == v for s in ifs[0].body):
                    containers["__getitem__/str"] = lp.iter.attr
                    rep.ok("getitem-contract", f"{fq}: str -> first match by loop, KeyError after", nontrivial=True)
                else:
                    rep.fail("getitem-contract", mod, fq, lp, "label loop does not return the first item with label == key")
            else:
                rep.fail("getitem-contract", mod, fq, st, "label lookup idiom not recognised (next(generator) or for/return + KeyError)")
    else:
        rep.fail("getitem-contract", mod, fq, f.node, "no label-key branch", construct=f"{fq} str branch")
    if raises(tail, "TypeError"):
        rep.ok("getitem-contract", f"{fq}: any other key type raises TypeError")
    else:
        rep.fail("getitem-contract", mod, fq, tail[0] if tail else f.node, "an unsupported key type does not raise TypeError", construct=f"{fq} fallthrough")
    extra = [t for t in types if t not in ("int", "str")]
    for t in extra:
        rep.fail("getitem-contract", mod, fq, types[t][1], f"extra dispatch branch `{t}`")
    # __contains__
    f = meths["__contains__"]
    val = f.params[0]
    br, tail = isinstance_branches(f.node, val)
    fq = f"{cname}.__contains__"
    seen_str = seen_item = False
    for t, body, st in br:
        r = next((s for s in body if isinstance(s, ast.Return)), None)
        if t == "str":
            seen_str = True
            v = r.value if r is not None else None
            if isinstance(v, ast.Call) and norm(v.func) == "any" and v.args and isinstance(v.args[0], (ast.GeneratorExp, ast.ListComp)):
                gen = v.args[0]
                cont = gen.generators[0].iter.attr if is_self_attr(gen.generators[0].iter) else None
                okp, why = label_predicate(gen, val, cont) if cont else (False, f"iterates `{norm(gen.generators[0].iter)}`")
                if okp:
                    containers["__contains__/str"] = cont
                    rep.ok("contains-contract", f"{fq}: str -> any(item.label == value) over self.{cont} (same predicate as lookup)", nontrivial=True)
                else:
                    rep.fail("contains-contract", mod, fq, r, f"label membership: {why}")
            else:
                rep.fail("contains-contract", mod, fq, r or st, "label membership is not any(item.label == value for item in <list>)")
        elif t.startswith("?"):
            rep.fail("contains-contract", mod, fq, st, f"dispatch on `{t[1:]}` instead of the value's type")
        else:
            seen_item = True
            v = r.value if r is not None else None
            if isinstance(v, ast.Compare) and len(v.ops) == 1 and isinstance(v.ops[0], ast.In) and norm(v.left) == val and is_self_attr(v.comparators[0]):
                containers["__contains__/item"] = v.comparators[0].attr
                rep.ok("contains-contract", f"{fq}: {t} -> value in self.{v.comparators[0].attr}")
            else:
                rep.fail("contains-contract", mod, fq, r or st, "item membership is not `value in <list>`")
    if not seen_str:
        rep.fail("contains-contract", mod, fq, f.node, "no label branch", construct=f"{fq} str branch")
    if not seen_item:
        rep.fail("contains-contract", mod, fq, f.node, "no item-object branch", construct=f"{fq} item branch")
    if raises(tail, "TypeError"):
        rep.ok("contains-contract", f"{fq}: other types raise TypeError")
    else:
        rep.fail("contains-contract", mod, fq, tail[0] if tail else f.node, "an unsupported value type does not raise TypeError", construct=f"{fq} fallthrough")
    # same container everywhere
    vals = set(containers.values())
    if len(vals) == 1:
        rep.ok("accessor-same-container", f"{cname}: all {len(containers)} access paths read self.{vals.pop()}", nontrivial=True)
    else:
        rep.fail("accessor-same-container", mod, cname, c.node, f"accessors read different containers: {containers}", construct=f"class {cname} accessor containers")
    # purity
    for n, f in meths.items():
        sn = f.self_name or "self"
        bad = None
        for x in walk_no_nested(f.node):
            if isinstance(x, (ast.Assign, ast.AugAssign, ast.AnnAssign, ast.Delete)):
                tg = x.targets if isinstance(x, (ast.Assign, ast.Delete)) else [x.target]
                for t in tg:
                    base = t
                    while isinstance(base, (ast.Attribute, ast.Subscript)):
                        base = base.value
                    if isinstance(base, ast.Name) and base.id == sn:
                        bad = x
            if isinstance(x, ast.Call) and isinstance(x.func, ast.Attribute):
                base = x.func.value
                root = base
                while isinstance(root, (ast.Attribute, ast.Subscript)):
                    root = root.value
                if isinstance(root, ast.Name) and root.id == sn and (x.func.attr in MUTATING or (base is root and x.func.attr not in ("__len__",) and not x.func.attr.startswith("__") and prog.lookup_method(c, x.func.attr) is not None)):
                    bad = x
        if bad is None:
            rep.ok("accessor-purity", f"{cname}.{n}: no store to self, no mutating call")
        else:
            rep.fail("accessor-purity", mod, f"{cname}.{n}", bad, "an accessor changes the block (store to self or mutating call)")


def run(prog, rep):
    rep.explanation = (
        "sibling cross-check over Data3D, ForceTorque3D, EMG, TemporalEventsData: the four accessors of a class read the same "
        "container attribute; __getitem__ is a three-way dispatch (int -> list position, str -> FIRST item whose label == key "
        "else KeyError, anything else TypeError); __contains__ uses the same literal label predicate; none of the 16 methods "
        "stores to self or calls a mutator."
    )
    n = 0
    for modname, cname in CLASSES:
        check_class(prog, rep, modname, cname)
        n += 4
    rep.floor("accessors", n, 16)
    rep.not_decided += ["bool / numpy-integer keys beyond what isinstance(key, int) says"]
