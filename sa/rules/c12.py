"""C12 reserved / padding / after-terminator bytes never influence the result (DESIGN 3/C12)."""
from __future__ import annotations

import ast
import re

from ..codecs import Codecs
from ..layout import Date, Field, Raw, Str, Sub, walk_terms, Construct, Install, CallOn, Ret, Store, Alt, Rep
from ..reference_layout import HEADER, UNITS
from ..refmatch import RefMatcher
from ..report import AnalysisError, head, norm
from ..strings import nul_cut
from ..unify import normalise


class PadCollector(RefMatcher):
    """RefMatcher that records which code term sits at each reserved position of the reference layout."""

    def __init__(self, cd, unit, side, sink):
        super().__init__(cd, unit, side, lambda ok, node, text: None)
        self.sink = sink

    def spawn(self, emit=None):
        return PadCollector(self.cd, self.u, self.side, self.sink)

    def m_s(self, r, t):
        if self.side == "r" and isinstance(t, Raw):
            self.sink.append((self.u, "r-str-raw", r[1], t, None))
            self.nmatched += 1
            return
        return super().m_s(r, t)

    def m_pad(self, r, t):
        b = self.un.fixed_bytes(t)
        self.sink.append((self.u, self.side, r[1], t, b))
        self.nmatched += 1


def expr_texts(terms, skip):
    out = []
    for t in walk_terms(terms):
        if t is skip:
            continue
        for fld in ("count", "value", "cond", "over", "lo", "hi", "index", "width", "nbytes", "elem", "length", "dtype", "fill"):
            v = getattr(t, fld, None)
            if isinstance(v, ast.AST):
                out.append(norm(v))
        for a in list(getattr(t, "args", []) or []) + list((getattr(t, "kwargs", {}) or {}).values()):
            if isinstance(a, ast.AST):
                out.append(norm(a))
    return out


def run(prog, rep):
    cd = Codecs(prog)
    cd.flag_errors(rep)
    rep.explanation = (
        "the reserved positions are taken from the reference layout table; at each of them the reader's term must be a skip "
        "or a raw read whose value has no use (def-use over the decoder's terms: pad-no-flow) and must not be consumed by an "
        "operation that can fail or branch on content such as a string decode or an enum conversion (pad-not-interpreted); the "
        "writer's term must be constant zero (writer-pad-constant); BTSString.read returns a function of the bytes before the "
        "first NUL only (nul-cut)."
    )
    pads = []
    for name, ref in list(UNITS.items()) + [("TdfHeader", HEADER)]:
        u = cd.header if name == "TdfHeader" else cd.units.get(name)
        if u is None:
            raise AnalysisError(f"anchor vanished: codec unit {name}")
        for side, terms in (("w", u.wterms), ("r", u.rterms)):
            pc = PadCollector(cd, u, side, pads)
            pc.match(ref, normalise(terms, side))
    n_r = n_w = 0
    for u, side, nbytes, t, covered in [p for p in pads if p[1] == "r-str-raw"]:
        # a fixed-width string read as raw bytes: everything it is used for must be BTSString.read (the NUL cut); a hand-made decode
        # (sniffing the bytes behind the terminator, decoding before cutting) lets the tail decide or fail the result
        f = u.reader
        st = t.stmt or t.node
        name = st.targets[0].id if isinstance(st, ast.Assign) and len(st.targets) == 1 and isinstance(st.targets[0], ast.Name) else None
        uses = [x for x in ast.walk(f.node) if isinstance(x, ast.Name) and x.id == name and isinstance(x.ctx, ast.Load)] if name else []
        cut = [c for c in ast.walk(f.node) if isinstance(c, ast.Call) and norm(c.func) in ("BTSString.read",) and len(c.args) >= 2 and isinstance(c.args[1], ast.Name) and c.args[1].id == name]
        if name and uses and len(uses) == len(cut):
            rep.ok("nul-cut", f"{u.name}: string field `{nbytes}` is read raw and handed to BTSString.read only")
        else:
            rep.fail("nul-cut", f.module.path.name, f.qualname, st, f"the fixed-width string `{nbytes}` is read as raw bytes and decoded by hand (`{norm(head(st))[:50]}` is used outside BTSString.read): "
                     "bytes behind the first NUL can select the decoding or make it fail", construct=f"{f.qualname} hand-decoded string {nbytes}")
    pads = [p for p in pads if p[1] != "r-str-raw"]
    for u, side, nbytes, t, covered in pads:
        f = u.writer if side == "w" else u.reader
        mod, fq = f.module.path.name, f.qualname
        node = t.stmt or t.node
        if side == "r" and covered is not None and covered != nbytes:
            # the term at the reserved position covers only part of the run: what follows it consumes reserved bytes as content
            rep.fail("pad-no-flow", mod, fq, node, f"the layout reserves {nbytes} bytes here but the decoder's term covers {covered}: the remaining reserved bytes are consumed "
                     "by the following read, whose value can decide or fail the decode")
            n_r += 1
            continue
        if side == "r":
            n_r += 1
            ph = getattr(t, "ph", None)
            flows = False
            if ph:
                pat = re.compile(rf"\b{re.escape(ph)}\b")
                flows = any(pat.search(s) for s in expr_texts(u.rterms, t))
            if flows:
                rep.fail("pad-no-flow", mod, fq, node, f"the value read from {nbytes} reserved bytes flows into the decoded object / control flow")
            else:
                rep.ok("pad-no-flow", f"{u.name}: {nbytes} reserved bytes have no use in {fq}", nontrivial=True)
            interpreted = None
            if isinstance(t, Str):
                interpreted = "BTSString.bread decodes them (cp1252 decode can fail on arbitrary bytes and scans for NUL)"
            elif isinstance(t, Date):
                interpreted = "BTSDate.bread converts them to a datetime (can fail on arbitrary values)"
            elif isinstance(t, Sub):
                interpreted = "a sub-decoder interprets them"
            elif isinstance(t, Field) and t.role == "data":
                # a numeric read whose result is wrapped in something (Enum(...)) even if unused
                st = t.stmt
                if st is not None:
                    for c in ast.walk(st):
                        same = lambda x: isinstance(x, ast.Call) and (getattr(x, "lineno", -1), getattr(x, "col_offset", -1)) == (getattr(t.node, "lineno", -2), getattr(t.node, "col_offset", -2))
                        if isinstance(c, ast.Call) and not same(c) and any(same(x) for x in ast.walk(c)) and isinstance(c.func, ast.Name):
                            k = prog.resolve_class(f.module, c.func.id)
                            if k is not None and prog.is_enum(k):
                                interpreted = f"{c.func.id}(...) conversion raises on values that are not members"
            if interpreted:
                rep.fail("pad-not-interpreted", mod, fq, node, f"{nbytes} reserved bytes are consumed by an operation that depends on their content: {interpreted}")
            else:
                rep.ok("pad-not-interpreted", f"{u.name}: {nbytes} reserved bytes are skipped / read raw in {fq}")
        else:
            n_w += 1
            const_zero = False
            if isinstance(t, Field) and t.role == "pad":
                const_zero = True
            elif isinstance(t, Field) and t.role == "data" and prog.const_int(f.module, t.value) == 0:
                const_zero = True
            elif isinstance(t, Str) and isinstance(t.value, ast.Constant) and t.value.value == "":
                const_zero = True
            elif isinstance(t, Raw) and isinstance(t.value, ast.Constant) and isinstance(t.value.value, bytes) and set(t.value.value) <= {0}:
                const_zero = True
            elif isinstance(t, Raw) and isinstance(t.value, ast.Call) and norm(t.value.func) in ("bytes", "bytearray") and len(t.value.args) == 1 \
                    and prog.const_int(f.module, t.value.args[0]) is not None:
                const_zero = True      # bytes(N) is N zero bytes
            elif isinstance(t, Raw) and isinstance(t.value, ast.BinOp) and isinstance(t.value.op, ast.Mult) and any(
                    isinstance(x, ast.Constant) and isinstance(x.value, bytes) and set(x.value) <= {0} for x in (t.value.left, t.value.right)):
                const_zero = True
            if const_zero:
                rep.ok("writer-pad-constant", f"{u.name}: {fq} emits constant zeros in {nbytes} reserved bytes")
            else:
                from ..layout import show
                rep.fail("writer-pad-constant", mod, fq, node, f"the writer emits `{show([t])[0].strip()}` in {nbytes} reserved bytes: re-encoding is not canonical")
    rep.floor("pad-no-flow/reader-positions", n_r, 13)
    rep.floor("writer-pad-constant/positions", n_w, 13)
    # strings: every decoder string site goes through BTSString.bread, whose read() cuts at the first NUL
    f, res = nul_cut(prog)
    for ok, st, text in res:
        if ok:
            rep.ok("nul-cut", f"BTSString.read: {text}", nontrivial=True)
        else:
            rep.fail("nul-cut", "tdfTypes.py", "BTSString.read", st, text)
    n_str = 0
    for u in cd.all_units():
        for t in walk_terms(u.rterms):
            if isinstance(t, Str):
                n_str += 1
    rep.ok("nul-cut", f"{n_str} decoder string sites all read through BTSString.bread")
    rep.floor("nul-cut/string-sites", n_str, 9)
    # BTSString.write zero-fills after the terminator (C13's str-terminated) - needed for canonical re-encoding
    from ..strings import WriteAnalysis
    wa = WriteAnalysis(prog)
    for b, st, nonneg, guards, _value in wa.returns:
        parts = b.parts if b is not None else []
        if len(parts) >= 2 and parts[0][0] == "enc" and all(p[0] == "zeros" or (p[0] == "const" and set(p[1]) <= {0}) for p in parts[1:]):
            rep.ok("writer-pad-constant", "BTSString.write zero-fills everything after the text")
        else:
            rep.fail("writer-pad-constant", "tdfTypes.py", "BTSString.write", st, "bytes after the terminator are not constant zeros")
    from .. import primitives as PR
    rep.attempt(PR.tdftype_primitives, prog, rep)
    # 're-encode to identical bytes': a mutator that rewrites a table entry rewrites it WHOLE through the entry codec (which zeroes
    # pad and string tail); a partial rewrite lets the old don't-care bytes survive the edit
    from ..container import Container
    from .. import mutrules as M
    ct = Container(prog)
    rep.attempt(M.dirty_entry, ct, rep, rule="table-pairing")
    rep.attempt(M.eq_on_decoded_content, ct, rep)
    # .. and an edit always re-encodes: replace_block is remove + add on every path, never skipped because the stored block DECODES equal
    # (decoded equality ignores the don't-care bytes that the re-encoding is there to canonicalise)
    from .c11 import replace_composition
    rep.attempt(replace_composition, ct, rep)
    # .. and positions the cursor only on whole table slots or data ranges: a seek INTO a slot is the start of a partial rewrite
    rep.attempt(M.header_frame, ct, rep, rule="table-pairing/frame")
    rep.attempt(PR.string_codec, prog, rep, with_nul_cut=False)
    rep.not_decided += ["garbage inside declared data fields (not don't-care bytes)"]
