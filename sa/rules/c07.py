"""C07 a rejected mutation leaves the file as it was (DESIGN 3/C07)."""
from __future__ import annotations

import ast

from .. import mutrules as M
from ..codecs import Codecs
from ..container import Container, FuncFacts
from ..index import walk_no_nested
from ..layout import Field, Str, Sub, Date, Raw, Rep, Alt, walk_terms, has_stream
from ..report import AnalysisError, head, norm
from ..unify import GuardFail, normalise

TABLE_EFFECTS = ("table_store", "table_append", "table_remove", "table_rebind")
SWALLOWING = ("pass",)


def _data_sources(value):
    """Names whose VALUE flows into `value` (comprehension filters are control, not data)."""
    out = set()

    def rec(n):
        if isinstance(n, (ast.GeneratorExp, ast.ListComp, ast.SetComp)):
            rec(n.elt)
            for g in n.generators:
                rec(g.iter)
            return
        if isinstance(n, ast.Name):
            out.add(n.id)
        for c in ast.iter_child_nodes(n):
            rec(c)

    rec(value)
    return out


def tainted_names(ff: FuncFacts):
    """Forward data-flow closure from the parameters (fixpoint over assignments). Elements of the entry table
    read from disk are never tainted."""
    t = set(ff.f.params)
    params = set(ff.f.params)
    changed = True
    while changed:
        changed = False
        for n in walk_no_nested(ff.f.node):
            if isinstance(n, ast.Assign):
                if ff.ct.is_next_over_entries(n.value) or ff.ct.is_next_over_entries(n.value, pair=True) or ff.ct.is_entries_elem(n.value):
                    continue
                src = _data_sources(n.value)
                if src & t:
                    for tg in n.targets:
                        for x in ast.walk(tg):
                            if isinstance(x, ast.Name) and isinstance(x.ctx, ast.Store) and x.id not in t:
                                t.add(x.id)
                                changed = True
    # direct aliases of parameters (caller-supplied objects themselves)
    alias = set(params)
    for n in walk_no_nested(ff.f.node):
        if isinstance(n, ast.Assign) and isinstance(n.value, ast.Name) and n.value.id in alias:
            for tg in n.targets:
                if isinstance(tg, ast.Name):
                    alias.add(tg.id)
    ff._param_alias = alias
    return t


def escaping(ff: FuncFacts, cn):
    """May an exception raised at cn leave the function?"""
    cfg = ff.cfg
    ex = cfg.exc_succ[cn.id]
    if cfg.rexit.id in ex:
        return True
    for h in ex:
        hn = cfg.nodes[h]
        if hn.kind == "handler":
            body = hn.stmt.body
            if any(isinstance(s, ast.Raise) for b in body for s in ast.walk(b)):
                return True
    return False


def late_reject_writers(cd: Codecs):
    """Classes whose _write emits bytes to its stream before a point where it may still refuse."""
    out = {}
    for u in cd.units.values():
        W = normalise(u.wterms, "w")
        wrote = False
        late = None
        for t in W:
            if isinstance(t, GuardFail):
                if wrote:
                    late = t
                continue
            if not has_stream(t):
                continue
            can_reject = isinstance(t, (Str, Sub, Rep, Alt)) or (isinstance(t, Field) and t.role == "data")
            if wrote and can_reject and late is None:
                late = t
            wrote = True
        if late is not None:
            out[u.name] = late
    return out


class Summary:
    def __init__(self):
        self.may_effect = False
        self.may_reject = False


def summaries(ct: Container):
    out = {}
    for name in ("add_block", "remove_block", "replace_block"):
        ff = ct.facts(name)
        s = Summary()
        s.may_effect = bool(ff.ev(*M.FILE_EFFECTS, *TABLE_EFFECTS, "field_assign"))
        s.may_reject = any(escaping(ff, e.node) for e in ff.ev("raise"))
        out[name] = s
    # transitive (replace_block calls the other two)
    for name in ("replace_block",):
        ff = ct.facts(name)
        for e in ff.ev("self_call"):
            if e.meth in out:
                out[name].may_effect |= out[e.meth].may_effect
                out[name].may_reject |= out[e.meth].may_reject
    return out


def _decoding_methods(ct):
    """names of Tdf methods that decode a block: they call some `<Class>._build(..)` themselves or through one same-class call"""
    cached = getattr(ct, "_decoding_methods_cache", None)
    if cached is not None:
        return cached
    direct = set()
    calls = {}
    for f in ct.tdf.all_funcs():
        for c in walk_no_nested(f.node):
            if isinstance(c, ast.Call) and isinstance(c.func, ast.Attribute):
                if c.func.attr == "_build" and not (isinstance(c.func.value, ast.Name) and c.func.value.id == "TdfEntry"):
                    direct.add(f.name)
                if isinstance(c.func.value, ast.Name) and c.func.value.id == "self":
                    calls.setdefault(f.name, set()).add(c.func.attr)
    out = set(direct)
    for name, cs in calls.items():
        if cs & direct and name not in ("add_block", "remove_block", "replace_block"):
            out.add(name)
    ct._decoding_methods_cache = out
    return out


def classify(ct, ff: FuncFacts, summ, late):
    """node id -> ('E'/'R' flags, reason, stmt)"""
    taint = tainted_names(ff)
    eff, rej = {}, {}
    for e in ff.events:
        if e.kind in M.FILE_EFFECTS or e.kind in TABLE_EFFECTS:
            eff.setdefault(e.node.id, e)
        elif e.kind == "field_assign":
            info = ff.entry_names.get(norm(e.entry))
            if not (info and info[0] == "fresh"):
                eff.setdefault(e.node.id, e)
        elif e.kind == "self_call" and e.meth in summ:
            if summ[e.meth].may_effect:
                eff.setdefault(e.node.id, e)
            if summ[e.meth].may_reject and escaping(ff, e.node):
                rej.setdefault(e.node.id, (e, f"call to {e.meth}() which can refuse the request"))
        elif e.kind == "self_call" and e.meth in _decoding_methods(ct):
            # decoding a stored block runs the block class's _build, which refuses what it does not implement (formats, sizes):
            # a mutator that reads a block back can be made to raise by data the serialiser accepted
            if escaping(ff, e.node):
                rej.setdefault(e.node.id, (e, f"call to {e.meth}(), which decodes a block and can raise on data the serialiser accepted"))
        elif e.kind == "raise":
            if escaping(ff, e.node):
                rej.setdefault(e.node.id, (e, f"raise {e.exc}"))
    # evaluation on caller-supplied objects / serialisation of parameter-derived data
    for cn in ff.cfg.stmt_nodes():
        st = cn.stmt
        if cn.id in rej or isinstance(st, (ast.Raise,)):
            continue
        roots = [st.test] if cn.kind == "test" and isinstance(st, ast.If) else ([st.iter] if cn.kind == "loop" and isinstance(st, ast.For) else [st])
        if isinstance(st, (ast.If, ast.For, ast.While, ast.Try, ast.With)) and cn.kind == "stmt":
            continue
        for root in roots:
            for n in walk_no_nested(root):
                hit = None
                if isinstance(n, ast.Attribute) and isinstance(n.value, ast.Name) and n.value.id in ff._param_alias and isinstance(n.ctx, ast.Load):
                    hit = f"evaluates `{norm(n)}` on a caller-supplied object"
                elif isinstance(n, ast.Call) and isinstance(n.func, ast.Attribute) and n.func.attr in ("_write", "write", "bwrite") and isinstance(n.func.value, ast.Name) \
                        and n.func.value.id in taint and n.func.value.id not in ff._param_alias:
                    hit = f"serialises request-derived `{n.func.value.id}` (its text fields may be refused)"
                elif isinstance(n, ast.Call) and isinstance(n.func, ast.Name) and n.func.id in ("len", "iter", "int", "str") and n.args and isinstance(n.args[0], ast.Name) and n.args[0].id in ff._param_alias:
                    hit = f"evaluates `{norm(n)}` on a request value"
                if hit and escaping(ff, cn):
                    class _E:  # lightweight event
                        pass
                    ev = _E()
                    ev.stmt, ev.node, ev.kind = st, cn, "taint"
                    rej.setdefault(cn.id, (ev, hit))
    return eff, rej, taint


def path_rules(ct, cd, rep, names=None, include_setters=True, prefix=""):
    """validate-before-effect / no-tainted-serialiser-on-handle / scratch-buffer-fresh over the given mutators."""
    mod = M.MOD(ct)
    summ = summaries(ct)
    late = late_reject_writers(cd)
    n_early = 0
    n_funcs = 0
    targets = [ct.facts(n) for n in (names or ("add_block", "remove_block", "replace_block"))] + ([ct.facts(f.name, "setter") for f in ct.setters()] if include_setters else [])
    for ff in targets:
        n_funcs += 1
        fq = f"Tdf.{ff.f.name}" + (".setter" if ff.f.kind == "setter" else "")
        cfg = ff.cfg
        eff, rej, taint = classify(ct, ff, summ, late)
        # paths effect ->+ reject (normal edges)
        reach_from_effect = set()
        first_eff = {}
        for eid, e in eff.items():
            # caught exceptions continue in their handler: follow those edges too (rexit is a sink)
            r = cfg.reachable(cfg.nodes[eid], normal_only=False)
            for x in r:
                first_eff.setdefault(x, e)
            reach_from_effect |= r
        for rid, (rev, why) in sorted(rej.items()):
            if rid in reach_from_effect and not (rid in eff and first_eff[rid] is eff[rid] and len([x for x in eff if rid in cfg.reachable(cfg.nodes[x], normal_only=False)]) == 0):
                fe = first_eff[rid]
                construct = None
                if getattr(rev, "kind", "") == "self_call":
                    # keyed by the calls involved, not by how their arguments are spelt
                    after = f"{fe.meth}()" if getattr(fe, "kind", "") == "self_call" else norm(head(fe.stmt))
                    construct = f"{rev.meth}() may refuse after {after}"
                rep.fail(prefix + "validate-before-effect", mod, fq, rev.stmt,
                         f"{why} AFTER the file/table was already changed by `{norm(head(fe.stmt))}`: a refusal here leaves a half-applied mutation", construct=construct)
            else:
                n_early += 1
                rep.ok(prefix + "early-rejections", f"{fq}: `{norm(head(rev.stmt))[:80]}` ({why}) precedes every effect", nontrivial=True)
        if not any(rid in reach_from_effect for rid in rej):
            rep.ok(prefix + "validate-before-effect", f"{fq}: no path from an effect ({len(eff)} sites) to a refusal ({len(rej)} sites)", nontrivial=bool(eff))
        # scratch buffers used for pre-serialisation must be created in this call
        for c in walk_no_nested(ff.f.node):
            if isinstance(c, ast.Call) and isinstance(c.func, ast.Attribute) and c.func.attr in ("_write", "bwrite") and c.args and isinstance(c.func.value, ast.Name) \
                    and c.func.value.id in taint and not ct.is_handle(c.args[0]):
                b = c.args[0]
                fresh_local = isinstance(b, ast.Name) and b.id in ff.buffers
                inline_new = isinstance(b, ast.Call) and norm(b.func) in ("BytesIO", "io.BytesIO")
                if fresh_local or inline_new:
                    rep.ok(prefix + "scratch-buffer-fresh", f"{fq}: `{norm(c)[:60]}` serialises into a buffer created in this call")
                else:
                    rep.fail(prefix + "scratch-buffer-fresh", mod, fq, c, f"request-derived data is serialised into `{norm(b)}`, which outlives this call: after a refused request its partial bytes stay in the buffer and are written by the next request")
        # tainted serialiser straight on the handle
        for e in ff.ev("entry_write", "block_write"):
            recv = e.entry if e.kind == "entry_write" else e.obj
            if getattr(e, "buffered", False):
                rep.ok(prefix + "no-tainted-serialiser-on-handle", f"{fq}: `{norm(recv)}` was serialised into a scratch buffer; only the finished bytes reach the handle", nontrivial=True)
                continue
            if isinstance(recv, ast.Name) and recv.id in taint:
                cls = "TdfEntry" if e.kind == "entry_write" else None
                if cls is None or cls in late:
                    what = f"TdfEntry._write writes {'fields' } before the comment it may refuse" if cls else "a block _write emits its header before labels/formats it may refuse"
                    rep.fail(prefix + "no-tainted-serialiser-on-handle", mod, fq, e.stmt,
                             f"request-derived `{recv.id}` is serialised straight to the file handle; {what}: a refusal leaves a partial write (serialise to a scratch buffer first)")
            else:
                rep.ok(prefix + "no-tainted-serialiser-on-handle", f"{fq}: `{norm(head(e.stmt))}` serialises data that already fits (read from the file)")
    return n_early, n_funcs


def object_state_before_refusal(ct, rep, rule="validate-before-effect"):
    """'leaves the file exactly as it was' includes what the open object remembers: on no path of a mutator that ends in a
    refusal has an attribute of the Tdf object been stored or a container it owns been changed (a cache filled with the
    rejected block, a dirty flag that makes __exit__ write).  Path summaries; the raising paths of remove_block's tail are
    not refusals of the request (they come after the effects and are C09's business)."""
    from ..facts import path_returns, self_mutations
    mod = M.MOD(ct)
    n = 0
    for name in ("add_block", "remove_block", "replace_block"):
        ff = ct.facts(name)
        fq = f"Tdf.{name}"
        sn = ff.f.self_name or "self"
        bad = False
        for pe in path_returns(ff.f.node):
            if pe.kind != "raise":
                continue
            n += 1
            muts = self_mutations(pe.effects, sn)
            if muts:
                rep.fail(rule, mod, fq, muts[0], f"`{norm(head(muts[0]))[:70]}` changes the Tdf object on a path that then refuses the request (`raise {norm(pe.value)[:50]}`): "
                         "the refused call leaves a trace (stale cache entry / flag acted upon later)", construct=f"{fq} object state before refusal")
                bad = True
        if not bad:
            rep.ok(rule, f"{fq}: no refusing path has changed an attribute or owned container of the object", nontrivial=True)
    rep.floor(rule + "/object-state", n, 4)


def run(prog, rep):
    from .. import mutrules as _M
    rep.attempt(_M.session_boundary, prog, rep)
    ct = Container(prog)
    cd = Codecs(prog)
    cd.flag_errors(rep)
    mod = M.MOD(ct)
    rep.explanation = (
        "validate-before-effect: on the CFG of every mutator (calls to other mutators expanded through may-effect / "
        "may-reject summaries) there is no path from a statement that changes the file or the in-memory table to a "
        "statement that can still refuse the request (explicit raise that escapes, any evaluation on a caller-supplied "
        "object, serialisation of parameter-derived data); no-tainted-serialiser-on-handle: a serialiser that writes "
        "before it may still refuse is never given the live handle with a request-derived receiver; early-rejections: "
        "the refusals that are early today stay ahead of the first effect."
    )
    # the refused block object itself must come back unchanged from the serialisation that refused it
    from ..codecs import no_stale_derived_state
    rep.attempt(no_stale_derived_state, prog, cd, rep)
    # .. and a refusal does not touch the session's access state (the next valid operation of the session is admitted as before)
    from .c08 import mode_lifecycle
    rep.attempt(mode_lifecycle, ct, rep)
    n_early, n_funcs = path_rules(ct, cd, rep)
    rep.attempt(object_state_before_refusal, ct, rep)
    # the refusal of a session that cannot write must come before the in-memory table changes (the handle refuses the write, but only after that)
    from .c08 import table_effects_need_writable
    rep.attempt(table_effects_need_writable, ct, rep, "early-rejections")
    rep.floor("early-rejections", n_early, 5)
    rep.floor("validate-before-effect/mutators", n_funcs, 8)
    rep.extra["late_reject_writers"] = sorted(late_reject_writers(cd))
    rep.not_decided += ["asynchronous / OS failures (disk full, KeyboardInterrupt): not 'the request is invalid'"]
    rep.trusted += ["BTSString.write raises ValueError for over-long / unencodable text (C13)"]
