"""C14 equality is faithful to content (DESIGN 3/C14)."""
from __future__ import annotations

import ast

from .. import facts
from ..codecs import Codecs, writer_attr_reads
from ..index import is_self_attr, walk_no_nested
from ..report import AnalysisError, head, norm
from ..sym import canon


def conjuncts(expr):
    if isinstance(expr, ast.BoolOp) and isinstance(expr.op, ast.And):
        out = []
        for v in expr.values:
            out += conjuncts(v)
        return out
    return [expr]


def attrs_of(node, base):
    """attribute names read as <base>.<attr> inside node"""
    return {n.attr for n in ast.walk(node) if isinstance(n, ast.Attribute) and isinstance(n.value, ast.Name) and n.value.id == base}


class EqInfo:
    def __init__(self, prog, c, f):
        self.prog, self.c, self.f = prog, c, f
        self.sn = f.self_name or "self"
        self.on = f.params[0] if f.params else "other"
        self.byte_level = False
        self.conj = []
        self.covered = {}  # attr -> conjunct node
        self.zip_only = []  # (attr, node)
        self.len_checked = set()
        self.nan_unaware = []  # (attr, node, how)
        self.elementwise = []  # (attr, node)
        self.inverted = []  # (attrs, conjunct) comparisons whose sense is inverted
        self.covered_direct = set()
        self.closed_to_own_class = False
        self._parse()

    def _expand(self, attr):
        """property -> underlying attributes"""
        g = self.prog.lookup_method(self.c, attr, "getter")
        if g is None:
            return {attr}
        e = facts.property_body_expr(self.prog, self.c, attr)
        if e is None:
            return {attr}
        out = set()
        for n in ast.walk(e):
            if isinstance(n, ast.Attribute) and isinstance(n.value, ast.Name) and n.value.id == "self":
                out |= self._expand(n.attr) if n.attr != attr else {attr}
        return out or {attr}

    def _helper(self, call):
        """(FunctionDef, parameter names as seen by the caller's arguments) of `self.H(..)`, `Cls.H(..)` - a method of the class or
        of one of its bases (staticmethod: all parameters; instance method called on `self`: parameters after self; called through
        the class: all parameters, the first being the instance)"""
        f_ = call.func
        if not (isinstance(f_, ast.Attribute) and isinstance(f_.value, ast.Name)):
            return None
        m = self.prog.lookup_method(self.c, f_.attr)
        if m is None and f_.value.id not in (self.sn,):
            k = self.prog.resolve_class(self.c.module, f_.value.id)
            m = self.prog.lookup_method(k, f_.attr) if k is not None else None
        if m is None:
            return None
        allp = [a.arg for a in m.node.args.args]
        static = any(norm(d) == "staticmethod" for d in m.node.decorator_list)
        if f_.value.id == self.sn and not static:
            return m.node, allp[1:], allp[0], self.sn
        return m.node, allp, None, None

    def _byte_level(self, fn, sn=None, on=None, depth=0):
        """both operands are serialised into their own scratch buffer and the buffers' contents are compared"""
        sn, on = sn or self.sn, on or self.on
        if depth < 2:
            # `return self.H(other)` / `return Base.H(self, other)` where H is itself such a comparison of its two operands
            rets_ = [s_ for s_ in walk_no_nested(fn) if isinstance(s_, ast.Return) and s_.value is not None]
            if len(rets_) == 1 and isinstance(rets_[0].value, ast.Call) and not rets_[0].value.keywords and all(isinstance(a, ast.Name) for a in rets_[0].value.args):
                h = self._helper(rets_[0].value)
                if h is not None:
                    hn, params, hself, bound = h
                    actual = ([bound] if bound else []) + [a.id for a in rets_[0].value.args]
                    formal = ([hself] if hself else []) + params
                    if len(actual) == len(formal) == 2 and set(actual) == {sn, on}:
                        return self._byte_level(hn, formal[0], formal[1], depth + 1)
        defs = {}
        for n in walk_no_nested(fn):
            if isinstance(n, ast.Assign) and len(n.targets) == 1 and isinstance(n.targets[0], ast.Name):
                defs.setdefault(n.targets[0].id, []).append(n.value)
        for n in walk_no_nested(fn):
            if isinstance(n, ast.With):
                for it in n.items:
                    if isinstance(it.optional_vars, ast.Name):
                        defs.setdefault(it.optional_vars.id, []).append(it.context_expr)
        owner = {}  # buffer name -> operand written into it
        for c in walk_no_nested(fn):
            if isinstance(c, ast.Call) and isinstance(c.func, ast.Attribute) and c.func.attr in ("_write", "write", "bwrite") and isinstance(c.func.value, ast.Name) \
                    and c.func.value.id in (sn, on) and c.args and isinstance(c.args[0], ast.Name):
                b = c.args[0].id
                if len(defs.get(b, [])) == 1 and isinstance(defs[b][0], ast.Call) and norm(defs[b][0].func) in ("BytesIO", "io.BytesIO") and not defs[b][0].args:
                    owner[b] = None if b in owner else c.func.value.id

        def content_of(e, depth=0):
            if isinstance(e, ast.Name) and len(defs.get(e.id, [])) == 1 and depth < 4:
                return content_of(defs[e.id][0], depth + 1)
            if isinstance(e, ast.Call) and isinstance(e.func, ast.Attribute) and e.func.attr in ("getvalue", "getbuffer") and isinstance(e.func.value, ast.Name):
                return owner.get(e.func.value.id)
            if isinstance(e, ast.Call) and depth < 3 and len(e.args) == 1 and not e.keywords and isinstance(e.args[0], ast.Name) and e.args[0].id in (sn, on):
                # H(x) where H serialises its one operand into a buffer of its own and returns the buffer's content
                h = self._helper(e)
                if h is not None and len(h[1]) == 1 and h[2] is None:
                    hn, p_ = h[0], h[1][0]
                    hdefs = {}
                    for n_ in walk_no_nested(hn):
                        if isinstance(n_, ast.Assign) and len(n_.targets) == 1 and isinstance(n_.targets[0], ast.Name):
                            hdefs.setdefault(n_.targets[0].id, []).append(n_.value)
                    bufs = [b for b, v in hdefs.items() if len(v) == 1 and isinstance(v[0], ast.Call) and norm(v[0].func) in ("BytesIO", "io.BytesIO") and not v[0].args]
                    writes = [c_ for c_ in walk_no_nested(hn) if isinstance(c_, ast.Call) and isinstance(c_.func, ast.Attribute) and c_.func.attr == "_write"
                              and isinstance(c_.func.value, ast.Name) and c_.func.value.id == p_ and len(c_.args) == 1 and isinstance(c_.args[0], ast.Name) and c_.args[0].id in bufs]
                    hrets = [s_ for s_ in walk_no_nested(hn) if isinstance(s_, ast.Return) and s_.value is not None]
                    if len(bufs) == 1 and len(writes) == 1 and len(hrets) == 1 and norm(hrets[0].value) in (f"{bufs[0]}.getvalue()", f"bytes({bufs[0]}.getbuffer())"):
                        return e.args[0].id
            return None

        rets = [s_ for s_ in walk_no_nested(fn) if isinstance(s_, ast.Return) and s_.value is not None]
        cmp_ = [r for r in rets if isinstance(r.value, ast.Compare) and len(r.value.ops) == 1 and isinstance(r.value.ops[0], ast.Eq)
                and {content_of(r.value.left), content_of(r.value.comparators[0])} == {sn, on}]
        others = [r for r in rets if r not in cmp_ and not (isinstance(r.value, ast.Constant) and r.value.value in (False, NotImplemented))
                  and not norm(r.value) == "NotImplemented"]
        return bool(cmp_) and not others

    def _truthy_paths(self, fn):
        """[conjunct list] for every path on which __eq__ can return a true value: the guards that hold on the path (a guard
        that must be false contributes its negation, which compares the same attributes) and the conjuncts of the value"""
        out = []
        for guards, leaf, pe in facts.return_leaves(fn):
            if leaf is None:
                continue
            if isinstance(leaf, ast.Constant) and not leaf.value:
                continue
            if norm(leaf) == "NotImplemented":
                continue
            def strip(t, pol):
                """canonical (text, truth value): negations and `!=` folded into the truth value"""
                while isinstance(t, ast.UnaryOp) and isinstance(t.op, ast.Not):
                    t, pol = t.operand, not pol
                if isinstance(t, ast.Compare) and len(t.ops) == 1 and isinstance(t.ops[0], (ast.NotEq, ast.IsNot)):
                    flip = ast.Eq() if isinstance(t.ops[0], ast.NotEq) else ast.Is()
                    t, pol = ast.Compare(left=t.left, ops=[flip], comparators=t.comparators), not pol
                return norm(t), pol
            lt, lp = strip(leaf, True)
            if any(strip(t, pol)[0] == lt and strip(t, pol)[1] != lp for t, pol in guards):
                continue  # `if not c: return c`: the returned value is known to be false on this path
            conj = []
            for t, pol in guards:
                while isinstance(t, ast.UnaryOp) and isinstance(t.op, ast.Not):
                    t, pol = t.operand, not pol
                if isinstance(t, ast.Call) and isinstance(t.func, ast.Name) and t.func.id in ("__loop__", "__except__"):
                    continue
                if pol:
                    conj += conjuncts(t)
                else:
                    # the test must be FALSE on this path: remember that (an `a != b` that must be false requires a == b)
                    t._sa_required_false = True
                    conj.append(t)
            if not (isinstance(leaf, ast.Constant) and leaf.value is True):
                conj += conjuncts(leaf)
            out.append((conj, pe.node))
        return out

    def _parse(self):
        fn = self.f.node
        sn, on = self.sn, self.on
        if self._byte_level(fn):
            self.byte_level = True
            return
        paths = self._truthy_paths(fn)
        if not paths:
            return
        self.ret = paths[-1][1]
        covered_sets = []
        direct_sets = []
        for conj, node in paths:
            cov = {}
            direct = set()
            for cj in conj:
                if all(cj is not x for x in self.conj):
                    self.conj.append(cj)
                n_inv = len(self.inverted)
                self._conjunct(cj, cov)
                if len(self.inverted) == n_inv and not (isinstance(cj, ast.BoolOp) and isinstance(cj.op, ast.Or)):
                    direct |= attrs_of(cj, self.sn) & attrs_of(cj, self.on)
            covered_sets.append(cov)
            direct_sets.append(direct)
        common = set(covered_sets[0])
        for cov in covered_sets[1:]:
            common &= set(cov)
        for a in common:
            self.covered[a] = covered_sets[0][a]
        self.covered_direct = set.intersection(*direct_sets) if direct_sets else set()
        # a path that answers True must be open to objects of the class itself
        from ..facts import type_facts
        self.closed_to_own_class = False
        for guards, leaf, pe in facts.return_leaves(fn):
            if leaf is None or (isinstance(leaf, ast.Constant) and not leaf.value) or norm(leaf) == "NotImplemented":
                continue
            tf = type_facts(guards, self.on)
            if tf.get(self.c.name) is False:
                self.closed_to_own_class = True

    def _requires_equality(self, cj):
        """does the conjunct, holding as required on a path that returns true, demand that the compared operands are EQUAL?
        (False for `a != b` required true or `a == b` required false: such a method calls different objects equal)"""
        neg = getattr(cj, "_sa_required_false", False)
        t = cj
        while isinstance(t, ast.UnaryOp) and isinstance(t.op, ast.Not):
            t, neg = t.operand, not neg
        if isinstance(t, ast.Compare) and len(t.ops) == 1:
            if isinstance(t.ops[0], (ast.Eq, ast.Is)):
                return not neg
            if isinstance(t.ops[0], (ast.NotEq, ast.IsNot)):
                return neg
            return None
        if isinstance(t, ast.Call):
            fn = norm(t.func)
            if fn in ("np.array_equal", "np.allclose", "numpy.array_equal", "numpy.allclose", "all", "np.all", "numpy.all"):
                if fn in ("all", "np.all", "numpy.all") and t.args and isinstance(t.args[0], (ast.GeneratorExp, ast.ListComp)):
                    e = t.args[0].elt
                    if isinstance(e, ast.Compare) and len(e.ops) == 1 and isinstance(e.ops[0], (ast.NotEq, ast.IsNot)):
                        return neg
                return not neg
            if fn in ("any",):
                return None
        return None

    def _conjunct(self, cj, covered):
        sn, on = self.sn, self.on
        if isinstance(cj, ast.BoolOp) and isinstance(cj.op, ast.Or) and not getattr(cj, "_sa_required_false", False):
            return  # a disjunction demands none of its members
        if True:
            sa, oa = attrs_of(cj, sn), attrs_of(cj, on)
            both = set()
            for a in sa & oa:
                both |= self._expand(a)
            req = self._requires_equality(cj)
            if both and req is False:
                self.inverted.append((sorted(both), cj))
                return
            for a in both:
                covered.setdefault(a, cj)
            # length conjunct
            if isinstance(cj, ast.Compare) and isinstance(cj.left, ast.Call) and norm(cj.left.func) == "len":
                for a in both:
                    self.len_checked.add(a)
            # zip-based elementwise
            zips = [c for c in ast.walk(cj) if isinstance(c, ast.Call) and norm(c.func) == "zip"]
            for z in zips:
                strict = any(k.arg == "strict" and isinstance(k.value, ast.Constant) and k.value.value is True for k in z.keywords)
                za = set()
                for a in z.args:
                    if isinstance(a, ast.Attribute) and isinstance(a.value, ast.Name) and a.value.id in (sn, on):
                        za |= self._expand(a.attr)
                for a in za:
                    if (a, cj) not in self.elementwise:
                        self.elementwise.append((a, cj))
                    if not strict and (a, cj) not in self.zip_only:
                        self.zip_only.append((a, cj))
            # direct list/array equality counts as length-aware
            if isinstance(cj, ast.Compare) and len(cj.ops) == 1 and isinstance(cj.ops[0], (ast.Eq, ast.NotEq)) and not zips:
                for a in both:
                    self.len_checked.add(a)
            # numpy comparisons
            for c in ast.walk(cj):
                if isinstance(c, ast.Call) and norm(c.func) in ("np.array_equal", "np.allclose", "numpy.array_equal", "numpy.allclose", "np.isclose"):
                    en = any(k.arg == "equal_nan" and isinstance(k.value, ast.Constant) and k.value.value is True for k in c.keywords)
                    for a in (attrs_of(c, sn) & attrs_of(c, on)):
                        for ea in self._expand(a):
                            self.len_checked.add(ea) if norm(c.func).endswith("array_equal") else None
                            if not en and (ea, cj, norm(c.func)) not in self.nan_unaware:
                                self.nan_unaware.append((ea, cj, norm(c.func)))
                if isinstance(c, ast.Call) and norm(c.func) in ("np.all", "numpy.all", "all") and c.args and isinstance(c.args[0], ast.Compare):
                    cmp_ = c.args[0]
                    for a in (attrs_of(cmp_, sn) & attrs_of(cmp_, on)):
                        for ea in self._expand(a):
                            self.nan_unaware.append((ea, cj, "np.all(a == b)"))


def element_classes(cd: Codecs, u, attr):
    """Classes of the elements of container attribute `attr` (from the writer/reader Sub pairing)."""
    un = cd.unify(u)
    out = []
    from ..layout import Rep
    for w, r, a, k in un.sub_args:
        if r.cls is None:
            continue
        # the writer Sub's receiver is the loop variable of a Rep over self.<attr>
        for t in u.wterms:
            if isinstance(t, Rep) and t.kind == "coll" and norm(t.over) == f"self.{attr}" and isinstance(w.recv, ast.Name) and w.recv.id in t.vars:
                if r.cls not in out:
                    out.append(r.cls)
    return out


def eq_type_guard(prog, rep, rule="eq-type-guard"):
    """isinstance(other, K) in C.__eq__ must name C itself: a proper ancestor makes objects of different kinds compare equal."""
    n = 0
    for m in prog.modules.values():
        for c in m.classes.values():
            f = c.get("__eq__")
            if f is None or not f.params:
                continue
            o = f.params[0]
            for call in walk_no_nested(f.node):
                if isinstance(call, ast.Call) and norm(call.func) == "isinstance" and len(call.args) == 2 and norm(call.args[0]) == o and isinstance(call.args[1], ast.Name):
                    n += 1
                    k = prog.resolve_class(m, call.args[1].id)
                    if k is not None and k is not c and any(b is k for b in prog.mro(c)):
                        rep.fail(rule, m.path.name, f"{c.name}.__eq__", call, f"`{norm(call)}` accepts every {k.name}: objects of other classes (other block types) can compare equal to a {c.name}")
                    else:
                        rep.ok(rule, f"{c.name}.__eq__ tests isinstance(other, {call.args[1].id})")
            # without such a test (byte-level comparisons) `other` may be ANY block of a file compared slot by slot: only what every
            # block has may be read from it, or the comparison raises AttributeError instead of answering False
            guarded = any(isinstance(call, ast.Call) and norm(call.func) == "isinstance" and len(call.args) == 2 and norm(call.args[0]) == o for call in walk_no_nested(f.node))
            is_block = any(b.name == "Block" for b in prog.mro(c))
            if not guarded and is_block:
                common = set()
                for b in prog.mro(c):
                    if b is c or b.module.name != "tdfBlock":
                        continue
                    common |= {fn.name for fn in b.all_funcs()} | set(b.assigns)
                    init_b = b.get("__init__")
                    if init_b is not None:
                        common |= {t.attr for st in ast.walk(init_b.node) if isinstance(st, ast.Assign) for t in st.targets if isinstance(t, ast.Attribute) and isinstance(t.value, ast.Name) and t.value.id == "self"}
                for x in walk_no_nested(f.node):
                    if isinstance(x, ast.Attribute) and isinstance(x.value, ast.Name) and x.value.id == o and isinstance(x.ctx, ast.Load) and x.attr not in common:
                        rep.fail(rule, m.path.name, f"{c.name}.__eq__", x, f"`{norm(x)}` is read from the other operand without a test that it is a {c.name}: blocks of other types (an unused slot, "
                                 f"an EMG block in the same slot of another file) have no `{x.attr}`, so comparing files raises AttributeError instead of answering False",
                                 construct=f"{c.name}.__eq__ reads other.{x.attr} unguarded")
                        break
    rep.floor(rule, n, 12)


def allclose_on_sequences(prog, cd, rep, rule="eq-length"):
    """np.allclose / np.isclose broadcast instead of comparing shapes: on a variable-length value list they make a shorter
    list equal to a longer one unless the lengths are compared too."""
    from .. import facts
    for u in cd.units.values():
        f = u.cls.get("__eq__")
        if f is None:
            continue
        info = EqInfo(prog, u.cls, f)
        kinds = facts.attr_kinds(prog, u.cls)
        for a, node, how in info.nan_unaware + [(x, n, "np.allclose") for x, n, h in []]:
            pass
        for cj in info.conj:
            for c in ast.walk(cj):
                if isinstance(c, ast.Call) and norm(c.func) in ("np.allclose", "numpy.allclose", "np.isclose"):
                    for a in attrs_of(c, info.sn) & attrs_of(c, info.on):
                        k = kinds.get(a, {}).get("kind")
                        if k == "seq" and a not in info.len_checked:
                            rep.fail(rule, u.cls.module.path.name, f"{u.cls.name}.__eq__", cj, f"variable-length `{a}` is compared with {norm(c.func)}, which broadcasts: value lists of different lengths (0 or 1 item vs. more) compare equal",
                                     construct=f"{u.cls.name}.__eq__ :: allclose {a}")


def cell_coverage(prog, cd, rep, rule="eq-cell-coverage"):
    """A cell-by-cell comparison `X[i, j] for i in range(A) for j in range(B)` must range over the full extents of the
    array in axis order: (A, B) are the attributes the decoder passes as (axis 0, axis 1) extents of the decoded array."""
    from ..layout import Alloc, Sub, walk_terms
    for u in cd.units.values():
        f = u.cls.get("__eq__")
        if f is None:
            continue
        un = cd.unify(u)
        # expected extents per sub-object: inner decoder allocates np.empty((p0, p1)) from its parameters
        expected = None
        for w, r, args, kwargs in un.sub_args:
            inner = cd.units.get(r.cls.name) if r.cls is not None else None
            if inner is None:
                continue
            params = [p for p in inner.reader.params if p != inner.rstream]
            for a in walk_terms(inner.rterms):
                if isinstance(a, Alloc) and isinstance(a.length, (ast.Tuple, ast.List)) and len(a.length.elts) == 2 and all(isinstance(e, ast.Name) and e.id in params for e in a.length.elts):
                    idx = [params.index(e.id) for e in a.length.elts]
                    if max(idx) < len(args):
                        expected = [canon(args[i], un.ctx) for i in idx]
        if expected is None:
            continue
        sn, on = f.self_name or "self", f.params[0]
        for g in [x for x in walk_no_nested(f.node) if isinstance(x, (ast.GeneratorExp, ast.ListComp)) and len(x.generators) == 2]:
            ext = {}
            for gen in g.generators:
                if isinstance(gen.target, ast.Name) and isinstance(gen.iter, ast.Call) and norm(gen.iter.func) == "range" and len(gen.iter.args) == 1:
                    ext[gen.target.id] = norm(gen.iter.args[0])
            subs = [x for x in ast.walk(g.elt) if isinstance(x, ast.Subscript) and isinstance(x.slice, ast.Tuple) and len(x.slice.elts) == 2 and all(isinstance(e, ast.Name) and e.id in ext for e in x.slice.elts)]
            if not subs or len(ext) != 2:
                continue
            got = [ext[e.id] for e in subs[0].slice.elts]
            if got == expected:
                rep.ok(rule, f"{u.cls.name}.__eq__: cells compared over the full extents {expected} in axis order", nontrivial=True)
            else:
                rep.fail(rule, u.cls.module.path.name, f"{u.cls.name}.__eq__", g, f"cells `{norm(subs[0])}` are compared over range({got[0]}) x range({got[1]}) but the array's axes have extents {expected[0]} x {expected[1]}: some cells are never compared")


def exact_scalars(prog, cd, rep, rule="eq-exact-scalars"):
    """'Unequal to a block that differs in any header scalar': a field the writer stores as ONE number (frequency, start time, counts)
    is compared exactly.  np.isclose / np.allclose / math.isclose on it calls two blocks with different stored values equal
    (the tolerance is relative: 31 ms at a start time of one hour)."""
    from ..layout import Field, walk_terms
    n = 0
    for u in cd.units.values():
        c = u.cls
        f = c.get("__eq__") if c is not None else None
        if f is None:
            continue
        scalars = set()
        for t in walk_terms(u.wterms):
            if isinstance(t, Field) and t.role == "data" and t.count is None and not t.dt.shape and t.dt.kind in ("i", "u", "f") and t.value is not None:
                v = t.value
                if isinstance(v, ast.Attribute) and isinstance(v.value, ast.Name) and v.value.id == "self":
                    # only attributes the constructor does not turn into arrays
                    scalars.add(v.attr)
        sn = f.self_name or "self"
        for call in [x for x in ast.walk(f.node) if isinstance(x, ast.Call) and norm(x.func) in ("np.isclose", "np.allclose", "numpy.isclose", "numpy.allclose", "math.isclose", "isclose")]:
            for a in call.args[:2]:
                if isinstance(a, ast.Attribute) and isinstance(a.value, ast.Name) and a.value.id == sn and a.attr in scalars:
                    n += 1
                    rep.fail(rule, c.module.path.name, f"{c.name}.__eq__", call, f"the stored scalar `{a.attr}` is compared with `{norm(call.func)}` (a relative tolerance): blocks whose `{a.attr}` differ "
                             "by less than that compare equal although they encode differently", construct=f"{c.name}.__eq__ :: tolerant {a.attr}")
    rep.ok(rule, "no __eq__ compares a single stored number with a tolerance", nontrivial=True)


def exact_arrays_normalised(prog, cd, rep, rule="eq-exact-arrays"):
    """An array attribute that __eq__ compares exactly (np.array_equal) and the writer stores narrower than float64 (f4) must be
    held in that stored type: otherwise a block built from a float64 array differs from the decode of its own encoding (0.35 is
    not 0.35f).  Every constructor store of such an attribute converts to the codec's type (`np.array(x, dtype=..)`,
    `np.asarray(x, dtype=..)`, `x.astype(..)`) or is on a path that has established `x.dtype == <that type>`."""
    from ..facts import flat_facts, path_returns
    from ..index import parse_dtype_node
    from ..layout import Field, walk_terms
    n = 0
    for u in cd.units.values():
        c = u.cls
        f = c.get("__eq__") if c is not None else None
        init = c.get("__init__") if c is not None else None
        if f is None or init is None:
            continue
        sn = f.self_name or "self"
        exact = set()
        for call in [x for x in ast.walk(f.node) if isinstance(x, ast.Call) and norm(x.func) in ("np.array_equal", "numpy.array_equal")]:
            for a in call.args[:2]:
                if isinstance(a, ast.Attribute) and isinstance(a.value, ast.Name) and a.value.id == sn:
                    exact.add(a.attr)
        if not exact:
            continue
        stored = {}
        for t in walk_terms(u.wterms):
            if isinstance(t, Field) and t.role == "data" and t.value is not None and t.dt.kind == "f" and t.dt.size < 8:
                v = t.value
                if isinstance(v, ast.Attribute) and isinstance(v.value, ast.Name) and v.value.id == "self" and v.attr in exact:
                    stored[v.attr] = t.dt
        btype = lambda nm: (prog.codec(c.module, nm) or (None, None))[1]

        def is_dt(node, dt):
            try:
                d = parse_dtype_node(node, btype=btype)
            except AnalysisError:
                if isinstance(node, ast.Attribute) and isinstance(node.value, ast.Name) and node.value.id in ("np", "numpy"):
                    return {"float32": ("f", 4), "single": ("f", 4), "float16": ("f", 2)}.get(node.attr) == (dt.kind, dt.size)
                return False
            return d is not None and d.kind == dt.kind and d.size == dt.size and not d.shape
        for attr, dt in stored.items():
            sn_i = init.self_name or "self"
            for pe in path_returns(init.node):
                for e in pe.effects:
                    if not (isinstance(e, ast.Assign) and len(e.targets) == 1 and isinstance(e.targets[0], ast.Attribute) and isinstance(e.targets[0].value, ast.Name)
                            and e.targets[0].value.id == sn_i and e.targets[0].attr == attr):
                        continue
                    n += 1

                    def judge(v, guards):
                        """the stored value is of the codec's type, given the facts (test, outcome) that hold where it is stored"""
                        if isinstance(v, ast.IfExp):
                            return judge(v.body, guards + [(v.test, True)]) and judge(v.orelse, guards + [(v.test, False)])
                        if isinstance(v, ast.Call) and norm(v.func) in ("np.array", "np.asarray", "numpy.array", "numpy.asarray", "np.ascontiguousarray", "np.fromiter"):
                            d_ = next((k.value for k in v.keywords if k.arg == "dtype"), v.args[1] if len(v.args) > 1 else None)
                            return d_ is not None and is_dt(d_, dt)
                        if isinstance(v, ast.Call) and isinstance(v.func, ast.Attribute) and v.func.attr == "astype" and v.args:
                            return is_dt(v.args[0], dt)
                        if isinstance(v, ast.Name):
                            for t_, pol in flat_facts(guards):
                                if isinstance(t_, ast.Compare) and len(t_.ops) == 1 and ((pol and isinstance(t_.ops[0], ast.Eq)) or (not pol and isinstance(t_.ops[0], ast.NotEq))):
                                    for a_, b_ in ((t_.left, t_.comparators[0]), (t_.comparators[0], t_.left)):
                                        if norm(a_) == f"{v.id}.dtype" and is_dt(b_, dt):
                                            return True
                        return False
                    good = judge(e.value, list(pe.guards))
                    if good:
                        rep.ok(rule, f"{c.name}.__init__: `{attr}` is stored as {dt.kind}{dt.size}, the type it is written and exactly compared in", nontrivial=True)
                    else:
                        rep.fail(rule, c.module.path.name, f"{c.name}.__init__", e, f"`{norm(e)[:70]}` keeps `{attr}` in whatever type it was given, but it is written as {dt.kind}{dt.size} and compared with "
                                 "np.array_equal: a block built from float64 values differs from the decode of its own encoding", construct=f"{c.name}.__init__ :: {attr} not normalised")
    rep.floor(rule, n, 1)


def run(prog, rep):
    cd = Codecs(prog)
    cd.flag_errors(rep)
    from ..codecs import no_stale_derived_state
    rep.attempt(no_stale_derived_state, prog, cd, rep)
    # 'a block equals its own decode': the text fields come back as they were written only if the string codec is inverse
    from .. import primitives as PR
    rep.attempt(PR.string_codec, prog, rep)
    # the byte-level comparisons are faithful to content only while the numeric primitive encodes CONTENT (element order C,
    # fixed dtype), not the memory layout of the array that happens to hold it
    rep.attempt(PR.tdftype_primitives, prog, rep)
    # .. and while no value is narrowed on its way to the primitive: a scratch array of a narrower type than the on-disk field wraps
    # counts / codes, so the decode differs from the block (and two different blocks decode alike)
    from ..staging import staging_dtypes
    rep.attempt(staging_dtypes, prog, rep)
    # 'equal to the block obtained by encoding and decoding it': the decode IS the block only if writer and reader agree field by field
    # and every stored field comes back in its own attribute (C01's term comparison and attribute linkage, a premise here)
    from .c01 import attr_linkage, report_unit
    for u_ in [x for x in cd.units.values() if x.name not in ("TdfEntry",)]:
        rep.attempt(report_unit, rep, cd, u_, rule="decode-symmetry")
        rep.attempt(attr_linkage, rep, cd, u_, rule="decode-symmetry")
    # .. and 'equal to the block obtained by encoding and decoding it' needs the channel numbers to come back as stored: the decoders
    # rebuild channel-mapped blocks through the adders, whose pairing / explicit-channel rules are C15's
    from .c01 import equivalence_discharge
    equivalence_discharge(prog, cd, rep, extra=("explicit-channel-honoured",))
    rep.explanation = (
        "the oracle for 'content' is the writer: every attribute the layout term of C._write reads must take part in C.__eq__ "
        "(eq-coverage) unless __eq__ is byte-level (serialises both operands, faithful by C01); element-wise zip comparisons "
        "must be conjoined with a length comparison (eq-length); sample arrays of gap-capable classes are compared NaN-aware "
        "(eq-nan-aware); every class occurring as element of a compared container defines __eq__ (eq-defined); Tdf.__eq__ "
        "conjoins version, slot count and block list (eq-file)."
    )
    n_eq = 0
    gap_classes = {u.cls.name for u in cd.units.values() if u.cls.get("_segments", "getter") is not None}
    for u in list(cd.units.values()):
        c = u.cls
        mod = c.module.path.name
        f = c.get("__eq__")
        if f is None:
            continue
        n_eq += 1
        fq = f"{c.name}.__eq__"
        info = EqInfo(prog, c, f)
        if info.byte_level:
            rep.ok("eq-coverage", f"{fq}: byte-level (both operands serialised and compared) - faithful by construction given C01", nontrivial=True)
            continue
        if info.closed_to_own_class:
            rep.fail("eq-coverage", mod, fq, getattr(info, "ret", f.node), f"no path that answers True is open to another {c.name}: objects with the same content never compare equal",
                     construct=f"{fq} :: closed to {c.name}")
        for attrs, cj in info.inverted:
            rep.fail("eq-coverage", mod, fq, getattr(info, "ret", f.node), f"`{norm(cj)[:80]}` must hold for the objects to be called equal: the comparison of {attrs} is inverted "
                     "(objects that differ there compare equal, identical ones do not)", construct=f"{fq} :: inverted {attrs}")
        reads = writer_attr_reads(prog, u)
        for a in sorted(reads):
            if a == "format":
                continue
            if a in info.covered:
                rep.ok("eq-coverage", f"{fq}: stored field `{a}` is compared")
            else:
                rep.fail("eq-coverage", mod, fq, getattr(info, "ret", f.node), f"`{a}` is written to the file by {c.name}._write but ignored by __eq__: two blocks differing only in it compare equal",
                         construct=f"{fq} :: {a}")
        partner = {}
        if c.name in cd.pairs:
            pa, pb = cd.pairs[c.name][0], cd.pairs[c.name][1]
            partner = {pa: pb, pb: pa}
        for a, node in info.zip_only:
            if a in info.len_checked or partner.get(a) in info.len_checked:
                rep.ok("eq-length", f"{fq}: zip over `{a}` is conjoined with a length comparison", nontrivial=True)
            else:
                rep.fail("eq-length", mod, fq, node, f"`{a}` is compared element-wise through zip() without comparing the lengths: a proper prefix compares equal",
                         construct=f"{fq} :: zip {a}")
        if c.name in gap_classes:
            for a, node, how in info.nan_unaware:
                rep.fail("eq-nan-aware", mod, fq, node, f"samples `{a}` are compared with {how} (NaN != NaN): a track with a gap is unequal to itself and to its own decode",
                         construct=f"{fq} :: {a} {how}")
            if not info.nan_unaware:
                rep.ok("eq-nan-aware", f"{fq}: sample arrays compared NaN-aware", nontrivial=True)
        # element classes of compared containers define __eq__
        for a, node in info.elementwise:
            for k in element_classes(cd, u, a):
                if k.get("__eq__") is not None:
                    rep.ok("eq-defined", f"{fq}: element class {k.name} of `{a}` defines __eq__")
                else:
                    rep.fail("eq-defined", k.module.path.name, k.name, k.node, f"{k.name} objects are compared by {fq} (elements of `{a}`) but the class defines no __eq__: identity comparison makes a decoded block unequal to its source",
                             construct=f"class {k.name} :: __eq__")
        for a in info.len_checked:
            pass
    # containers compared with list == also need element __eq__
    for u in cd.units.values():
        f = u.cls.get("__eq__")
        if f is None:
            continue
        info = EqInfo(prog, u.cls, f)
        if info.byte_level:
            continue
        for a in info.covered:
            for k in element_classes(cd, u, a):
                if k.get("__eq__") is None and not any(x[0] == a for x in info.elementwise):
                    rep.fail("eq-defined", k.module.path.name, k.name, k.node, f"{k.name} (element of {u.cls.name}.{a}) defines no __eq__", construct=f"class {k.name} :: __eq__")
    rep.floor("eq methods", n_eq, 18)
    rep.attempt(exact_scalars, prog, cd, rep)
    rep.attempt(exact_arrays_normalised, prog, cd, rep)
    from ..staging import constructor_dtypes
    rep.attempt(constructor_dtypes, prog, cd, rep)
    rep.attempt(eq_type_guard, prog, rep)
    rep.attempt(allclose_on_sequences, prog, cd, rep)
    cell_coverage(prog, cd, rep)
    # units without __eq__ that are elements of something compared are reported above; units with a writer and no __eq__ at all:
    for u in cd.units.values():
        if u.cls.get("__eq__") is None:
            used = any(u.cls in element_classes(cd, v, a) for v in cd.units.values() for a in writer_attr_reads(prog, v))
            if not used:
                rep.note(f"{u.cls.name} defines no __eq__ and is not an element of a compared container")
    # Tdf.__eq__
    tdf = prog.need_cls("Tdf", "basictdf")
    f = prog.need_method(tdf, "__eq__")
    info = EqInfo(prog, tdf, f)
    need = {"version", "nEntries", "blocks"}
    cov = set(info.covered_direct)
    if info.closed_to_own_class:
        rep.fail("eq-file", "basictdf.py", "Tdf.__eq__", getattr(info, "ret", f.node), "no path that answers True is open to another Tdf: two files with the same content never compare equal",
                 construct="Tdf.__eq__ :: closed to Tdf")
    for attrs, cj in info.inverted:
        rep.fail("eq-file", "basictdf.py", "Tdf.__eq__", getattr(info, "ret", f.node), f"`{norm(cj)[:80]}`: the comparison of {attrs} is inverted", construct=f"Tdf.__eq__ :: inverted {attrs}")
    if need <= cov:
        rep.ok("eq-file", "Tdf.__eq__ conjoins version, nEntries and blocks", nontrivial=True)
    else:
        rep.fail("eq-file", "basictdf.py", "Tdf.__eq__", getattr(info, "ret", f.node), f"Tdf.__eq__ does not compare {sorted(need - cov)}", construct=f"Tdf.__eq__ :: {sorted(need - cov)}")
    # "exactly when their ... block lists do": lists compare position by position; a dict / set / sorted view of the blocks forgets the order
    unordered = [x for x in ast.walk(f.node) if (isinstance(x, (ast.DictComp, ast.SetComp, ast.Dict, ast.Set))
                                                or (isinstance(x, ast.Call) and norm(x.func) in ("dict", "set", "frozenset", "sorted", "Counter", "collections.Counter")))
                 and any(isinstance(y, ast.Attribute) and y.attr == "blocks" for y in ast.walk(x))]
    if unordered:
        rep.fail("eq-file", "basictdf.py", "Tdf.__eq__", unordered[0], f"the block lists are compared through `{norm(unordered[0])[:60]}`, which forgets their order: files holding the same blocks in different slots compare equal",
                 construct="Tdf.__eq__ :: unordered blocks")
    else:
        rep.ok("eq-file", "Tdf.__eq__ compares the block lists as sequences (no dict / set / sorted view)")
    # TdfEntry
    rep.not_decided += ["tolerance semantics of np.allclose ('beyond float tolerance' is the property's wording)", "object-array comparison in Data2DPCK.__eq__"]
