"""C13 fixed-width text fields: byte-length algebra over BTSString.write (DESIGN 3/C13)."""
from __future__ import annotations

import ast

from ..index import walk_no_nested
from ..poly import Poly
from ..report import AnalysisError, head, norm
from ..strings import WriteAnalysis, codec_of, nul_cut

VALUE_ERRORS = ("ValueError", "UnicodeError", "UnicodeEncodeError")
WIDTHS = (32, 256)


def refusal_messages_total(prog, rep, rule="str-refuse-before-return"):
    """'else refused' means refused WITH ValueError / UnicodeEncodeError: the message of a refusal in BTSString.write must be built
    without evaluating anything that can fail on the text being refused.  `%` / `.format` are fine on a template that does not
    contain the text (a literal or a module / class constant); applied to text that was concatenated with the caller's string they
    parse that string as a format ('50%d', '{x}') and raise TypeError / KeyError / IndexError instead of the refusal."""
    c = prog.need_cls("BTSString", "tdfTypes")
    f = prog.need_method(c, "write")
    local_names = {a.arg for a in f.node.args.args + f.node.args.kwonlyargs} | {x.id for x in walk_no_nested(f.node) if isinstance(x, ast.Name) and isinstance(x.ctx, ast.Store)}
    n = 0
    for r in [x for x in walk_no_nested(f.node) if isinstance(x, ast.Raise) and isinstance(x.exc, ast.Call)]:
        for a in list(r.exc.args) + [k.value for k in r.exc.keywords]:
            n += 1
            bad = None
            for y in ast.walk(a):
                tmpl = None
                if isinstance(y, ast.BinOp) and isinstance(y.op, ast.Mod):
                    tmpl = y.left
                elif isinstance(y, ast.Call) and isinstance(y.func, ast.Attribute) and y.func.attr in ("format", "format_map"):
                    tmpl = y.func.value
                if tmpl is not None and any(isinstance(x, ast.Name) and x.id in local_names for x in ast.walk(tmpl)):
                    bad = (y, tmpl)
                    break
            if bad:
                rep.fail(rule, "tdfTypes.py", "BTSString.write", r, f"the message of `raise {norm(r.exc.func)}` formats a template that contains the caller's text (`{norm(bad[1])[:60]}`): a text with '%' or braces "
                         "makes the formatting itself raise (TypeError / KeyError), so the text is not refused with ValueError", construct="BTSString.write refusal message formats the text")
            else:
                rep.ok(rule, f"BTSString.write: message of {norm(r.exc.func)} never uses the refused text as a format template")
    rep.floor(rule + "/messages", n, 1)


def string_write_rules(prog, rep):
    """BTSString.write: exact width, terminator, refusal instead of truncation, strict codec (shared with C01 C04 C06 C10)."""
    mod = "tdfTypes.py"
    wa = WriteAnalysis(prog)
    fq = "BTSString.write"
    L, S = wa.L, wa.S
    if not wa.returns:
        raise AnalysisError("BTSString.write has no return statement")
    # a store into something that outlives the call (a class attribute, a module-level name or an item of one) whose content a
    # return path reads back: the field handed out then depends on earlier calls, not only on (size, text) - the width a text
    # was first written with sticks to it
    fnode = wa.f.node
    locals_ = {a.arg for a in fnode.args.args + fnode.args.kwonlyargs} | {x.id for x in walk_no_nested(fnode) if isinstance(x, ast.Name) and isinstance(x.ctx, ast.Store)}

    def _outer_base(t):
        while isinstance(t, (ast.Subscript, ast.Attribute)):
            t = t.value
        return t.id if isinstance(t, ast.Name) and t.id not in locals_ else None
    for st in walk_no_nested(fnode):
        tg = st.targets[0] if isinstance(st, ast.Assign) and len(st.targets) == 1 else st.target if isinstance(st, (ast.AugAssign, ast.AnnAssign)) else None
        if isinstance(tg, (ast.Subscript, ast.Attribute)) and _outer_base(tg) is not None:
            cell = norm(tg.value) if isinstance(tg, ast.Subscript) else norm(tg)
            back = [r for r in walk_no_nested(fnode) if isinstance(r, ast.Return) and r.value is not None and any(norm(x) == cell for x in ast.walk(r.value))]
            keyed = isinstance(tg, ast.Subscript) and {wa.size_p, wa.data_p} <= {x.id for x in ast.walk(tg.slice) if isinstance(x, ast.Name)}
            if back and not keyed:
                from ..report import DefiniteViolation
                raise DefiniteViolation("str-width-exact", mod, fq, back[0],
                                        f"`{norm(head(back[0]))}` hands out a field remembered in `{cell}` (stored by `{norm(head(st))[:60]}`), which outlives the call: "
                                        "the bytes returned depend on the width of an earlier call, not on this call's size",
                                        construct=f"{fq} returns from {cell}", props=("C13", "C01", "C02", "C04", "C06", "C10", "C03", "C09"))
    for st in wa.unknown:
        raise AnalysisError(f"BTSString.write: statement not covered by the length algebra: `{norm(head(st))}`")
    # --- refuse-before-return
    want = L - S  # raise iff L + 1 > size  <=>  L - size >= 0
    fits = S - L - 1
    for b, st, nonneg, guards, value in wa.returns:
        good = [g for g in guards if g[0] is not None and g[0] == want]
        if good and any(q == fits for q in nonneg):
            g = good[0]
            if g[1] in VALUE_ERRORS:
                rep.ok("str-refuse-before-return", f"{fq}: the return is reached exactly when len(encoded)+1 <= size; otherwise `raise {g[1]}`", nontrivial=True,
                       sample={"guard": g[3], "normal form": f"raise iff {want} >= 0"})
            else:
                rep.fail("str-refuse-before-return", mod, fq, g[2], f"over-long text is refused with {g[1]}, not ValueError")
        else:
            dec = [g for g in guards if g[0] is not None]
            if dec:
                P = dec[0][0]
                d = P - want
                how = "a string that exactly fills the field without room for its terminator is accepted" if (d.is_const() and d.const_value() < 0) else \
                      "a string that still fits (with its terminator) is refused" if d.is_const() else "the condition is not `len(encoded)+1 > size`"
                rep.fail("str-refuse-before-return", mod, fq, dec[0][2], f"length check is `{dec[0][3]}` (raise iff {P} >= 0); required: raise iff {want} >= 0: {how}",
                         construct="BTSString.write length check")
            else:
                rep.fail("str-refuse-before-return", mod, fq, st, "the return is not dominated by a length check that raises ValueError for text that does not fit with its terminator",
                         construct="BTSString.write length check")
        # --- terminated
        if b is None:
            rep.fail("str-terminated", mod, fq, st, f"returned expression `{norm(value) if value is not None else None}` is not a concatenation the length algebra understands")
            continue
        parts = b.parts
        ok_struct = len(parts) >= 2 and parts[0][0] == "enc" and parts[1][0] == "const" and parts[1][1][:1] == b"\x00" and set(parts[1][1]) <= {0} \
            and all(p[0] in ("zeros",) or (p[0] == "const" and set(p[1]) <= {0}) for p in parts[2:])
        # the terminator may be the first byte of the zero fill: encoded text + k zero bytes with k >= 1 on this path
        from ..strings import implied_nonneg
        if not ok_struct and len(parts) >= 2 and parts[0][0] == "enc" and parts[1][0] == "zeros" and implied_nonneg(parts[1][1], nonneg, at_least=1) \
                and all(p[0] in ("zeros",) or (p[0] == "const" and set(p[1]) <= {0}) for p in parts[2:]):
            ok_struct = True
        if ok_struct:
            rep.ok("str-terminated", f"{fq}: returns encoded text + NUL + zero bytes", nontrivial=True)
        else:
            rep.fail("str-terminated", mod, fq, st, f"returned bytes are {[p[0] if p[0] != 'const' else p[1] for p in parts]}: not encoded text followed by a NUL terminator and zero padding")
        # --- width exact
        ln, why = b.length(L, nonneg)
        if ln is None:
            rep.fail("str-width-exact", mod, fq, st, f"returned length is not decidable: {why}")
        elif ln == S:
            rep.ok("str-width-exact", f"{fq}: returned length normalises to `size` under the fall-through constraints {[str(c) + ' >= 0' for c in nonneg]}", nontrivial=True)
        else:
            rep.fail("str-width-exact", mod, fq, st, f"returned length is `{ln}`, not `size`: the field spills or is short")
    # --- no truncation
    if wa.slices:
        for s in wa.slices:
            rep.fail("str-refuse-before-return", mod, fq, s, "encoded data is sliced (truncated) instead of being refused")
    else:
        rep.ok("str-refuse-before-return", f"{fq}: no slicing of the encoded data")
    # --- strict codec
    if not wa.encodes:
        raise AnalysisError("BTSString.write no longer encodes its argument")
    wcodec = None
    for c in wa.encodes:
        enc = c.args[0] if c.args else next((k.value for k in c.keywords if k.arg == "encoding"), None)
        errs = c.args[1] if len(c.args) > 1 else next((k.value for k in c.keywords if k.arg == "errors"), None)
        wcodec = codec_of(enc) if enc is not None else "utf-8"
        if wcodec != "cp1252":
            rep.fail("str-strict-codec", mod, fq, c, f"text is encoded with {norm(enc)}, not Windows-1252")
        elif errs is not None and not (isinstance(errs, ast.Constant) and errs.value == "strict"):
            rep.fail("str-strict-codec", mod, fq, c, f"encode uses errors={norm(errs)}: unencodable text is altered instead of refused")
        else:
            rep.ok("str-strict-codec", f"{fq}: strict windows-1252 (UnicodeEncodeError is a ValueError)")
    # --- the refusal reaches the caller AS a ValueError: no method of the class that calls write() catches it and raises something else
    for f in wa.cls.all_funcs():
        calls = [c for c in walk_no_nested(f.node) if isinstance(c, ast.Call) and isinstance(c.func, ast.Attribute) and c.func.attr == "write"
                 and isinstance(c.func.value, ast.Name) and c.func.value.id in (wa.cls.name, "cls", "self")]
        if not calls or f is wa.f:
            continue
        translated = False
        for tr in [t for t in walk_no_nested(f.node) if isinstance(t, ast.Try)]:
            if not any(c is x for c in calls for b in tr.body for x in ast.walk(b)):
                continue
            for h in tr.handlers:
                caught = [norm(x) for x in (h.type.elts if isinstance(h.type, ast.Tuple) else [h.type])] if h.type is not None else ["BaseException"]
                if not any(c_.split(".")[-1] in VALUE_ERRORS + ("Exception", "BaseException") for c_ in caught):
                    continue
                reraises = [r for r in ast.walk(h) if isinstance(r, ast.Raise)]
                same = bool(reraises) and all(r.exc is None or (isinstance(r.exc, ast.Name) and r.exc.id == h.name)
                                                or (isinstance(r.exc, ast.Call) and norm(r.exc.func).split(".")[-1] in VALUE_ERRORS) for r in reraises)
                if not same:
                    translated = True
                    rep.fail("str-refuse-before-return", mod, f"{wa.cls.name}.{f.name}", h,
                             f"the handler `except {', '.join(caught)}` around the call of write() turns its refusal (ValueError for over-long or unencodable text) into "
                             f"`{norm(head(reraises[0])) if reraises else 'nothing'}`: the text is no longer refused with ValueError",
                             construct=f"{wa.cls.name}.{f.name} except {', '.join(caught)}")
        if not translated:
            rep.ok("str-refuse-before-return", f"{wa.cls.name}.{f.name}: calls write(); its ValueError is not translated on the way out")


def fields_encoded_at_write_time(prog, rep, rule="str-encoded-when-written"):
    """`BTSString.write(width, text)` refuses and encodes the text it is GIVEN: a field encoded anywhere but in the serialiser that
    emits it (a constructor or setter that stores `BTSString.write(..)` on the object for `_write` to emit later) is the encoding of
    an older text once the attribute has been assigned again - the string written is not the one the object carries, and a new text
    that does not fit is not refused."""
    n = 0
    bad = 0
    for m in prog.modules.values():
        for cls in m.classes.values():
            if cls.name == "BTSString":
                continue
            for f in cls.all_funcs():
                for st in walk_no_nested(f.node):
                    if not isinstance(st, (ast.Assign, ast.AnnAssign, ast.AugAssign)):
                        continue
                    val = st.value
                    if val is None or not any(isinstance(c, ast.Call) and norm(c.func) in ("BTSString.write",) for c in ast.walk(val)):
                        continue
                    n += 1
                    tgs = st.targets if isinstance(st, ast.Assign) else [st.target]
                    stored = [t for t in tgs for y in ast.walk(t) if isinstance(y, ast.Attribute) and isinstance(y.ctx, ast.Store)]
                    if stored:
                        bad += 1
                        rep.fail(rule, m.path.name, f"{cls.name}.{f.name}", st, f"`{norm(st)[:70]}` keeps an encoded string field on the object: the serialiser emits the text as it was then, "
                                 "not the attribute's value at write time (a later, longer or unencodable text is neither written nor refused)", construct=f"{cls.name}.{f.name} stores an encoded field")
    if not bad:
        rep.ok(rule, f"no class keeps the result of BTSString.write on an object ({n} local uses): fixed-width text is encoded where it is emitted")


def text_not_by_truthiness(prog, rep, rule="str-empty-is-a-value"):
    """The empty string is a valid value of every fixed-width field (length 0, shorter than the field).  A text parameter that is
    tested by truthiness (`comment or default`, `if not label:`) treats "" as "not given": the caller's empty string is replaced by
    something else and what is written is not what was passed.  "Not given" is spelled `is None`."""
    n = 0
    bad = 0
    for m in prog.modules.values():
        funcs = list(m.functions.values()) + [f for c in m.classes.values() for f in c.all_funcs()]
        for f in funcs:
            a = f.node.args
            allp = a.posonlyargs + a.args + a.kwonlyargs
            defaults = dict(zip([x.arg for x in a.args[len(a.args) - len(a.defaults):]], a.defaults))
            defaults.update({x.arg: d for x, d in zip(a.kwonlyargs, a.kw_defaults) if d is not None})
            texts = set()
            for x in allp:
                ann = norm(x.annotation) if x.annotation is not None else ""
                if ann in ("str", "Optional[str]", "Union[str, None]", "str | None") or (isinstance(defaults.get(x.arg), ast.Constant) and isinstance(defaults[x.arg].value, str)):
                    texts.add(x.arg)
            if not texts:
                continue
            rebound = {y.id for y in walk_no_nested(f.node) if isinstance(y, ast.Name) and isinstance(y.ctx, ast.Store)}
            for x in walk_no_nested(f.node):
                cands = []
                if isinstance(x, ast.BoolOp):
                    cands += x.values[:-1] if isinstance(x.op, ast.Or) else x.values
                if isinstance(x, (ast.If, ast.While, ast.IfExp)):
                    cands.append(x.test)
                for c_ in cands:
                    while isinstance(c_, ast.UnaryOp) and isinstance(c_.op, ast.Not):
                        c_ = c_.operand
                    if isinstance(c_, ast.Name) and c_.id in texts and c_.id not in rebound:
                        n += 1
                        bad += 1
                        rep.fail(rule, m.path.name, f.qualname, x, f"the text parameter `{c_.id}` is tested by truthiness (`{norm(x)[:60]}`): an empty string - a valid field value - is taken for \"not given\" "
                                 "and something else is written in its place", construct=f"{f.qualname} truthiness of {c_.id}")
    if not bad:
        rep.ok(rule, "no text parameter of the package is tested by truthiness")


def run(prog, rep):
    rep.explanation = (
        "byte-length abstract domain over the body of BTSString.write: lengths are linear forms over `size` and "
        "L = len(encoded text); b'\\0'*k has length k only under a path constraint k >= 0; a raise under condition c refines "
        "the fall-through state with not c. Obligations: returned value is E + NUL + zeros (str-terminated), the only return is "
        "dominated by a ValueError raised exactly when L + 1 > size (str-refuse-before-return), the returned length "
        "normalises to exactly `size` (str-width-exact), strict cp1252 (str-strict-codec), reader default codec agrees, "
        "every call site passes a literal width in {32, 256}, reader cuts at the first NUL."
    )
    mod = "tdfTypes.py"
    string_write_rules(prog, rep)
    rep.attempt(fields_encoded_at_write_time, prog, rep)
    rep.attempt(text_not_by_truthiness, prog, rep)
    rep.attempt(refusal_messages_total, prog, rep)
    # 'reading it back returns the identical string': reader and writer use one codec at every call site
    from .. import primitives as PR
    rep.attempt(PR.string_codec, prog, rep, with_nul_cut=False)
    wa = WriteAnalysis(prog)
    cls = wa.cls
    fq = "BTSString.write"
    # --- reader codec agreement
    cls = wa.cls
    for mname in ("read", "bread"):
        f = prog.need_method(cls, mname)
        d = f.defaults().get("encoding")
        if d is None:
            # maybe hard-coded decode
            decs = [c for c in walk_no_nested(f.node) if isinstance(c, ast.Call) and isinstance(c.func, ast.Attribute) and c.func.attr == "decode"]
            lit = [codec_of(c.args[0]) for c in decs if c.args]
            if lit and all(x == "cp1252" for x in lit):
                rep.ok("str-codec-agreement", f"BTSString.{mname}: decodes windows-1252")
            elif mname == "bread" and not decs:
                rep.ok("str-codec-agreement", "BTSString.bread delegates the codec")
            else:
                rep.fail("str-codec-agreement", mod, f"BTSString.{mname}", f.node, "reader has no windows-1252 default", construct=f"BTSString.{mname} encoding default")
        elif codec_of(d) == "cp1252":
            rep.ok("str-codec-agreement", f"BTSString.{mname}: default encoding {d.value!r} is the writer's codec")
        else:
            rep.fail("str-codec-agreement", mod, f"BTSString.{mname}", d, f"reader default encoding {norm(d)} differs from the writer's windows-1252")
    # bread forwards size and encoding to read
    from ..facts import path_returns, return_leaves

    def call_args(call, names):
        """positional + keyword arguments of a call, by the callee's parameter names"""
        out = {}
        for n_, a in zip(names, call.args):
            out[n_] = a
        for k in call.keywords:
            if k.arg:
                out[k.arg] = k.value
        return out

    br = prog.need_method(cls, "bread")
    rd = prog.need_method(cls, "read")
    okk = False
    leaves = return_leaves(br.node)
    if leaves:
        okk = True
        for _, v, _ in leaves:
            if not (isinstance(v, ast.Call) and norm(v.func) in ("BTSString.read", "cls.read")):
                okk = False
                continue
            a = call_args(v, rd.params)
            sz, dat = a.get(rd.params[0]), a.get(rd.params[1]) if len(rd.params) > 1 else None
            if not (sz is not None and norm(sz) == br.params[1] and isinstance(dat, ast.Call) and isinstance(dat.func, ast.Attribute) and dat.func.attr == "read"
                    and norm(dat.func.value) == br.params[0] and len(dat.args) == 1 and norm(dat.args[0]) == br.params[1]):
                okk = False
    if okk:
        rep.ok("str-call-sites", "BTSString.bread reads exactly `size` bytes and cuts them with read()")
    else:
        rep.fail("str-call-sites", mod, "BTSString.bread", br.node, "bread does not read exactly `size` bytes for read(size, ...)", construct="BTSString.bread")
    # bwrite writes exactly write(size, data)
    bw = prog.need_method(cls, "bwrite")
    wr = prog.need_method(cls, "write")
    okk = True
    nw = 0
    for pe in path_returns(bw.node):
        if pe.kind == "raise":
            continue
        ws = [x for e in pe.effects for x in ast.walk(e) if isinstance(x, ast.Call) and isinstance(x.func, ast.Attribute) and x.func.attr == "write"
              and norm(x.func.value) == bw.params[0]]
        if len(ws) != 1 or not ws[0].args:
            okk = False
            continue
        nw += 1
        a = ws[0].args[0]
        if not (isinstance(a, ast.Call) and norm(a.func) in ("BTSString.write", "cls.write")):
            okk = False
            continue
        ca = call_args(a, wr.params)
        if [norm(ca[p_]) if p_ in ca else None for p_ in wr.params[:2]] != bw.params[1:3]:
            okk = False
    if okk and nw:
        rep.ok("str-call-sites", "BTSString.bwrite writes exactly the bytes write(size, data) returns")
    else:
        rep.fail("str-call-sites", mod, "BTSString.bwrite", bw.node, "bwrite does not write exactly BTSString.write(size, data)", construct="BTSString.bwrite")
    # --- read side: struct.unpack(f"{size}s") + NUL cut
    f, res = nul_cut(prog)
    for ok, st, text in res:
        if ok:
            rep.ok("nul-cut", f"BTSString.read: {text}", nontrivial=True)
        else:
            rep.fail("nul-cut", mod, "BTSString.read", st, text)
    unp = [c for c in walk_no_nested(f.node) if isinstance(c, ast.Call) and norm(c.func) == "struct.unpack"]
    if unp and isinstance(unp[0].args[0], ast.JoinedStr) and norm(unp[0].args[0]).replace(" ", "") in ("f'{size}s'",):
        rep.ok("str-width-exact", "BTSString.read: struct.unpack(f'{size}s') demands exactly `size` input bytes")
    # --- call sites
    n_w = n_r = 0
    for m in prog.modules.values():
        if m.name == "tdfTypes":
            continue
        for fn in [x for c in m.classes.values() for x in c.all_funcs()] + list(m.functions.values()):
            for c in walk_no_nested(fn.node):
                if isinstance(c, ast.Call) and isinstance(c.func, ast.Attribute) and isinstance(c.func.value, ast.Name) and c.func.value.id == "BTSString" \
                        and c.func.attr in ("bwrite", "bread", "write", "read"):
                    r = prog.resolve(m, "BTSString")
                    if not (r and r[0] == "class" and r[1] is cls):
                        continue
                    wi = 1 if c.func.attr in ("bwrite", "bread") else 0
                    w = c.args[wi] if len(c.args) > wi else next((k.value for k in c.keywords if k.arg == "size"), None)
                    v = prog.const_int(m, w) if w is not None else None
                    if c.func.attr in ("bwrite", "write"):
                        n_w += 1
                    else:
                        n_r += 1
                    if v in WIDTHS:
                        rep.ok("str-call-sites", f"{m.name}.{fn.qualname}: BTSString.{c.func.attr} width {v}")
                    else:
                        rep.fail("str-call-sites", m.path.name, fn.qualname, c, f"string field width `{norm(w)}` is not one of the format's widths {WIDTHS}")
    # text written to a stream without going through BTSString (no width check, no terminator)
    from ..codecs import Codecs
    from ..layout import Raw, walk_terms
    cd = Codecs(prog)
    for u in cd.all_units():
        for t in walk_terms(u.wterms):
            if isinstance(t, Raw) and t.op == "write" and t.value is not None and any(isinstance(x, ast.Call) and isinstance(x.func, ast.Attribute) and x.func.attr == "encode" for x in ast.walk(t.value)):
                rep.fail("str-call-sites", u.writer.module.path.name, u.writer.qualname, t.stmt or t.node,
                         "a text field is encoded and written without BTSString.write: nothing refuses over-long text or guarantees the NUL terminator, so it can spill into the next field")
    # each record's string fields have the same widths, in the same order, on the write and on the read side (a label written into
    # a 256-byte field and read from its first 32 bytes comes back cut)
    from ..layout import Str
    text_attrs = set()
    for u in cd.all_units():
        # (an empty constant string written as filler is a pad, not a text field; so is a string read whose value is dropped)
        ws = [t for t in walk_terms(u.wterms) if isinstance(t, Str) and not (isinstance(t.value, ast.Constant) and t.value.value == "")]
        rs = [t for t in walk_terms(u.rterms) if isinstance(t, Str) and getattr(t, "used", True)]
        for t in ws:
            for x in ast.walk(t.value) if t.value is not None else []:
                if isinstance(x, ast.Attribute) and isinstance(x.value, ast.Name) and x.value.id == "self":
                    text_attrs.add(x.attr)
        wv = [prog.const_int(u.writer.module, t.width) for t in ws]
        rv = [prog.const_int(u.reader.module, t.width) for t in rs] if u.reader is not None else []
        if u.reader is None or not ws:
            continue
        if wv == rv:
            rep.ok("str-call-sites", f"{u.name}: string field widths {wv} on both sides")
        elif len(wv) == len(rv):
            k_ = next(i for i, (a, b) in enumerate(zip(wv, rv)) if a != b)
            rep.fail("str-call-sites", u.reader.module.path.name, u.reader.qualname, rs[k_].stmt or rs[k_].node,
                     f"string field {k_ + 1} of {u.name} is written {wv[k_]} bytes wide and read {rv[k_]} bytes wide: a valid text longer than the narrower width is not read back identically",
                     construct=f"{u.name} string field {k_ + 1} width {wv[k_]} vs {rv[k_]}")
    # a text on its way into a field is never cut: a slice of the caller's string stored into a text attribute / passed as one
    # silently truncates what the field would have refused
    for m in prog.modules.values():
        for fn in [x for c in m.classes.values() for x in c.all_funcs()] + list(m.functions.values()):
            for x in walk_no_nested(fn.node):
                cands = []
                if isinstance(x, ast.Call):
                    cands += [(k.arg, k.value) for k in x.keywords if k.arg in text_attrs]
                if isinstance(x, ast.Assign):
                    cands += [(t.attr, x.value) for t in x.targets if isinstance(t, ast.Attribute) and t.attr in text_attrs]
                for nm, v in cands:
                    if isinstance(v, ast.Subscript) and isinstance(v.slice, ast.Slice):
                        rep.fail("str-refuse-before-return", m.path.name, fn.qualname, x, f"`{nm}` receives the slice `{norm(v)}`: an over-long text is cut to fit instead of being refused with ValueError",
                                 construct=f"{fn.qualname} slices {nm}")
    rep.ok("str-refuse-before-return", f"no text attribute ({', '.join(sorted(text_attrs))}) is given a slice of a string")
    # every decoded string field has an encoder site (a refactoring may merge duplicate writers, never drop below the readers)
    rep.floor("str-call-sites/writers", n_w, max(n_r, 9))
    rep.floor("str-call-sites/readers", n_r, 9)
    rep.trusted += ["str.encode('windows-1252') in strict mode raises UnicodeEncodeError (a ValueError) for unencodable text",
                    "bytes concatenation / repetition semantics of CPython"]
    rep.not_decided += ["that cp1252 decode(encode(c)) is the identity for each encodable character", "text with an embedded NUL (excluded by the property)"]
