"""C20 separately created blocks share no state (DESIGN 3/C20)."""
from __future__ import annotations

import ast

from .. import facts
from ..codecs import Codecs
from ..index import is_self_attr, walk_no_nested
from ..layout import Construct, Ret, Install, walk_terms
from ..mutrules import enclosing_tests
from ..report import AnalysisError, head, norm

MUT_CALLS = ("list", "dict", "set", "bytearray", "np.array", "np.zeros", "np.empty", "np.ones", "numpy.array", "defaultdict", "OrderedDict", "deque", "collections.defaultdict")
MUT_METHODS = ("append", "extend", "insert", "remove", "pop", "clear", "update", "add", "setdefault", "sort", "reverse", "__setitem__")
EMBEDDED_EXAMPLE = '''
class K:
    def __init__(self, items=[]):
        self.items = items
'''


def is_mutable_display(node):
    if isinstance(node, (ast.List, ast.Dict, ast.Set, ast.ListComp, ast.DictComp, ast.SetComp)):
        return True
    if isinstance(node, ast.Call) and norm(node.func) in MUT_CALLS:
        return True
    return False


def default_kind(node):
    if isinstance(node, (ast.List, ast.ListComp)) or (isinstance(node, ast.Call) and norm(node.func) == "list"):
        return "list"
    if isinstance(node, (ast.Dict, ast.DictComp)) or (isinstance(node, ast.Call) and norm(node.func) == "dict"):
        return "dict"
    if isinstance(node, (ast.Set, ast.SetComp)) or (isinstance(node, ast.Call) and norm(node.func) == "set"):
        return "set"
    if isinstance(node, ast.Call) and norm(node.func).startswith(("np.", "numpy.")):
        return "np.ndarray"
    return "object"


def escapes(fn: ast.FunctionDef, param: str, dkind: str, sn="self"):
    """Statements through which the default object bound to `param` can become instance state or be returned - on path
    summaries: a store / append / return whose value is the parameter itself on a path whose conditions the default object can
    satisfy (a path taken only when isinstance(param, K) holds for a K the default is not, or only when param is None, is not
    one)."""
    from ..facts import path_returns, split_ifexp, type_facts
    out = []
    seen = set()

    def compatible(k):
        return (dkind in k) or k in ("object",) or (dkind == "list" and "list" in k.lower()) or (dkind == "np.ndarray" and "ndarray" in k)

    def feasible(guards):
        tf = type_facts(guards, param)
        for k, b in tf.items():
            if b and not compatible(k):
                return False
        for t, pol in guards:
            tt, pp = t, pol
            while isinstance(tt, ast.UnaryOp) and isinstance(tt.op, ast.Not):
                tt, pp = tt.operand, not pp
            if isinstance(tt, ast.Compare) and len(tt.ops) == 1 and isinstance(tt.left, ast.Name) and tt.left.id == param and norm(tt.comparators[0]) == "None":
                is_none = pp if isinstance(tt.ops[0], (ast.Is, ast.Eq)) else not pp
                if is_none:
                    return False
            # `if param:` / `if not param:` - an empty display is falsy
            if isinstance(tt, ast.Name) and tt.id == param and pp and dkind in ("list", "dict", "set"):
                return False
        return True

    def leaves(v):
        """[(conds, leaf)] where the object itself (not a copy) may flow"""
        res = []
        for conds, leaf in split_ifexp(v):
            if isinstance(leaf, ast.BoolOp) and isinstance(leaf.op, ast.Or) and isinstance(leaf.values[0], ast.Name) and leaf.values[0].id == param:
                if dkind not in ("list", "dict", "set"):  # an empty display is falsy: replaced by the alternative
                    res.append((conds, leaf.values[0]))
                continue
            res.append((conds, leaf))
        return res

    for pe in path_returns(fn):
        cands = []
        for e in pe.effects:
            if isinstance(e, ast.Assign) and any(_rooted_at(t, sn) for t in e.targets):
                cands.append((e.value, e))
            for x in ast.walk(e):
                if isinstance(x, ast.Call) and isinstance(x.func, ast.Attribute) and x.func.attr in ("append", "extend", "insert") and _rooted_at(x.func.value, sn):
                    for a in x.args:
                        cands.append((a, e))
        if pe.kind == "return" and pe.value is not None:
            cands.append((pe.value, pe.node))
        for v, node in cands:
            for conds, leaf in leaves(v):
                if isinstance(leaf, ast.Name) and leaf.id == param and feasible(pe.guards + conds):
                    k = (getattr(node, "lineno", 0), norm(node)[:80])
                    if k not in seen:
                        seen.add(k)
                        out.append(node)
    return out


def _none_test(test, aliases):
    return isinstance(test, ast.Compare) and isinstance(test.left, ast.Name) and test.left.id in aliases and norm(test.comparators[0]) == "None"


def _rooted_at(t, sn):
    while isinstance(t, (ast.Attribute, ast.Subscript)):
        t = t.value
    return isinstance(t, ast.Name) and t.id == sn


FRESH_CALLS = ("list", "dict", "set", "sorted", "tuple", "copy.copy", "copy.deepcopy", "np.array", "np.copy", "bytearray")


def default_mutated_in_place(fn: ast.FunctionDef, p: str):
    """Statements that mutate parameter `p` in place while it can still be the default object: a mutating method call, an item /
    slice store, `p += ..`.  The alias ends at a top-level rebinding of `p` to a fresh object (a display, a comprehension, list(p),
    p.copy(), [*p]); `p = [] if p is None else p` keeps it (the default is not None)."""
    out = []

    def fresh(v):
        if isinstance(v, (ast.List, ast.Dict, ast.Set, ast.ListComp, ast.DictComp, ast.SetComp, ast.Tuple)):
            return not any(isinstance(e, ast.Name) and e.id == p for e in getattr(v, "elts", []))
        if isinstance(v, ast.Call) and norm(v.func) in FRESH_CALLS:
            return True
        if isinstance(v, ast.Call) and isinstance(v.func, ast.Attribute) and v.func.attr in ("copy", "tolist") and isinstance(v.func.value, ast.Name) and v.func.value.id == p:
            return True
        if isinstance(v, ast.IfExp):
            return fresh(v.body) and fresh(v.orelse)
        if isinstance(v, ast.BoolOp):
            return all(fresh(x) for x in v.values)
        return not any(isinstance(x, ast.Name) and x.id == p for x in ast.walk(v))

    def may_be(v, names):
        """can the value of v be the very object one of `names` is bound to?"""
        if isinstance(v, ast.Name):
            return v.id in names
        if isinstance(v, ast.IfExp):
            return may_be(v.body, names) or may_be(v.orelse, names)
        if isinstance(v, ast.BoolOp):
            return any(may_be(x, names) for x in v.values)
        if isinstance(v, ast.NamedExpr):
            return may_be(v.value, names)
        return False

    aliases = {p}
    for st in fn.body:
        if isinstance(st, ast.Assign) and any(isinstance(t, ast.Name) and t.id == p for t in st.targets) and fresh(st.value):
            aliases.discard(p)
            if not aliases:
                break
            continue
        if isinstance(st, ast.Assign) and may_be(st.value, aliases):
            aliases |= {t.id for t in st.targets if isinstance(t, ast.Name)}
        for x in ast.walk(st):
            if isinstance(x, ast.Call) and isinstance(x.func, ast.Attribute) and x.func.attr in MUT_METHODS and isinstance(x.func.value, ast.Name) and x.func.value.id in aliases:
                out.append(x)
            elif isinstance(x, (ast.Assign, ast.AugAssign, ast.Delete)):
                for t in (x.targets if isinstance(x, (ast.Assign, ast.Delete)) else [x.target]):
                    if isinstance(t, ast.Subscript) and isinstance(t.value, ast.Name) and t.value.id in aliases:
                        out.append(x)
                    elif isinstance(x, ast.AugAssign) and isinstance(t, ast.Name) and t.id in aliases:
                        out.append(x)
    return out


def descriptor_state(prog, rep, rule="no-class-level-container"):
    """A data descriptor bound in a class body is ONE object for all instances of that class: a `__set__` that keeps the value on
    the descriptor (`self.x = value`) instead of on the instance gives every block the value assigned last."""
    n = 0
    for m in prog.modules.values():
        for c in m.classes.values():
            for name, v in c.assigns.items():
                if not (isinstance(v, ast.Call) and isinstance(v.func, ast.Name)):
                    continue
                k = prog.resolve_class(c.module, v.func.id)
                if k is None:
                    continue
                setter = k.get("__set__")
                if setter is None:
                    continue
                n += 1
                dsn = setter.params_all[0] if getattr(setter, "params_all", None) else (setter.node.args.args[0].arg if setter.node.args.args else "self")
                own = [x for x in walk_no_nested(setter.node) if isinstance(x, (ast.Assign, ast.AugAssign, ast.AnnAssign))
                       for t in (x.targets if isinstance(x, ast.Assign) else [x.target])
                       for y in ast.walk(t) if isinstance(y, ast.Attribute) and isinstance(y.value, ast.Name) and y.value.id == dsn and isinstance(y.ctx, ast.Store)]
                own += [x for x in walk_no_nested(setter.node) if isinstance(x, ast.Call) and isinstance(x.func, ast.Attribute) and x.func.attr in MUT_METHODS
                        and isinstance(x.func.value, ast.Attribute) and isinstance(x.func.value.value, ast.Name) and x.func.value.value.id == dsn]
                if own:
                    rep.fail(rule, m.path.name, f"{k.name}.__set__", own[0], f"`{norm(head(own[0]))[:60]}` keeps the value on the descriptor itself; `{c.name}.{name} = {norm(v)}` is one object for every {c.name}: "
                             f"assigning `{name}` on one block changes what every other block reads", construct=f"class {c.name}: {name} = {norm(v)} (descriptor keeps state)")
                else:
                    rep.ok(rule, f"{c.name}.{name}: descriptor {k.name} keeps nothing on itself")
    return n


def adders_leave_items(prog, rep, rule="fresh-containers"):
    """An item handed to a block stays the caller's object - another block (the one it was decoded with) may hold it too.  A method
    that takes an item and appends it to one of its lists must not write into the item (attribute store, in-place array store,
    mutating call on one of its attributes): that changes the other block without anyone touching it."""
    n = 0
    for m in prog.modules.values():
        for c in m.classes.values():
            for f in c.all_funcs():
                sn = f.self_name or "self"
                appended = set()
                for x in walk_no_nested(f.node):
                    if isinstance(x, ast.Call) and isinstance(x.func, ast.Attribute) and x.func.attr in ("append", "insert") and is_self_attr(x.func.value, self_name=sn) and x.args \
                            and isinstance(x.args[-1], ast.Name) and x.args[-1].id in f.params:
                        appended.add(x.args[-1].id)
                for p in sorted(appended):
                    n += 1
                    bad = None
                    for x in walk_no_nested(f.node):
                        tg = x.targets if isinstance(x, (ast.Assign, ast.Delete)) else [x.target] if isinstance(x, (ast.AugAssign, ast.AnnAssign)) else []
                        for t in tg:
                            b = t
                            while isinstance(b, (ast.Subscript, ast.Attribute)):
                                b = b.value
                            if isinstance(t, (ast.Subscript, ast.Attribute)) and isinstance(b, ast.Name) and b.id == p:
                                bad = x
                        if isinstance(x, ast.Call) and isinstance(x.func, ast.Attribute) and x.func.attr in set(MUT_METHODS) | {"fill", "resize", "put", "itemset"}:
                            b = x.func.value
                            depth = 0
                            while isinstance(b, (ast.Subscript, ast.Attribute)):
                                b = b.value
                                depth += 1
                            if depth and isinstance(b, ast.Name) and b.id == p:
                                bad = x
                    if bad is not None:
                        rep.fail(rule, m.path.name, f"{c.name}.{f.name}", bad, f"`{norm(head(bad))[:70]}` writes into the item `{p}` that is being inserted: the item is the caller's object and may belong to another block "
                                 "(the one it was decoded with), which changes although nobody touched it", construct=f"{c.name}.{f.name} writes into its item {p}")
                    else:
                        rep.ok(rule, f"{c.name}.{f.name}: the inserted item `{p}` is stored, never written into")
    rep.floor(rule + "/adders", n, 5)


def self_check():
    tree = ast.parse(EMBEDDED_EXAMPLE)
    fn = tree.body[0].body[0]
    assert escapes(fn, "items", "list"), "embedded shared-default example no longer matches"


def run(prog, rep):
    self_check()
    rep.explanation = (
        "escape analysis of mutable parameter defaults (def-use with one level of aliasing; a store under an isinstance test "
        "that the default's kind cannot satisfy is not an escape), class-level mutable objects mutated through self, "
        "container attributes initialised from fresh displays or caller arguments, no module-level state mutated in "
        "functions, decoders return freshly constructed instances with fresh containers."
    )
    n_ctor = 0
    for m in prog.modules.values():
        for c in m.classes.values():
            for f in c.all_funcs():
                sn = f.self_name or "self"
                dflt = f.defaults()
                if f.name == "__init__":
                    n_ctor += 1
                for p, d in dflt.items():
                    if not is_mutable_display(d):
                        continue
                    esc = escapes(f.node, p, default_kind(d), sn)
                    inplace = default_mutated_in_place(f.node, p)
                    if inplace and not esc:
                        rep.fail("no-shared-default", m.path.name, f"{c.name}.{f.name}", inplace[0],
                                 f"`{norm(head(inplace[0]))[:60]}` changes the mutable default `{p}={norm(d)}` in place (one object shared by all calls): what one block's call leaves in it is used by the next call on any other block",
                                 construct=f"def {f.name}(..., {p}={norm(d)}) mutated :: {norm(head(inplace[0]))[:50]}")
                        continue
                    if esc:
                        rep.fail("no-shared-default", m.path.name, f"{c.name}.{f.name}", esc[0],
                                 f"the mutable default `{p}={norm(d)}` (one object shared by all calls) becomes instance state here: blocks created without `{p}` share it",
                                 construct=f"def {f.name}(..., {p}={norm(d)}) :: {norm(head(esc[0]))}")
                    else:
                        rep.ok("no-shared-default", f"{m.name}.{c.name}.{f.name}: default `{p}={norm(d)}` is only read/copied", nontrivial=True)
            # class-level containers
            if prog.is_enum(c):
                continue
            for name, v in c.assigns.items():
                if is_mutable_display(v):
                    mutated = None
                    for f in c.all_funcs():
                        sn = f.self_name or "self"
                        for x in walk_no_nested(f.node):
                            if isinstance(x, ast.Call) and isinstance(x.func, ast.Attribute) and x.func.attr in MUT_METHODS and (is_self_attr(x.func.value, name, sn) or norm(x.func.value) == f"{c.name}.{name}" or norm(x.func.value) == f"cls.{name}"):
                                mutated = x
                            if isinstance(x, (ast.Assign, ast.AugAssign, ast.Delete)):
                                for t in (x.targets if isinstance(x, (ast.Assign, ast.Delete)) else [x.target]):
                                    if isinstance(t, ast.Subscript) and (is_self_attr(t.value, name, sn) or norm(t.value) in (f"{c.name}.{name}", f"cls.{name}")):
                                        mutated = x
                    summ = facts.init_summary(prog, c)
                    shadowed = name in summ.attrs
                    if mutated is not None and not shadowed:
                        rep.fail("no-class-level-container", m.path.name, c.name, mutated, f"class-level `{name} = {norm(v)}` is mutated through instances: all instances share it",
                                 construct=f"class {c.name}: {name} = {norm(v)}")
                    elif mutated is not None:
                        rep.ok("no-class-level-container", f"{c.name}.{name}: class-level display shadowed by an instance attribute in __init__")
    rep.floor("constructors", n_ctor, 20)
    rep.attempt(descriptor_state, prog, rep)
    rep.attempt(adders_leave_items, prog, rep)
    # fresh containers: every attribute mutated by methods is initialised from a fresh display or a caller argument
    n_cont = 0
    for m in prog.modules.values():
        for c in m.classes.values():
            summ = facts.init_summary(prog, c)
            if c.get("__init__") is None:
                continue
            mutated = set()
            for f in c.all_funcs():
                sn = f.self_name or "self"
                for x in walk_no_nested(f.node):
                    if isinstance(x, ast.Call) and isinstance(x.func, ast.Attribute) and x.func.attr in MUT_METHODS and is_self_attr(x.func.value, self_name=sn):
                        mutated.add(x.func.value.attr)
                    if isinstance(x, ast.Delete):
                        for t in x.targets:
                            if isinstance(t, ast.Subscript) and is_self_attr(t.value, self_name=sn):
                                mutated.add(t.value.attr)
            for a in sorted(mutated):
                v = summ.attrs.get(a)
                n_cont += 1
                if v is None:
                    ca = prog.class_attr(c, a)
                    if ca is not None and is_mutable_display(ca[1]):
                        continue  # reported above
                    stores = [x for f in c.all_funcs() for x in walk_no_nested(f.node) if isinstance(x, ast.Assign)
                              and any(is_self_attr(t, a, f.self_name or "self") for t in x.targets)]
                    if stores and all(is_mutable_display(x.value) for x in stores):
                        rep.ok("fresh-containers", f"{c.name}.{a} is (re)built from a fresh display in {len(stores)} method(s)")
                        continue
                    rep.fail("fresh-containers", m.path.name, c.name, c.get("__init__").node, f"container attribute `{a}` is mutated by methods but never initialised per instance in __init__",
                             construct=f"{c.name}.__init__ :: {a}")
                    continue
                fresh = isinstance(v, (ast.List, ast.Dict, ast.Set)) or (isinstance(v, ast.Call) and norm(v.func) in MUT_CALLS) \
                    or (isinstance(v, ast.BoolOp) and any(isinstance(x, (ast.List, ast.Dict)) for x in v.values))
                from_param = isinstance(v, ast.Name) and v.id in summ.params
                if fresh:
                    rep.ok("fresh-containers", f"{c.name}.{a} = {norm(v)} (fresh per instance)")
                elif from_param:
                    d = summ.defaults.get(v.id)
                    if d is not None and is_mutable_display(d):
                        pass  # reported by no-shared-default
                    else:
                        rep.ok("fresh-containers", f"{c.name}.{a} comes from the caller's argument `{v.id}`")
                else:
                    rep.ok("fresh-containers", f"{c.name}.{a} = {norm(v)[:60]}")
    rep.floor("fresh-containers", n_cont, 8)
    # a container the class itself mutates (add/remove methods) must be the instance's own object, not the caller's
    for m in prog.modules.values():
        for c in m.classes.values():
            mutated = set()
            for f in c.all_funcs():
                sn = f.self_name or "self"
                for x in walk_no_nested(f.node):
                    if isinstance(x, ast.Call) and isinstance(x.func, ast.Attribute) and x.func.attr in ("append", "extend", "insert", "remove", "pop", "clear") and is_self_attr(x.func.value, self_name=sn):
                        mutated.add(x.func.value.attr)
                    if isinstance(x, ast.Delete):
                        for t in x.targets:
                            if isinstance(t, ast.Subscript) and is_self_attr(t.value, self_name=sn):
                                mutated.add(t.value.attr)
            for f in c.all_funcs():
                sn = f.self_name or "self"
                params = set(f.params)
                for x in walk_no_nested(f.node):
                    if isinstance(x, (ast.Assign, ast.AnnAssign)) and x.value is not None:
                        tg = x.targets if isinstance(x, ast.Assign) else [x.target]
                        for t in tg:
                            if is_self_attr(t, self_name=sn) and t.attr in mutated:
                                v = x.value
                                cands = [v] + (list(v.values) if isinstance(v, ast.BoolOp) else []) + ([v.body, v.orelse] if isinstance(v, ast.IfExp) else [])
                                if any(isinstance(k, ast.Name) and k.id in params for k in cands):
                                    rep.fail("fresh-containers", m.path.name, f"{c.name}.{f.name}", x, f"`self.{t.attr}`, which the class's own add/remove methods mutate, is bound to the caller's object `{norm(v)}` without a copy: two blocks given the same list change together")
    tdf = prog.cls("Tdf", "basictdf")
    if tdf is not None:
        for name in ("get_block", "__getitem__", "blocks"):
            for f in tdf.methods.get(name, []):
                sn = f.self_name or "self"
                for x in walk_no_nested(f.node):
                    if isinstance(x, (ast.Assign, ast.AugAssign)):
                        for t in (x.targets if isinstance(x, ast.Assign) else [x.target]):
                            base = t
                            while isinstance(base, (ast.Attribute, ast.Subscript)):
                                base = base.value
                            if isinstance(base, ast.Name) and base.id == sn:
                                rep.fail("decoder-fresh", m.path.name if False else "basictdf.py", f"Tdf.{name}", x, "a decoded block is remembered on the file handle: reading the same block twice returns one shared object")
                    if isinstance(x, ast.Call) and isinstance(x.func, ast.Attribute) and x.func.attr in ("setdefault", "get") and is_self_attr(x.func.value, self_name=sn) and x.func.value.attr not in ("entries",):
                        rep.fail("decoder-fresh", "basictdf.py", f"Tdf.{name}", x, "decoded blocks are looked up in a memo kept on the file handle")
    # module state
    n_mod = 0
    for m in prog.modules.values():
        n_mod += 1
        bad = None
        for f in list(m.functions.values()) + [x for c in m.classes.values() for x in c.all_funcs()]:
            for x in walk_no_nested(f.node):
                if isinstance(x, ast.Global):
                    bad = (f, x, f"`global {', '.join(x.names)}`")
                if isinstance(x, ast.Call) and isinstance(x.func, ast.Attribute) and x.func.attr in MUT_METHODS and isinstance(x.func.value, ast.Name) \
                        and x.func.value.id in m.assigns and is_mutable_display(m.assigns[x.func.value.id]):
                    locs = {t.id for s in walk_no_nested(f.node) if isinstance(s, ast.Assign) for t in s.targets if isinstance(t, ast.Name)}
                    if x.func.value.id not in locs and x.func.value.id not in [a.arg for a in f.node.args.args]:
                        bad = (f, x, f"module-level `{x.func.value.id}` is mutated")
                if isinstance(x, ast.Assign):
                    for t in x.targets:
                        if isinstance(t, ast.Subscript) and isinstance(t.value, ast.Name) and t.value.id in m.assigns and is_mutable_display(m.assigns[t.value.id]):
                            locs = {tt.id for s in walk_no_nested(f.node) if isinstance(s, ast.Assign) for tt in s.targets if isinstance(tt, ast.Name)}
                            if t.value.id not in locs:
                                bad = (f, x, f"module-level `{t.value.id}` is written")
        # a module-level mutable object installed as instance state (`self.x = _SHARED`), and state stored on a CLASS from inside a
        # function (`Data3D.links = ..`, `cls.cache = ..`): one object / one slot for every instance of the process
        if not bad:
            for f in list(m.functions.values()) + [x for c in m.classes.values() for x in c.all_funcs()]:
                locs = {t.id for s_ in ast.walk(f.node) for t in ast.walk(s_) if isinstance(t, ast.Name) and isinstance(t.ctx, ast.Store)} | {a.arg for a in f.node.args.args + f.node.args.kwonlyargs}
                for x in walk_no_nested(f.node):
                    if isinstance(x, (ast.Assign, ast.AnnAssign, ast.AugAssign)) and getattr(x, "value", None) is not None:
                        for t in (x.targets if isinstance(x, ast.Assign) else [x.target]):
                            if isinstance(t, ast.Attribute) and isinstance(t.value, ast.Name):
                                vals = [x.value] + (list(x.value.values) if isinstance(x.value, ast.BoolOp) else []) + ([x.value.body, x.value.orelse] if isinstance(x.value, ast.IfExp) else [])
                                for v_ in vals:
                                    if isinstance(v_, ast.Name) and v_.id not in locs and v_.id in m.assigns and is_mutable_display(m.assigns[v_.id]) and t.value.id not in m.assigns:
                                        bad = (f, x, f"`{norm(head(x))}` makes the module-level object `{v_.id}` (= {norm(m.assigns[v_.id])}) part of an instance")
                                base_cls = prog.resolve_class(m, t.value.id) if t.value.id not in locs else None
                                is_clsparam = t.value.id == "cls" and any(norm(d) == "classmethod" for d in f.node.decorator_list)
                                if (base_cls is not None and not prog.is_enum(base_cls)) or is_clsparam:
                                    bad = (f, x, f"`{norm(head(x))[:70]}` stores on the class `{t.value.id}`, not on an instance")
        # (a) a class whose instances live at module level (the codec singletons i32, f32, SegmentData ..) keeps no state across calls:
        #     a buffer stored on such an instance and handed out is one buffer for every block decoded through it
        # (b) a method does not store state on an object it was GIVEN (an item added to a block is shared by every block holding it)
        #     nor edits the private container of another instance
        if not bad:
            singleton_classes = {v_.func.id for v_ in m.assigns.values() if isinstance(v_, ast.Call) and isinstance(v_.func, ast.Name) and v_.func.id in m.classes}
            singleton_classes |= {c2.name for m2 in prog.modules.values() for v_ in m2.assigns.values() if isinstance(v_, ast.Call) and isinstance(v_.func, ast.Name)
                                  for c2 in [prog.resolve_class(m2, v_.func.id)] if c2 is not None and c2.module is m}
            for c in m.classes.values():
                for f in c.all_funcs():
                    sn = f.self_name or "self"
                    params = {a.arg for a in f.node.args.args + f.node.args.kwonlyargs} - {sn, "cls"}
                    rebound = {t.id for s_ in walk_no_nested(f.node) for t in ast.walk(s_) if isinstance(t, ast.Name) and isinstance(t.ctx, ast.Store)}
                    # items reached by walking an argument or one of the block's own item lists are objects the caller handed in
                    # (now or earlier): other blocks may hold the very same objects
                    is_block = any(k.name == "Block" for k in prog.mro(c)[1:])
                    walked = {}
                    if is_block and f.kind in ("method", "setter") and f.name not in ("__eq__",):
                        for lp in [y for y in walk_no_nested(f.node) if isinstance(y, (ast.For, ast.comprehension))]:
                            src = lp.iter
                            roots = [y for y in ast.walk(src) if (isinstance(y, ast.Name) and y.id in params and y.id not in rebound)
                                     or (isinstance(y, ast.Attribute) and isinstance(y.value, ast.Name) and y.value.id == sn)]
                            if roots and not any(isinstance(y, ast.Call) and norm(y.func) not in ("zip", "enumerate", "reversed", "list", "tuple", "iter", "sorted") for y in ast.walk(src)):
                                for y in ast.walk(lp.target):
                                    if isinstance(y, ast.Name):
                                        walked[y.id] = norm(src)
                    for x in walk_no_nested(f.node):
                        tgs = x.targets if isinstance(x, ast.Assign) else [x.target] if isinstance(x, (ast.AugAssign, ast.AnnAssign)) and getattr(x, "value", None) is not None else []
                        for t in tgs:
                            if isinstance(t, ast.Attribute) and isinstance(t.value, ast.Name) and t.value.id in walked:
                                bad = (f, x, f"`{norm(head(x))[:60]}` stores state on `{t.value.id}`, an item reached by walking `{walked[t.value.id]}` (items are the caller's objects and can be held by several blocks: "
                                       "what this block writes on one, the others contain and encode);")
                        for t in tgs:
                            if isinstance(t, ast.Attribute) and isinstance(t.value, ast.Name):
                                if c.name in singleton_classes and t.value.id == sn and f.name != "__init__":
                                    bad = (f, x, f"`{norm(head(x))[:60]}` keeps state on an instance of {c.name}, whose instances are module-level objects used by every block;")
                                if t.value.id in params and t.value.id not in rebound and f.kind in ("method", "setter") and f.name not in ("__eq__", "__init__"):
                                    bad = (f, x, f"`{norm(head(x))[:60]}` stores state on the object passed as `{t.value.id}` (an item can be held by several blocks: what one block writes on it, the others read);")
                        if isinstance(x, ast.Call) and isinstance(x.func, ast.Attribute) and x.func.attr in MUT_METHODS and isinstance(x.func.value, ast.Name) \
                                and x.func.value.id in params and x.func.value.id not in rebound and f.kind in ("method", "setter", "static", "classmethod", "function"):
                            bad = (f, x, f"`{norm(x)[:60]}` changes the container passed as `{x.func.value.id}` (the caller's object: a second block filled from the same list finds it consumed);")
                        if isinstance(x, ast.Call) and isinstance(x.func, ast.Attribute) and x.func.attr in MUT_METHODS and isinstance(x.func.value, ast.Attribute) \
                                and x.func.value.attr.startswith("_") and isinstance(x.func.value.value, ast.Name) and x.func.value.value.id not in (sn, "cls") \
                                and f.kind in ("method", "setter") and x.func.value.value.id not in m.assigns:
                            root = x.func.value.value.id
                            local_new = any(isinstance(s_, ast.Assign) and any(isinstance(t, ast.Name) and t.id == root for t in s_.targets) and isinstance(s_.value, ast.Call)
                                            and isinstance(s_.value.func, ast.Name) and prog.resolve_class(m, s_.value.func.id) is not None for s_ in walk_no_nested(f.node))
                            if not local_new:
                                bad = (f, x, f"`{norm(x)[:60]}` edits the private container of another object (`{root}`) from a method of {c.name};")
        # module-level stateful objects (iterators, counters, generators, deques): consuming one inside a function is shared state
        stateful = {}
        for name_, v_ in m.assigns.items():
            if isinstance(v_, ast.GeneratorExp) or (isinstance(v_, ast.Call) and norm(v_.func) in (
                    "itertools.count", "count", "itertools.cycle", "cycle", "iter", "itertools.chain", "collections.deque", "deque", "collections.Counter", "Counter",
                    "collections.defaultdict", "defaultdict", "collections.OrderedDict", "OrderedDict", "bytearray", "io.BytesIO", "BytesIO", "random.Random")):
                stateful[name_] = v_
        if stateful and not bad:
            for f in list(m.functions.values()) + [x for c in m.classes.values() for x in c.all_funcs()]:
                locs = {t.id for s_ in ast.walk(f.node) for t in ast.walk(s_) if isinstance(t, ast.Name) and isinstance(t.ctx, ast.Store)} | {a.arg for a in f.node.args.args}
                for x in ast.walk(f.node):
                    if isinstance(x, ast.Name) and isinstance(x.ctx, ast.Load) and x.id in stateful and x.id not in locs:
                        bad = (f, x, f"module-level stateful object `{x.id}` (= {norm(stateful[x.id])[:40]}) is consumed")
        if bad:
            f, x, why = bad
            rep.fail("no-module-state", m.path.name, f.qualname, x, f"{why} inside a function: state shared by every block")
        else:
            rep.ok("no-module-state", f"{m.name}: no module-level object is mutated inside a function")
    rep.floor("no-module-state", n_mod, 13)
    # decoders
    cd = Codecs(prog)
    cd.flag_errors(rep)
    n_dec = 0
    for u in cd.units.values():
        n_dec += 1
        cons = [t for t in walk_terms(u.rterms) if isinstance(t, Construct)]
        rets = [t for t in walk_terms(u.rterms) if isinstance(t, Ret)]
        mod, fq = u.reader.module.path.name, u.reader.qualname
        phs = {c.ph for c in cons}
        if rets and all(r.value is not None and norm(r.value) in phs for r in rets):
            rep.ok("decoder-fresh", f"{fq} returns an instance constructed in that call", nontrivial=True)
        else:
            rep.fail("decoder-fresh", mod, fq, rets[0].node if rets else u.reader.node, "the decoder does not return an instance it constructed in this call (cached / shared object?)")
        for t in walk_terms(u.rterms):
            if isinstance(t, Install):
                v = t.value
                if isinstance(v, ast.Name) and (v.id.startswith("_R") or v.id in [c.name for c in []]):
                    rep.ok("decoder-fresh", f"{fq}: {t.var}.{t.attr} receives a container built in this call")
                elif isinstance(v, (ast.Name, ast.Attribute)) and not norm(v).startswith("_R"):
                    r = prog.resolve(u.reader.module, norm(v).split(".")[0])
                    if r is not None and r[0] in ("value", "class"):
                        rep.fail("decoder-fresh", mod, fq, t.node, f"decoded object receives module/class-level object `{norm(v)}`")
    rep.floor("decoder-fresh", n_dec, 20)
    rep.not_decided += ["sharing the caller creates on purpose (one list passed to two blocks)"]
