"""C03 structural soundness after any history: per-operation preservation conditions (DESIGN 3/C03)."""
from ..container import Container
from .. import mutrules as M


def run(prog, rep):
    ct = Container(prog)
    rep.explanation = (
        "inductive-step clauses decided per mutator on its CFG: slot-balance (every normal path appends as many table "
        "slots as it removes), header-frame (every absolute seek is a table slot HDR+ENT*i or an entry's data range; "
        "header fields stored only in __enter__), geometry-constants (HDR and ENT are recomputed from the layout terms "
        "of Tdf.new / TdfEntry._write and every slot expression must divide by them), unused-size-zero, "
        "offset-provenance (reaching-definition classification of the free-slot offset w.r.t. the shift loop)."
    )
    rep.extra["geometry"] = {"header_bytes": ct.HDR, "entry_bytes": ct.ENT, "slots_written_by_new": ct.NSLOTS}
    rep.attempt(lambda: M.slot_balance(ct, rep))
    rep.attempt(lambda: M.header_frame(ct, rep))
    rep.attempt(lambda: M.geometry_constants(ct, rep))
    rep.attempt(lambda: M.unused_size_zero(ct, rep))
    rep.attempt(lambda: M.offset_provenance(ct, rep))
    rep.attempt(lambda: M.repoint_later(ct, rep))
    # every live range stays inside the file only if a removal moves the WHOLE tail up and cuts exactly what is left over
    rep.attempt(lambda: M.tail_move(ct, rep))
    # the offsets computed above describe the FILE only if every table change is also written to its slot
    rep.attempt(lambda: M.dirty_entry(ct, rep, rule="table-pairing"))
    rep.attempt(lambda: M.slot_position(ct, rep, rule="table-pairing/slot"))
    # entry.size / the end-of-data offsets are taken from nBytes: they describe the bytes only if nBytes == bytes written
    from ..codecs import Codecs
    from .c02 import size_identity
    cd = Codecs(prog)
    cd.flag_errors(rep)
    rep.attempt(size_identity, prog, cd, rep, with_consumed=False)
    # .. which identifies len(map) with len(items): true only while the two lists are mutated pairwise on every path
    from .c01 import equivalence_discharge
    equivalence_discharge(prog, cd, rep)
    # .. and relies on the field primitives: bwrite / bpad emit exactly itemsize x n bytes also into an in-memory buffer (a pad that
    # only seeks adds nothing at the end of a buffer), and a string read back from a table entry can be written again (the same codec)
    from .. import primitives as PR
    rep.attempt(PR.tdftype_primitives, prog, rep)
    rep.attempt(PR.string_codec, prog, rep)
    # add_block places the block at the offset of the slot it takes over (the end of the data) and re-points the later slots
    rep.attempt(ct.check_c02, rep)
    rep.attempt(lambda: M.parse_on_enter(ct, rep))
    # nothing outside the three mutators touches the file: an __exit__ that 'tidies' the file size cuts a file whose table is empty to nothing
    rep.attempt(M.session_boundary, prog, rep)
    rep.attempt(lambda: M.flush_on_exit(ct, rep))
    # every table entry is exactly ENT bytes only if the comment field is exactly 256 bytes
    from .c13 import string_write_rules
    rep.attempt(string_write_rules, prog, rep)
    # a refused add/remove inside a history must leave table and file as they were (C07's path rule for the two primitives)
    from ..codecs import Codecs as _Codecs
    from .c07 import path_rules
    rep.attempt(path_rules, ct, _Codecs(prog), rep, names=("add_block", "remove_block"), include_setters=False, prefix="refusal-leaves-table/")
    rep.not_decided += ["the global non-overlap invariant over concrete histories and sizes",
                        "foreign files that are already inconsistent"]
    rep.trusted += ["file objects: seek/write/truncate semantics of CPython binary files"]
