"""C06 bytes follow the fixed TDF layout: rule layout-conformance against the independent reference table."""
from __future__ import annotations

import ast

from ..codecs import Codecs
from ..index import walk_no_nested
from ..reference_layout import HEADER, HEADER_CONSTANTS, UNITS
from ..refmatch import RefMatcher
from ..report import AnalysisError, head, norm
from ..unify import normalise
from ..layout import Field, walk_terms


def endianness(prog, rep, rule="explicit-little-endian"):
    n = 0
    for cid, dt in prog.all_codecs().items():
        n += 1
        subs = [dt] if dt.kind != "V" else [d for _, d in dt.fields]
        bad = [d for d in subs if not (d.little and d.explicit_order)]
        modname, name = cid.split(".")
        m = prog.modules[modname]
        if bad:
            rep.fail(rule, m.path.name, name, m.assigns[name], f"dtype `{dt.text}` is not explicitly little-endian", construct=f"{name} = TdfType({dt.text})")
        else:
            rep.ok(rule, f"{cid}: {dt.text} little-endian")
    # raw dtype strings used for buffers in codec methods ("<f4" in EMGTrack._build, Event)
    for m in prog.modules.values():
        for node in ast.walk(m.tree):
            if isinstance(node, ast.keyword) and node.arg == "dtype" and isinstance(node.value, ast.Constant) and isinstance(node.value.value, str):
                s = node.value.value
                if s and s[-1].isdigit() and s[-1] != "1" and any(ch in s for ch in "iuf"):
                    n += 1
                    if "<" in s:
                        rep.ok(rule, f"{m.name}: buffer dtype {s!r} little-endian")
                    elif ">" in s:
                        rep.fail(rule, m.path.name, "<module>", node.value, f"buffer dtype {s!r} is big-endian", construct=f"dtype={s!r}")
    # struct formats of BTSDate
    dt = prog.need_cls("BTSDate", "tdfTypes")
    for f in dt.all_funcs():
        for c in walk_no_nested(f.node):
            if isinstance(c, ast.Call) and norm(c.func) in ("struct.pack", "struct.unpack") and c.args and isinstance(c.args[0], ast.Constant):
                n += 1
                if c.args[0].value == "<i":
                    rep.ok(rule, f"BTSDate.{f.name}: struct format '<i'")
                else:
                    rep.fail(rule, "tdfTypes.py", f"BTSDate.{f.name}", c, f"date struct format {c.args[0].value!r} is not '<i' (little-endian signed 32-bit)")
    rep.floor(rule, n, 22)


def conformance(prog, cd, rep, rule="layout-conformance"):
    n_units = 0
    total = 0
    for name, ref in list(UNITS.items()) + [("TdfHeader", HEADER)]:
        u = cd.header if name == "TdfHeader" else cd.units.get(name)
        if u is None:
            raise AnalysisError(f"anchor vanished: codec unit {name} of the reference layout is not in the package")
        n_units += 1
        for side, f, terms in (("w", u.writer, u.wterms), ("r", u.reader, u.rterms)):
            mod, fq = f.module.path.name, f.qualname

            def emit(ok, node, text, side=side, mod=mod, fq=fq, name=name):
                inst = f"{name}/{'writer' if side == 'w' else 'reader'}: {text}"
                if ok:
                    rep.ok(rule, inst, nontrivial=True)
                else:
                    rep.fail(rule, mod, fq, node if node is not None else f.node, f"[{'writer' if side == 'w' else 'reader'}] {text}")

            m = RefMatcher(cd, u, side, emit)
            m.match(ref, normalise(terms, side))
            total += m.nmatched
            if side == "r":
                for refname, attr in m.reader_swapped():
                    rep.fail(rule, mod, fq, f.node, f"[reader] the field the layout calls `{refname}` is decoded into attribute `{attr}`, which is the name of another field of this record (fields exchanged)",
                             construct=f"{fq} :: {refname} -> {attr}")
            if side == "w":
                for refname, attr, t in m.swapped():
                    rep.fail(rule, mod, fq, t.stmt or t.node, f"[writer] the field the layout calls `{refname}` carries attribute `{attr}`, which is the name of another field of this record (fields exchanged on both sides?)")
    rep.floor(rule + "/units", n_units, 22)
    rep.floor(rule + "/positions", total, 250)
    # header constants
    hu = cd.header
    vals = [t for t in walk_terms(hu.wterms) if isinstance(t, Field) and t.role == "data"]
    flds = [r for r in HEADER if r[0] == "f"]
    for r, t in zip(flds, vals):
        want = HEADER_CONSTANTS.get(r[1])
        got = prog.const_int(hu.writer.module, t.value)
        if want is None:
            continue
        if got == want:
            rep.ok(rule, f"Tdf.new writes {r[1]} = {want}")
        else:
            rep.fail(rule, "basictdf.py", "Tdf.new", t.stmt or t.node, f"a new file is created with {r[1]} = {got}; the format fixes {want}")
    # signature literal
    tdf = prog.need_cls("Tdf", "basictdf")
    sig = tdf.assigns.get("SIGNATURE")
    ref_sig = bytes([0x82, 0x4B, 0x60, 0x41, 0xD3, 0x11, 0x84, 0xCA, 0x60, 0x00, 0xB6, 0xAC, 0x16, 0x68, 0x0C, 0x08])
    if isinstance(sig, ast.Constant) and sig.value == ref_sig:
        rep.ok(rule, "Tdf.SIGNATURE equals the 16 reference bytes")
    else:
        rep.fail(rule, "basictdf.py", "Tdf", sig if sig is not None else tdf.node, "Tdf.SIGNATURE differs from the TDF signature bytes", construct="Tdf.SIGNATURE")


def run(prog, rep):
    cd = Codecs(prog)
    cd.flag_errors(rep)
    rep.explanation = (
        "layout-conformance: the layout term of every writer and of every reader (22 records incl. file header and table "
        "entry) is matched position by position against an independent reference table of the TDF layout (kind, width, "
        "shape, count linkage, reserved bytes, stored bias, format alternatives, grid/cell order), so a change made "
        "consistently on both the read and the write side is still reported; explicit-little-endian: every dtype literal "
        "and struct format carries '<'."
    )
    rep.attempt(endianness, prog, rep)
    rep.attempt(conformance, prog, cd, rep)
    from .. import primitives as PR
    rep.attempt(PR.tdftype_primitives, prog, rep)
    rep.attempt(PR.string_codec, prog, rep)
    rep.attempt(PR.date_codec, prog, rep)
    from ..codecs import no_stale_derived_state
    from .c01 import equivalence_discharge
    rep.attempt(no_stale_derived_state, prog, cd, rep)
    equivalence_discharge(prog, cd, rep, extra=("explicit-channel-honoured",))
    # comments / labels reach the file unaltered only if the string writer refuses what does not fit instead of cutting it
    from .c13 import string_write_rules
    rep.attempt(string_write_rules, prog, rep)
    rep.trusted += ["the reference table /verif/sa/reference_layout.py (validated against the BTS capture by the thorough tier's struct parser)"]
    rep.not_decided += ["golden digests of the decoded capture (an execution)", "value conventions BTS software expects beyond layout"]
    for a in cd.assumptions:
        rep.assume(a)


def thorough(prog, rep):
    from ..oracle_parse import sanity

    sanity(rep)
