"""C06 bytes follow the fixed TDF layout: rule layout-conformance against the independent reference table."""
from __future__ import annotations

import ast

from ..codecs import Codecs
from ..index import walk_no_nested
from ..reference_layout import HEADER, HEADER_CONSTANTS, UNITS
from ..refmatch import RefMatcher
from ..report import AnalysisError, head, norm
from ..unify import normalise
from ..layout import Field, walk_terms


def endianness(prog, rep, rule="explicit-little-endian"):
    n = 0
    for cid, dt in prog.all_codecs().items():
        n += 1
        subs = [dt] if dt.kind != "V" else [d for _, d in dt.fields]
        bad = [d for d in subs if not (d.little and d.explicit_order)]
        modname, name = cid.split(".")
        m = prog.modules[modname]
        if bad:
            rep.fail(rule, m.path.name, name, m.assigns[name], f"dtype `{dt.text}` is not explicitly little-endian", construct=f"{name} = TdfType({dt.text})")
        else:
            rep.ok(rule, f"{cid}: {dt.text} little-endian")
    # raw dtype strings used for buffers in codec methods ("<f4" in EMGTrack._build, Event)
    for m in prog.modules.values():
        for node in ast.walk(m.tree):
            if isinstance(node, ast.keyword) and node.arg == "dtype" and isinstance(node.value, ast.Constant) and isinstance(node.value.value, str):
                s = node.value.value
                if s and s[-1].isdigit() and s[-1] != "1" and any(ch in s for ch in "iuf"):
                    n += 1
                    if "<" in s:
                        rep.ok(rule, f"{m.name}: buffer dtype {s!r} little-endian")
                    elif ">" in s:
                        rep.fail(rule, m.path.name, "<module>", node.value, f"buffer dtype {s!r} is big-endian", construct=f"dtype={s!r}")
    # struct formats of BTSDate
    dt = prog.need_cls("BTSDate", "tdfTypes")
    for f in dt.all_funcs():
        for c in walk_no_nested(f.node):
            if isinstance(c, ast.Call) and norm(c.func) in ("struct.pack", "struct.unpack") and c.args and isinstance(c.args[0], ast.Constant):
                n += 1
                if c.args[0].value == "<i":
                    rep.ok(rule, f"BTSDate.{f.name}: struct format '<i'")
                else:
                    rep.fail(rule, "tdfTypes.py", f"BTSDate.{f.name}", c, f"date struct format {c.args[0].value!r} is not '<i' (little-endian signed 32-bit)")
    rep.floor(rule, n, 22)


def conformance(prog, cd, rep, rule="layout-conformance"):
    n_units = 0
    total = 0
    for name, ref in list(UNITS.items()) + [("TdfHeader", HEADER)]:
        u = cd.header if name == "TdfHeader" else cd.units.get(name)
        if u is None:
            raise AnalysisError(f"anchor vanished: codec unit {name} of the reference layout is not in the package")
        n_units += 1
        for side, f, terms in (("w", u.writer, u.wterms), ("r", u.reader, u.rterms)):
            mod, fq = f.module.path.name, f.qualname

            def emit(ok, node, text, side=side, mod=mod, fq=fq, name=name):
                inst = f"{name}/{'writer' if side == 'w' else 'reader'}: {text}"
                if ok:
                    rep.ok(rule, inst, nontrivial=True)
                else:
                    rep.fail(rule, mod, fq, node if node is not None else f.node, f"[{'writer' if side == 'w' else 'reader'}] {text}")

            m = RefMatcher(cd, u, side, emit)
            m.match(ref, normalise(terms, side))
            total += m.nmatched
            if side == "r":
                for refname, attr in m.reader_swapped():
                    rep.fail(rule, mod, fq, f.node, f"[reader] the field the layout calls `{refname}` is decoded into attribute `{attr}`, which is the name of another field of this record (fields exchanged)",
                             construct=f"{fq} :: {refname} -> {attr}")
            if side == "w":
                for refname, attr, t in m.swapped():
                    rep.fail(rule, mod, fq, t.stmt or t.node, f"[writer] the field the layout calls `{refname}` carries attribute `{attr}`, which is the name of another field of this record (fields exchanged on both sides?)")
    rep.floor(rule + "/units", n_units, 22)
    rep.floor(rule + "/positions", total, 250)
    # header constants
    hu = cd.header
    vals = [t for t in walk_terms(hu.wterms) if isinstance(t, Field) and t.role == "data"]
    flds = [r for r in HEADER if r[0] == "f"]
    for r, t in zip(flds, vals):
        want = HEADER_CONSTANTS.get(r[1])
        got = prog.const_int(hu.writer.module, t.value)
        if want is None:
            continue
        if got == want:
            rep.ok(rule, f"Tdf.new writes {r[1]} = {want}")
        else:
            rep.fail(rule, "basictdf.py", "Tdf.new", t.stmt or t.node, f"a new file is created with {r[1]} = {got}; the format fixes {want}")
    # signature literal
    tdf = prog.need_cls("Tdf", "basictdf")
    sig = tdf.assigns.get("SIGNATURE")
    ref_sig = bytes([0x82, 0x4B, 0x60, 0x41, 0xD3, 0x11, 0x84, 0xCA, 0x60, 0x00, 0xB6, 0xAC, 0x16, 0x68, 0x0C, 0x08])
    if isinstance(sig, ast.Constant) and sig.value == ref_sig:
        rep.ok(rule, "Tdf.SIGNATURE equals the 16 reference bytes")
    else:
        rep.fail(rule, "basictdf.py", "Tdf", sig if sig is not None else tdf.node, "Tdf.SIGNATURE differs from the TDF signature bytes", construct="Tdf.SIGNATURE")


def code_tables(prog, rep, rule="code-tables"):
    """The jump table identifies a block by a numeric type code and says how it is laid out by a numeric format code; both are
    part of the file format (a BTS reader dispatches on them).  Reference: BLOCK_TYPES / FORMATS of the reference layout
    (the codes of the eight blocks of the BTS capture are confirmed by the oracle-sanity parse, thorough tier).  Checked:
    the enum member each implemented block class declares as its `type` has the reference code, the unused slot is code 0,
    and the members of the format enums the reference distinguishes have the reference codes."""
    from ..reference_layout import BLOCK_TYPES, FORMATS
    bt = prog.need_cls("BlockType", "tdfBlock")
    members = prog.enum_members(bt)
    n = 0

    def declared_type(c):
        for k in prog.mro(c):
            v = k.assigns.get("type")
            if v is not None:
                return k, v
        return None, None

    for code, cname in sorted(BLOCK_TYPES.items()):
        c = next((k for m in prog.modules.values() for k in m.classes.values() if k.name == cname), None)
        if c is None:
            raise AnalysisError(f"anchor vanished: block class {cname} of the reference type-code table")
        owner, v = declared_type(c)
        if not (isinstance(v, ast.Attribute) and norm(v.value) == "BlockType" and v.attr in members):
            raise AnalysisError(f"{cname}: the class-level `type` is not a BlockType member (`{norm(v) if v is not None else None}`)")
        n += 1
        got = members[v.attr]
        if got == code:
            rep.ok(rule, f"{cname}.type = BlockType.{v.attr} = {code}", nontrivial=True)
        else:
            rep.fail(rule, bt.module.path.name, "BlockType", bt.assigns.get(v.attr, bt.node), f"{cname} blocks are recorded with type code {got} (BlockType.{v.attr}); the TDF format identifies them by {code}: other readers do not find / mis-dispatch the block",
                     construct=f"BlockType code of {cname}")
    # the enum covers the whole code space, one member per code: TdfEntry._build maps the stored code through BlockType(..), which
    # raises for a code without a member - a file that merely CONTAINS a block of that type could not be opened - and two members
    # with one value are aliases (the second type is recorded and found as the first)
    from ..reference_layout import ALL_TYPE_CODES
    vals = sorted(members.values(), key=repr)
    n += 1
    missing = [c_ for c_ in ALL_TYPE_CODES if c_ not in members.values()]
    dup = sorted({v_ for v_ in members.values() if list(members.values()).count(v_) > 1}, key=repr)
    if missing or dup:
        rep.fail(rule, bt.module.path.name, "BlockType", bt.node, (f"type code(s) {missing} have no BlockType member: a file containing such a block cannot be opened (BlockType(code) raises); " if missing else "")
                 + (f"code(s) {dup} are shared by two members (aliases): blocks of the second type are recorded and looked up as the first" if dup else ""),
                 construct="BlockType covers codes 0..16 once")
    else:
        rep.ok(rule, f"BlockType has exactly one member for each of the {len(ALL_TYPE_CODES)} type codes of the format", nontrivial=True)
    # every code enumeration of the package (block formats, distortion models, event kinds, flags): the stored word is mapped through
    # the enum, so its members are one per code, without aliases (two names for one value make two variants indistinguishable) and
    # without holes below the highest code (a code the format defines but the enum lacks makes the whole block - or file - unreadable)
    for m_ in prog.modules.values():
        for k_ in m_.classes.values():
            if not prog.is_enum(k_) or k_ is bt:
                continue
            mem = prog.enum_members(k_)
            ints = [v_ for v_ in mem.values() if isinstance(v_, int) and not isinstance(v_, bool)]
            if not mem or len(ints) != len(mem):
                continue
            n += 1
            dup_ = sorted({v_ for v_ in ints if ints.count(v_) > 1})
            holes = [c_ for c_ in range(0, max(ints) + 1) if c_ not in ints]
            if dup_ or holes:
                rep.fail(rule, m_.path.name, k_.name, k_.node, (f"value(s) {dup_} are carried by two members of {k_.name} (aliases); " if dup_ else "") + (f"code(s) {holes} below the highest have no member" if holes else ""),
                         construct=f"{k_.name} codes once and contiguous")
            else:
                rep.ok(rule, f"{k_.name}: {len(ints)} codes 0..{max(ints)}, one member each")
    ub = next((k for m in prog.modules.values() for k in m.classes.values() if k.name == "UnusedBlock"), None)
    if ub is not None:
        owner, v = declared_type(ub)
        if isinstance(v, ast.Attribute) and v.attr in members:
            n += 1
            if members[v.attr] == 0:
                rep.ok(rule, f"unused slots carry type code 0 (BlockType.{v.attr})")
            else:
                rep.fail(rule, bt.module.path.name, "BlockType", bt.node, f"unused slots are recognised by type code {members[v.attr]}; the format (and Tdf.new, which writes 0) uses 0", construct="BlockType code of unused slot")
    for cname, table in sorted(FORMATS.items()):
        c = next((k for m in prog.modules.values() for k in m.classes.values() if k.name == cname), None)
        if c is None:
            raise AnalysisError(f"anchor vanished: block class {cname} of the reference format-code table")
        # the format enum lives next to the block class (several enums share member names like byTrack)
        cands = [(m, kk) for m in prog.modules.values() for kk in m.classes.values()
                 if any(norm(b) in ("Enum", "enum.Enum", "IntEnum", "enum.IntEnum") for b in kk.node.bases) and set(table.values()) <= set(prog.enum_members(kk))
                 and cname in m.classes and any(isinstance(x, ast.Name) and x.id == kk.name for x in ast.walk(m.classes[cname].node))]
        k = cands[0][1] if len(cands) == 1 else None
        if k is None:
            raise AnalysisError(f"{cname}: no format enum with members {sorted(table.values())} found")
        mem = prog.enum_members(k)
        for code, name in sorted(table.items()):
            n += 1
            if mem.get(name) == code:
                rep.ok(rule, f"{k.name}.{name} = {code}")
            else:
                rep.fail(rule, k.module.path.name, k.name, k.node, f"format `{name}` of {cname} is recorded as code {mem.get(name)}; the TDF format uses {code}: the layout a reader selects for these bytes is another one",
                         construct=f"{k.name}.{name} code")
    rep.floor(rule, n, 15)


def run(prog, rep):
    cd = Codecs(prog)
    cd.flag_errors(rep)
    rep.explanation = (
        "layout-conformance: the layout term of every writer and of every reader (22 records incl. file header and table "
        "entry) is matched position by position against an independent reference table of the TDF layout (kind, width, "
        "shape, count linkage, reserved bytes, stored bias, format alternatives, grid/cell order), so a change made "
        "consistently on both the read and the write side is still reported; explicit-little-endian: every dtype literal "
        "and struct format carries '<'."
    )
    rep.attempt(endianness, prog, rep)
    rep.attempt(conformance, prog, cd, rep)
    rep.attempt(code_tables, prog, rep)
    from .. import primitives as PR
    rep.attempt(PR.tdftype_primitives, prog, rep)
    from ..staging import staging_dtypes
    rep.attempt(staging_dtypes, prog, rep)
    from ..staging import constructor_dtypes
    rep.attempt(constructor_dtypes, prog, cd, rep)
    rep.attempt(PR.string_codec, prog, rep)
    rep.attempt(PR.date_codec, prog, rep)
    from ..codecs import no_stale_derived_state
    from .c01 import equivalence_discharge
    rep.attempt(no_stale_derived_state, prog, cd, rep)
    equivalence_discharge(prog, cd, rep, extra=("explicit-channel-honoured",))
    # 'decode to exactly the values an independent decoder extracts': every field the decoder reads ends up in the attribute the
    # encoder takes it from (a decoded word that is dropped - replaced by a constructor default - is a value the layout stores
    # and this decoder does not return)
    from .c01 import attr_linkage
    for u in cd.units.values():
        rep.attempt(attr_linkage, rep, cd, u, rule="decoded-values", reader_driven=True)
    # comments / labels reach the file unaltered only if the string writer refuses what does not fit instead of cutting it
    from .c13 import string_write_rules
    rep.attempt(string_write_rules, prog, rep)
    rep.trusted += ["the reference table /verif/sa/reference_layout.py (validated against the BTS capture by the thorough tier's struct parser)"]
    rep.not_decided += ["golden digests of the decoded capture (an execution)", "value conventions BTS software expects beyond layout"]
    for a in cd.assumptions:
        rep.assume(a)


def thorough(prog, rep):
    from ..oracle_parse import sanity

    sanity(rep)
