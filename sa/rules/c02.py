"""C02 declared size = bytes written = bytes consumed: rules size-identity, consumed-equals-written,
container-size (DESIGN 3/C02)."""
from __future__ import annotations

import ast

from ..codecs import Codecs
from ..container import Container
from ..layout import show
from ..report import AnalysisError, head, norm
from ..size import SizeCtx, nbytes_poly, writer_bytes
from ..sym import apply_equiv, equal, canon
from .c01 import where

FLOOR_UNITS = 21


def size_identity(prog, cd, rep, with_consumed=True, only=None):
    n_units = 0
    for u in cd.units.values():
        if only is not None and u.name not in only:
            continue
        un = cd.unify(u)
        sc = SizeCtx(prog, un, cd)
        wb = apply_equiv(writer_bytes(sc, u), un.ctx)
        nb, node, kind = nbytes_poly(sc, u.cls)
        mod = u.writer.module.path.name
        if nb is None:
            rep.fail("size-identity", mod, u.name, u.cls.node, "unit has a writer but declares no nBytes", construct=f"class {u.name}")
            continue
        n_units += 1
        nb = apply_equiv(nb, un.ctx)
        if nb == wb:
            rep.ok("size-identity", f"{u.name}.nBytes ({kind}) == bytes(_write) == {wb}", nontrivial=not wb.is_const(),
                   sample={"unit": u.name, "nBytes": str(nb), "writer_bytes": str(wb)})
        else:
            diff = wb - nb
            rep.fail("size-identity", mod, f"{u.name}.nBytes", node,
                     f"declared size `{nb}` differs from bytes written `{wb}` (written - declared = {diff})",
                     construct=f"{u.name}.nBytes vs {u.name}._write", detail={"nBytes": str(nb), "writer": str(wb), "difference": str(diff)})
        if not with_consumed:
            continue
        # bytes consumed: reader agrees with writer at every position
        bad = 0
        for ok, sub, wn, rn, text in cd.results[u.name]:
            if sub not in ("width", "count", "order", "format"):
                continue
            if ok:
                rep.ok("consumed-equals-written", f"{u.name}/{sub}: {text}", nontrivial=(sub == "count"))
            else:
                bad += 1
                m, fn = where(u, "r") if rn is not None else where(u, "w")
                rep.fail("consumed-equals-written", m, fn, rn if rn is not None else wn, f"[{sub}] {text}")
    return n_units


def run(prog, rep):
    cd = Codecs(prog)
    cd.flag_errors(rep)
    from ..codecs import no_stale_derived_state
    rep.attempt(no_stale_derived_state, prog, cd, rep)
    rep.explanation = (
        "size-identity: the nBytes definition of every Sized unit and the byte count of its writer's layout term are "
        "normalised to polynomials over shape atoms (len, segment sums, guarded terms) and must be identical; "
        "consumed-equals-written: the reader's term consumes position by position the widths and counts the writer emits "
        "(no trailing reads); container-size: add_block takes entry.size from newBlock.nBytes, writes the block at the "
        "entry's offset and gives every later slot offset+size."
    )
    n_units = size_identity(prog, cd, rep)
    rep.floor("size-identity/units", n_units, FLOOR_UNITS)

    # container clause
    ct = Container(prog)
    rep.attempt(ct.check_c02, rep)
    # the size recorded for a REPLACED block is the new block's only because replace_block is remove + add (add_block records
    # newBlock.nBytes): a replace with file / table effects of its own (an in-place rewrite that keeps the old entry) is outside it
    from .c11 import replace_composition
    rep.attempt(replace_composition, ct, rep, rule="container-size/replace-composition")
    from .. import primitives as PR
    from .c01 import equivalence_discharge
    rep.attempt(PR.tdftype_primitives, prog, rep)
    from ..staging import staging_dtypes
    rep.attempt(staging_dtypes, prog, rep)
    equivalence_discharge(prog, cd, rep)
    # a decoded block reports the size of its bytes only if every stored attribute (incl. the format code the container
    # writes back) decodes to itself
    from .c01 import attr_linkage
    for u in cd.units.values():
        rep.attempt(attr_linkage, rep, cd, u, rule="decoded-object-linkage")
    # a decoded block re-derives its runs (and so its size) from NaN: gap frames must decode as NaN
    from .c05 import nan_prefill, segments_derivation
    rep.attempt(nan_prefill, prog, cd, rep)
    # nBytes and the writer both ask _segments: it must be a pure derivation (no in-place repair of the data between the two calls)
    rep.attempt(segments_derivation, prog, cd, rep)

    for a in cd.assumptions:
        rep.assume(a)
    rep.extra["size_polynomials"] = "see samples"
    rep.trusted += ["numpy: bwrite of an array writes base-itemsize x size bytes", "itemsize of each dtype literal as parsed by E1"]
    rep.not_decided += [
        "that runtime objects have the shapes the codecs assume where no constructor guard exists (listed assumptions)",
        "i32 overflow of entry.size for blocks >= 2 GiB",
        "equality with the recorded size for arbitrary BTS files",
    ]
