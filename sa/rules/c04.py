"""C04 mutating one block leaves the others alone (DESIGN 3/C04)."""
from __future__ import annotations

import ast

from .. import mutrules as M
from ..codecs import Codecs
from ..container import Container
from ..index import walk_no_nested
from ..report import AnalysisError, head, norm
from .c01 import attr_linkage, report_unit

ENTRY_FIELDS_FROZEN = ("type", "format", "size", "comment", "creation_date", "last_modification_date", "last_access_date")


def entry_frame(ct: Container, cd: Codecs, rep, rule="entry-frame"):
    mod = M.MOD(ct)
    n = 0
    for name in ("add_block", "remove_block", "replace_block"):
        ff = ct.facts(name)
        fq = f"Tdf.{name}"
        for e in ff.ev("field_assign"):
            n += 1
            info = ff.entry_names.get(norm(e.entry))
            fresh = info is not None and info[0] == "fresh"
            if e.field != "offset" and not fresh:
                rep.fail(rule, mod, fq, e.stmt, f"field `{e.field}` of an existing table entry is modified: another block's metadata changes")
                continue
            if name == "add_block" and not fresh:
                tests = M.enclosing_tests(ff.f.node, e.stmt)
                good = any(br and norm(t).replace(" ", "") in (f"{norm(e.entry)}.type==BlockType.unusedSlot", f"BlockType.unusedSlot=={norm(e.entry)}.type") for t, br in tests)
                if not good:
                    st_ev = ff.ev("table_store")
                    pre = M.later_slots_precheck(ct, ff, st_ev[0].index) if st_ev else None
                    good = pre is not None and ff.cfg.dominates(ff.cfg.node_of(pre), e.node)
                if good:
                    rep.ok(rule, f"{fq}: only unused slots are re-pointed", nontrivial=True)
                else:
                    rep.fail(rule, mod, fq, e.stmt, "an entry that is not known to be an unused slot has its offset changed by add_block")
            else:
                rep.ok(rule, f"{fq}: only `.offset` of surviving entries is assigned")
        # the live table elements are never replaced by index except the slot found unused
        for e in ff.ev("table_store"):
            n += 1
            idx = ff.resolve(e.index)
            d = ff.defs.get(norm(e.index), [])
            good = bool(d) and all("BlockType.unusedSlot" in norm(v) and "==" in norm(v) for v, st in d)
            if good:
                rep.ok(rule, f"{fq}: the replaced table element is one found with type == unusedSlot", nontrivial=True)
            else:
                rep.fail(rule, mod, fq, e.stmt, f"table element `{norm(e.index)}` is overwritten without having been selected as an unused slot")
    rep.floor(rule, n, 3)
    # whole-entry rewrite keeps type/format/dates/comment: TdfEntry codec symmetric + attribute linkage
    eu = cd.units.get("TdfEntry")
    if eu is None:
        raise AnalysisError("anchor vanished: TdfEntry codec unit")
    report_unit(rep, cd, eu, rule="entry-codec-symmetry")
    attr_linkage(rep, cd, eu, rule="entry-codec-symmetry")
    # BTSDate read/write use the same struct format
    dt = ct.prog.need_cls("BTSDate", "tdfTypes")
    fmts = {}
    for mname in ("read", "write"):
        f = ct.prog.need_method(dt, mname)
        for c in walk_no_nested(f.node):
            if isinstance(c, ast.Call) and norm(c.func) in ("struct.pack", "struct.unpack") and c.args and isinstance(c.args[0], ast.Constant):
                fmts[mname] = c.args[0].value
    if len(fmts) == 2 and fmts["read"] == fmts["write"]:
        rep.ok("entry-codec-symmetry", f"BTSDate.read/write share struct format {fmts['read']!r}")
    else:
        f = ct.prog.need_method(dt, "read")
        rep.fail("entry-codec-symmetry", "tdfTypes.py", "BTSDate.read", f.node, f"BTSDate read/write struct formats differ or are not literal: {fmts}",
                 construct="BTSDate struct format")


def setter_delegation(ct: Container, rep, rule="setter-delegation"):
    """'replacing a block without giving a comment keeps its previous comment' also holds for replacement through a convenience
    setter only because the setter hands the whole job to replace_block (where the comment is carried over): on every path a
    setter calls exactly one of self.replace_block(<value>) / self.add_block(<value>), and never remove_block itself."""
    from ..facts import path_returns
    from ..normalize2 import eval_order
    mod = M.MOD(ct)
    n = 0
    for f in ct.setters():
        ff = ct.facts(f.name, "setter")
        fq = f"Tdf.{f.name}.setter"
        sn = ff.f.self_name or "self"
        val = ff.f.params[0] if ff.f.params else None
        n += 1
        bad = False
        for pe in path_returns(ff.f.node):
            if pe.kind == "raise":
                continue
            calls = [x for e in pe.effects for x in eval_order(e) if isinstance(x, ast.Call) and isinstance(x.func, ast.Attribute) and isinstance(x.func.value, ast.Name)
                     and x.func.value.id == sn and x.func.attr in ("replace_block", "add_block", "remove_block")]
            names = [c.func.attr for c in calls]
            if "remove_block" in names:
                rep.fail(rule, mod, fq, calls[names.index("remove_block")], "the setter removes the present block itself instead of handing the replacement to replace_block: the previous comment is not carried over "
                         "(and a refused new block leaves the file without the old one)", construct=f"{fq} removes directly")
                bad = True
            elif len(calls) != 1:
                rep.fail(rule, mod, fq, pe.node or ff.f.node, f"a path of the setter makes {len(calls)} add/replace calls (expected exactly one)", construct=f"{fq} call count")
                bad = True
            else:
                a0 = calls[0].args[0] if calls[0].args else (calls[0].keywords[0].value if calls[0].keywords else None)
                if val is None or a0 is None or norm(a0) != val:
                    rep.fail(rule, mod, fq, calls[0], f"`{norm(calls[0])}` does not store the assigned value `{val}`", construct=f"{fq} value")
                    bad = True
        if not bad:
            rep.ok(rule, f"{fq}: every path hands `{val}` to exactly one of replace_block / add_block", nontrivial=True)
    rep.floor(rule, n, 5)


def comment_carry(ct: Container, rep, rule="comment-carry"):
    """Path summaries of replace_block: the comment handed to add_block is the caller's when one was given (`comment is not
    None`) and otherwise the comment of the entry being replaced (the first entry of the new block's type), and that entry is
    looked up before the removal."""
    from ..facts import flat_facts, path_returns, split_ifexp
    from .c11 import first_of_type
    mod = M.MOD(ct)
    ff = ct.facts("replace_block")
    fq = "Tdf.replace_block"
    cfg = ff.cfg
    bp = ff.f.params[0]
    cparam = "comment"
    calls = ff.ev("self_call")
    rm = next((e for e in calls if e.meth == "remove_block"), None)
    ad = next((e for e in calls if e.meth == "add_block"), None)
    if ad is None:
        raise AnalysisError(f"{fq}: no call to add_block")

    def is_old_entry(e):
        if first_of_type(ct, e, f"{bp}.type") is not None:
            return True
        # [x for x in entries if x.type == T][0]
        if isinstance(e, ast.Subscript) and isinstance(e.slice, ast.Constant) and e.slice.value == 0 and isinstance(e.value, ast.ListComp) and len(e.value.generators) == 1:
            g = e.value.generators[0]
            v = norm(g.target)
            if ct.is_entries(g.iter) and norm(e.value.elt) == v and len(g.ifs) == 1 and isinstance(g.ifs[0], ast.Compare) and len(g.ifs[0].ops) == 1 \
                    and isinstance(g.ifs[0].ops[0], (ast.Eq, ast.Is)) and {norm(g.ifs[0].left), norm(g.ifs[0].comparators[0])} == {f"{v}.type", f"{bp}.type"}:
                return True
        return False

    def none_fact(facts_):
        res = None
        for t, pol in facts_:
            if isinstance(t, ast.Compare) and len(t.ops) == 1 and norm(t.left) == cparam and isinstance(t.comparators[0], ast.Constant) and t.comparators[0].value is None:
                if isinstance(t.ops[0], (ast.Is, ast.Eq)):
                    res = pol
                elif isinstance(t.ops[0], (ast.IsNot, ast.NotEq)):
                    res = not pol
        return res

    n_calls = 0
    good = True
    for pe in path_returns(ff.f.node):
        for e in pe.effects:
            for c in ast.walk(e):
                if not (isinstance(c, ast.Call) and norm(c.func) == "self.add_block"):
                    continue
                n_calls += 1
                carg = c.args[1] if len(c.args) > 1 else next((k.value for k in c.keywords if k.arg == "comment"), None)
                if carg is None:
                    rep.fail(rule, mod, fq, ad.stmt, "add_block is called without the comment: the previous comment is lost (default text is written)")
                    return
                for conds, leaf in split_ifexp(carg):
                    if isinstance(leaf, ast.BoolOp):
                        rep.fail(rule, mod, fq, ad.stmt, "comment chosen by truthiness (`or`): an explicit empty comment would be replaced by the old one")
                        return
                    nf = none_fact(flat_facts(pe.guards + conds))
                    if nf is True and isinstance(leaf, ast.Attribute) and leaf.attr == "comment" and is_old_entry(leaf.value):
                        continue
                    if nf is False and norm(leaf) == cparam:
                        continue
                    good = False
                    sel = [norm(t) for t, _ in pe.guards + conds if cparam in norm(t)]
                    rep.fail(rule, mod, fq, ad.stmt, f"comment passed to add_block is `{norm(leaf)}` when `{sel[0] if sel else 'unconditionally'}`: an explicit (even empty) comment must be used as given and "
                             "None must carry the replaced block's comment (expected `comment if comment is not None else old_entry.comment`)")
                    return
    if not n_calls:
        raise AnalysisError(f"{fq}: no call to add_block")
    if good:
        rep.ok(rule, f"{fq}: comment = given comment if not None else the old entry's comment", nontrivial=True)
    # captured before removal: every local that reads the table and feeds the comment is bound before remove_block runs
    if rm is not None:
        carg = ad.call.args[1] if len(ad.call.args) > 1 else next((k.value for k in ad.call.keywords if k.arg == "comment"), None)
        seen, work = set(), [carg] if carg is not None else []
        late = None
        while work:
            e = work.pop()
            for x in ast.walk(e):
                if isinstance(x, ast.Name) and x.id in ff.defs and x.id not in seen:
                    seen.add(x.id)
                    for v, st in ff.defs[x.id]:
                        work.append(v)
                        if any(ct.is_entries(y) for y in ast.walk(v)):
                            cn = cfg.node_of(st)
                            if cn is None or not cfg.dominates(cn, rm.node):
                                late = st
            if any(ct.is_entries(y) for y in ast.walk(e)) and e is carg:
                # the table is read inside the call expression itself, i.e. after the removal
                if cfg.dominates(rm.node, ad.node):
                    late = ad.stmt
        if late is not None:
            rep.fail(rule, mod, fq, late, "the old entry is looked up after the block was removed")
        else:
            rep.ok(rule, f"{fq}: old entry captured before the removal", nontrivial=True)


def dispatch_exhaustive(ct: Container, rep, rule="dispatch-exhaustive"):
    prog = ct.prog
    mod = M.MOD(ct)
    f = ct.mod.functions.get("_get_block_class")
    if f is None:
        raise AnalysisError("anchor vanished: basictdf._get_block_class")
    bt = prog.need_cls("BlockType", "tdfBlock")
    members = prog.enum_members(bt)
    mapping = {}  # member -> class name node
    param = f.params[0] if f.params else "block_type"

    # path summaries: which class is returned on the paths that have found `block_type == BlockType.<member>`
    from ..facts import flat_facts, return_leaves
    for guards, leaf, pe in return_leaves(f.node):
        if leaf is None:
            continue
        for t, pol in flat_facts(guards):
            if pol and isinstance(t, ast.Compare) and len(t.ops) == 1 and isinstance(t.ops[0], (ast.Eq, ast.Is)):
                a, b = t.left, t.comparators[0]
                for x, y in ((a, b), (b, a)):
                    if norm(x) == param and isinstance(y, ast.Attribute) and norm(y.value) == "BlockType":
                        mapping.setdefault(y.attr, (leaf, pe.node))
    n = 0
    for m in members:
        n += 1
        if m not in mapping:
            rep.fail(rule, mod, "_get_block_class", f.node, f"BlockType.{m} has no branch: a block of that type cannot be dispatched", construct=f"_get_block_class :: {m}")
            continue
        v, st = mapping[m]
        k = prog.resolve_class(ct.mod, norm(v)) if isinstance(v, ast.Name) else None
        if k is None:
            rep.fail(rule, mod, "_get_block_class", st, f"BlockType.{m} maps to `{norm(v)}` which is not a class of the package")
            continue
        ca = prog.class_attr(k, "type")
        stub = any(b.name == "NotImplementedBlock" for b in prog.mro(k))
        impl = [c2 for mm in prog.modules.values() for c2 in mm.classes.values() if c2 is not k and not any(b.name == "NotImplementedBlock" for b in prog.mro(c2))
                and (prog.class_attr(c2, "type") or (None, None))[1] is not None and norm(prog.class_attr(c2, "type")[1]) == f"BlockType.{m}" and c2.get("_build") is not None]
        if ca is not None and norm(ca[1]) == f"BlockType.{m}" and stub and impl:
            rep.fail(rule, mod, "_get_block_class", st, f"BlockType.{m} is dispatched to the not-implemented stub {k.module.name}.{k.name} although {impl[0].module.name}.{impl[0].name} implements that block type: such blocks can no longer be read",
                     construct=f"_get_block_class :: {m} -> stub {k.module.name}.{k.name}")
        elif ca is not None and norm(ca[1]) == f"BlockType.{m}":
            rep.ok(rule, f"BlockType.{m} -> {k.module.name}.{k.name} (type == BlockType.{m})", nontrivial=True)
        else:
            rep.fail(rule, mod, "_get_block_class", st, f"BlockType.{m} is dispatched to {k.module.name}.{k.name} whose class attribute type is `{norm(ca[1]) if ca else None}`",
                     construct=f"_get_block_class :: {m} -> {k.name}")
    rep.floor(rule, n, 17)


def run(prog, rep):
    # 'never alters any other block or its metadata' - of any file: the table a mutator works on is this object's own (a class-level
    # list that every open Tdf parses into makes a writer rewrite its file from another file's entries)
    from .c17 import container_own_state
    rep.attempt(container_own_state, prog, rep)
    ct = Container(prog)
    cd = Codecs(prog)
    cd.flag_errors(rep)
    rep.explanation = (
        "frame condition at the level of which entry fields and which bytes each statement may touch: entry-frame "
        "(only .offset of surviving entries is assigned; whole-entry rewrite through a TdfEntry codec proved symmetric "
        "by C01's unifier), shift-consistency (tail source, destination and table shift use the same three expressions), "
        "comment-carry (def-use + dominance in replace_block), dispatch-exhaustive (every BlockType member maps to the "
        "class whose type attribute is that member)."
    )
    rep.attempt(entry_frame, ct, cd, rep)
    rep.attempt(M.tail_move, ct, rep, rule="tail-move-order", shift_rule="shift-consistency")
    rep.attempt(comment_carry, ct, rep)
    rep.attempt(setter_delegation, ct, rep)
    rep.attempt(dispatch_exhaustive, ct, rep)
    # 'including blocks of types the library cannot decode': their entries must at least be representable (one BlockType member per code)
    from .c06 import code_tables
    rep.attempt(code_tables, prog, rep)
    # 'reading it returns content equal to what was stored' also through the convenience accessors: getter, predicate and setter of
    # each group name the same block type (C11's sibling rule)
    from .c11 import accessor_agreement
    rep.attempt(accessor_agreement, ct, rep)
    rep.attempt(M.get_block_reads_disk, ct, rep)
    # the table the mutators work from is the one on disk now: parsed on every entry (another object may have changed the file in between)
    rep.attempt(lambda: M.parse_on_enter(ct, rep))
    # 'reading it returns content equal to what was stored': the numeric primitive every block goes through
    from .. import primitives as _PR
    rep.attempt(_PR.tdftype_primitives, prog, rep)
    # a block added after a removal must not land on another block's bytes: the free slots point at end of data
    rep.attempt(M.offset_provenance, ct, rep)
    rep.attempt(M.repoint_later, ct, rep)
    rep.attempt(M.shift_loop, ct, rep)
    # the next block is placed at offset + nBytes: it lands on this block's tail unless nBytes == bytes written
    from .c02 import size_identity
    rep.attempt(size_identity, prog, cd, rep, with_consumed=False)
    # .. which identifies len(map) with len(items): true only while the two lists are mutated pairwise on every path
    from .c01 import equivalence_discharge
    equivalence_discharge(prog, cd, rep)
    # comments / labels reach the file unaltered only if the string writer refuses what does not fit instead of cutting it
    from .c13 import string_write_rules
    rep.attempt(string_write_rules, prog, rep)
    # .. and re-parse to the same text / dates: the string and date codecs the entry codec treats as atoms are themselves inverse
    from .. import primitives as PR
    rep.attempt(PR.string_codec, prog, rep)
    rep.attempt(PR.date_codec, prog, rep)
    # a refused add/remove inside a history must leave table and file as they were: a phantom entry left in the table is
    # re-serialised (or "removed") by the next call, over the neighbours' bytes
    from ..codecs import Codecs as _Codecs
    from .c07 import path_rules
    rep.attempt(path_rules, ct, _Codecs(prog), rep, names=("add_block", "remove_block"), include_setters=False, prefix="refusal-leaves-table/")
    rep.not_decided += ["byte equality of moved payloads under concrete histories", "datetime <-> 32-bit timestamp corner cases (DST folds, 2038)"]
