"""C01 encode/decode round trip: rule codec-symmetry (DESIGN 3/C01)."""
from __future__ import annotations

import ast

from .. import facts
from ..codecs import Codecs, writer_attr_reads
from ..layout import Alt, Fail, Field, Rep, Sub, has_stream, show, walk_terms
from ..report import AnalysisError, head, norm
from ..sym import canon
from ..unify import GuardFail, is_self, normalise

BLOCK_UNITS_FLOOR = 20
NONDET = ("datetime.", "time.", "random.", "np.random", "os.urandom", "uuid.", "os.getpid", "id(")


def where(u, side):
    f = u.writer if side == "w" else u.reader
    return f.module.path.name, f.qualname


def report_unit(rep, cd: Codecs, u, rule="codec-symmetry", skip_subs=()):
    un = cd.unify(u)
    n_ok = 0
    for ok, sub, wn, rn, text in cd.results[u.name]:
        if sub in skip_subs:
            continue
        inst = f"{u.name}/{sub}: {text}"
        if ok:
            rep.ok(rule, inst, nontrivial=sub in ("count", "format", "attr"), sample=text if sub == "count" else None)
            n_ok += 1
        else:
            # report at the reader construct if there is one, else the writer's
            if rn is not None:
                mod, fn = where(u, "r")
                node = rn
            else:
                mod, fn = where(u, "w")
                node = wn
            rep.fail(rule, mod, fn, node, f"[{sub}] {text}", detail={
                "unit": u.name, "writer_construct": norm(head(wn)) if wn is not None else None,
                "reader_construct": norm(head(rn)) if rn is not None else None})
    return un


def attr_linkage(rep, cd: Codecs, u, rule="codec-symmetry", reader_driven=True):
    """Every attribute the writer reads is reconstructed by the reader as itself (order, transform, attribute)."""
    un = cd.unify(u)
    obj = un.result_obj
    mod, fn = where(u, "r")
    if obj is None:
        rep.fail(rule, mod, fn, u.reader.node, "[attr] reader does not return a constructed object the analysis can follow",
                 construct=f"def {u.reader.name}")
        return
    if obj["cls"] is not None and u.cls is not None and obj["cls"].name != u.cls.name:
        rep.fail(rule, mod, fn, obj["node"], f"[attr] reader of {u.name} returns a {obj['cls'].name}")
    # reader-driven: a value the decoder stores into the object must have been written from the object
    from ..layout import Construct, Install, CallOn
    flows = []
    for t in walk_terms(u.rterms):
        if isinstance(t, Construct):
            flows += [norm(a) for a in list(t.args) + list(t.kwargs.values())]
        elif isinstance(t, (Install,)):
            flows.append(norm(t.value))
        elif isinstance(t, CallOn):
            flows += [norm(a) for a in list(t.args) + list(t.kwargs.values())]
    import re as _re
    from ..layout import Str as _Str, Date as _Date
    for t in walk_terms(u.rterms):
        ph = getattr(t, "ph", None)
        if not ph or not isinstance(t, (Field, _Str, _Date)) or not getattr(t, "used", True):
            continue
        if isinstance(t, Field) and t.role != "data":
            continue
        w = un.bind.get(ph)
        if w is None or not isinstance(w, ast.Constant):
            continue
        if any(_re.search(rf"\b{ph}\b", s) for s in flows):
            rep.fail(rule, mod, fn, t.stmt or t.node, f"[attr] the decoder stores this field into the object, but the encoder writes the constant `{norm(w)}` there: the stored value is lost on encode")
    reads = writer_attr_reads(cd.prog, u)
    # reader-driven: an attribute reconstructed from the stored value of ANOTHER attribute
    for a, got in sorted(obj["attrs"].items()):
        if a in reads or got is None or not reader_driven:
            continue
        g0 = got.value if isinstance(got, ast.Attribute) and got.attr == "value" else got
        if isinstance(g0, ast.Attribute) and norm(g0.value) == "self" and g0.attr != a and u.cls is not None:
            # two attributes the constructor fills from the same argument hold the same value: the field written from one of them
            # gives the other back unchanged (an alias kept for compatibility) - nothing is lost
            from .. import facts as _facts
            _summ = _facts.init_summary(cd.prog, u.cls)
            _va, _vb = _summ.attrs.get(a), _summ.attrs.get(g0.attr)
            if isinstance(_va, ast.Name) and isinstance(_vb, ast.Name) and _va.id == _vb.id and _va.id in _summ.params:
                continue
        if isinstance(g0, ast.Attribute) and norm(g0.value) == "self" and g0.attr != a and cd.prog.lookup_method(u.cls, g0.attr) is None if u.cls else False:
            rep.fail(rule, mod, fn, obj["node"], f"[attr] attribute {a} is decoded from the field in which the encoder stores `self.{g0.attr}` (the encoder never writes `self.{a}`): its value is lost / replaced on a round trip",
                     construct=f"{norm(head(obj['node']))} :: {a} <- {g0.attr}")
    # the format the decoder was given must end up in the decoded object (the container writes block.format.value back)
    if u.cls is not None and any(b.name == "Block" for b in cd.prog.mro(u.cls)) and "format" in obj["attrs"]:
        got = obj["attrs"]["format"]
        g = canon(got, un.ctx)
        passed_through = isinstance(got, ast.Name) and got.id == "format" or (isinstance(got, ast.Call) and len(got.args) == 1 and norm(got.args[0]) == "format")
        if g == "self.format" or passed_through:
            rep.ok(rule, f"{u.name}/attr: format decodes to itself", nontrivial=True)
        else:
            k = enum_of_unit(cd.prog, u)
            only = None
            if k is not None and isinstance(got, ast.Attribute) and norm(got.value) == k.name:
                R = normalise(u.rterms, "r")
                members = cd.prog.enum_members(k)
                acc = [m for m in members if not fails_under(R, m, k.name, "r")]
                if acc == [got.attr]:
                    only = got.attr
            if only:
                rep.ok(rule, f"{u.name}/attr: decoder accepts only format {only}, which is the constructor default it uses", nontrivial=True)
            else:
                rep.fail(rule, mod, fn, obj["node"], f"[attr] the decoded block's format is `{g}` instead of the format it was decoded with: re-encoding records another format code than the one these bytes need",
                         construct=f"{norm(head(obj['node']))} :: format")
    for a, wnode in sorted(reads.items()):
        if a == "format":
            continue  # rule 6
        got = obj["attrs"].get(a)
        want = f"self.{a}"
        if got is None:
            rep.fail(rule, mod, fn, obj["node"], f"[attr] writer reads self.{a} but the decoder never sets it",
                     construct=f"{norm(head(obj['node']))} :: {a}")
            continue
        g = canon(got, un.ctx)
        if isinstance(got, ast.IfExp) and norm(got.test) == f"hasattr(self, '{a}')" and norm(got.body) == want \
                and isinstance(got.orelse, (ast.List, ast.Tuple)) and not got.orelse.elts:
            rep.note(f"{u.name}.{a}: an absent optional attribute is written as an empty table and decoded as an empty array")
            g = want
        if g == want:
            rep.ok(rule, f"{u.name}/attr: {a} decodes to itself", nontrivial=True,
                   sample=f"{u.name}.{a} <- {g}")
        else:
            rep.fail(rule, mod, fn, obj["node"],
                     f"[attr] attribute {a} is reconstructed as `{g}` instead of `{want}` (wrong field, dropped value or non-inverse transform)",
                     construct=f"{norm(head(obj['node']))} :: {a}")


def determinism(rep, cd: Codecs, u, rule="codec-symmetry"):
    mod, fn = where(u, "w")
    bad = False
    for t in walk_terms(u.wterms):
        for fld in ("value", "over", "lo", "hi", "count"):
            e = getattr(t, fld, None)
            if e is None:
                continue
            s = norm(e)
            if any(x in s for x in NONDET):
                rep.fail(rule, mod, fn, t.node, f"[determinism] writer emits a value that is not a function of the block: `{s}`")
                bad = True
    if not bad:
        rep.ok(rule, f"{u.name}/determinism: writer reads only self, parameters and constants")


def item_order(rep, cd: Codecs, u, rule="codec-symmetry"):
    """The position of an item in its list is stored data (the writer emits list order, the reader appends in stream order):
    neither side may sort, reverse, shuffle or de-duplicate a collection of items."""
    from ..index import walk_no_nested
    bad = False
    for side, f in (("writer", u.writer), ("reader", u.reader)):
        for c in [x for x in walk_no_nested(f.node) if isinstance(x, ast.Call)]:
            what = None
            fn_ = norm(c.func)
            if isinstance(c.func, ast.Attribute) and c.func.attr in ("sort", "reverse") and not isinstance(c.func.value, ast.Call):
                what = f"`{norm(c.func.value)}.{c.func.attr}()`"
            elif fn_ in ("sorted", "random.shuffle", "shuffle", "set", "frozenset") and c.args and not (isinstance(c.args[0], ast.Call) and norm(c.args[0].func) == "range") \
                    and not isinstance(c.args[0], (ast.Constant, ast.Tuple, ast.List, ast.Set)):
                what = f"`{norm(c)[:60]}`"
            elif fn_ == "reversed" and c.args and not (isinstance(c.args[0], ast.Call) and norm(c.args[0].func) == "range"):
                what = f"`{norm(c)[:60]}`"
            if what:
                rep.fail(rule, f.module.path.name, f.qualname, c, f"[order] the {side} re-orders / de-duplicates a collection ({what}): the order of the items is stored data and no longer survives a round trip",
                         construct=f"{f.qualname} reorders items")
                bad = True
    if not bad:
        rep.ok(rule, f"{u.name}/item-order: neither side sorts, reverses or de-duplicates a collection")


# ---------------------------------------------------------------------------------- rule 6: format guards
def enum_of_unit(prog, u):
    """The format Enum class a unit dispatches on (from Enum(format) in the reader or members named in guards)."""
    names = []
    for t in walk_terms(u.rterms + u.wterms):
        c = getattr(t, "cond", None)
        if c is None:
            continue
        for n in ast.walk(c):
            if isinstance(n, ast.Attribute) and isinstance(n.value, ast.Name):
                k = prog.resolve_class(u.writer.module, n.value.id)
                if k is not None and prog.is_enum(k) and "ormat" in k.name:
                    names.append(k)
    return names[0] if names else None


def eval_cond(cond, member: str, enum_name: str):
    """Evaluate a guard condition under format == enum_name.member. Returns True/False/None(unknown)."""
    def is_fmt(n):
        s = norm(n)
        return s in ("format", "self.format", f"{enum_name}(format)", "self.format.value", f"{enum_name}(self.format.value)")

    def mem(n):
        if isinstance(n, ast.Attribute) and isinstance(n.value, ast.Name) and n.value.id == enum_name:
            return n.attr
        return None

    if isinstance(cond, ast.UnaryOp) and isinstance(cond.op, ast.Not):
        v = eval_cond(cond.operand, member, enum_name)
        return None if v is None else not v
    if isinstance(cond, ast.BoolOp):
        vals = [eval_cond(v, member, enum_name) for v in cond.values]
        if isinstance(cond.op, ast.And):
            if any(v is False for v in vals):
                return False
            return True if all(v is True for v in vals) else None
        if any(v is True for v in vals):
            return True
        return False if all(v is False for v in vals) else None
    if isinstance(cond, ast.Compare) and len(cond.ops) == 1 and is_fmt(cond.left):
        op, rhs = cond.ops[0], cond.comparators[0]
        if isinstance(op, (ast.Eq, ast.NotEq, ast.Is, ast.IsNot)):
            m = mem(rhs)
            if m is None:
                return None
            r = m == member
            return r if isinstance(op, (ast.Eq, ast.Is)) else not r
        if isinstance(op, (ast.In, ast.NotIn)) and isinstance(rhs, (ast.List, ast.Tuple, ast.Set)):
            ms = [mem(e) for e in rhs.elts]
            if any(m is None for m in ms):
                return None
            r = member in ms
            return r if isinstance(op, ast.In) else not r
    return None


def fails_under(terms, member, enum_name, side):
    """May the term sequence raise because of the format when format == member?"""
    for t in terms:
        if isinstance(t, GuardFail):
            v = eval_cond(t.cond, member, enum_name)
            if v is True:
                return True
        elif isinstance(t, Alt):
            v = eval_cond(t.cond, member, enum_name)
            if v is True:
                if fails_under(t.then, member, enum_name, side):
                    return True
            elif v is False:
                if fails_under(t.orelse, member, enum_name, side):
                    return True
        elif isinstance(t, Rep):
            if fails_under(t.body, member, enum_name, side):
                return True
        elif isinstance(t, Fail):
            return True
    return False


def format_guards(rep, cd: Codecs, u, rule="codec-symmetry"):
    prog = cd.prog
    k = enum_of_unit(prog, u)
    if k is None or u.cls is None or not any(b.name == "Block" for b in prog.mro(u.cls)):
        return
    members = prog.enum_members(k)
    W = normalise(u.wterms, "w")
    R = normalise(u.rterms, "r")
    # sub-codec writers that receive the format as an argument contribute their guards
    for t in walk_terms(u.wterms):
        if isinstance(t, Sub) and any(norm(a) == "self.format" for a in t.args):
            for su in cd.units.values():
                if su.cls is not None and su.writer is not None and su.name != u.name and len(su.writer.params) >= 2 and "format" in su.writer.params:
                    # only the unit the reader pairs it with
                    for rt in walk_terms(u.rterms):
                        if isinstance(rt, Sub) and rt.cls is not None and rt.cls.name == su.name:
                            W = W + normalise(su.wterms, "w")
                            R = R + normalise(su.rterms, "r")
    mod, fn = where(u, "w")
    acc_w, acc_r = [], []
    for m, val in members.items():
        fw = fails_under(W, m, k.name, "w")
        fr = fails_under(R, m, k.name, "r")
        if not fw:
            acc_w.append(m)
        if not fr:
            acc_r.append(m)
        if fw != fr and val != 0:
            side = "writer accepts it but the reader refuses" if not fw else "reader accepts it but the writer refuses"
            node = next((t.node for t in W if isinstance(t, GuardFail)), u.writer.node)
            rep.fail(rule, mod, fn, node, f"[format] format {k.name}.{m}: {side}", construct=f"{u.name} format guard :: {m}")
    if set(a for a in acc_w if members[a] != 0) == set(a for a in acc_r if members[a] != 0):
        rep.ok(rule, f"{u.name}/format: writer and reader accept the same formats {sorted(a for a in acc_r if members[a] != 0)}",
               nontrivial=True)


class _RuleFilter:
    """Report proxy: keeps only some rules of another property's rule set, under a prefixed rule name."""

    def __init__(self, rep, keep, prefix):
        self._rep, self._keep, self._prefix = rep, keep, prefix

    def ok(self, rule, *a, **k):
        if rule in self._keep:
            self._rep.ok(self._prefix + rule, *a, **k)

    def fail(self, rule, *a, **k):
        if rule in self._keep:
            self._rep.fail(self._prefix + rule, *a, **k)

    def __getattr__(self, name):
        return getattr(self._rep, name)


def equivalence_discharge(prog, cd, rep, prefix="atom-equivalence/", extra=()):
    """len(map) == len(items) is used to identify counts; it holds because the two lists are only ever mutated pairwise
    (C15's parallel-init / paired-mutation / handler-keeps-pair rules, re-run here for exactly those classes)."""
    from .c15 import EXPECTED, check_class, resolve_expected
    resolve_expected(prog)
    proxy = _RuleFilter(rep, {"parallel-init", "paired-mutation", "handler-keeps-pair", "container-kind"} | set(extra), prefix)
    for cname, (amap, items) in EXPECTED.items():
        if cname in cd.pairs and cname in cd.units:
            a, b, c, f = cd.pairs[cname]
            rep.attempt(check_class, prog, cd, proxy, cname, amap, items, c)


def run(prog, rep):
    cd = Codecs(prog)
    cd.flag_errors(rep)
    from ..codecs import no_stale_derived_state
    rep.attempt(no_stale_derived_state, prog, cd, rep)
    rep.explanation = (
        "codec-symmetry: every _write/_build pair is abstractly interpreted (no execution) into a layout term "
        "symbolic in every count; the two terms are unified position by position (order, on-disk class and width, "
        "count linkage), the writer's emitted values are substituted into the reader's dataflow and each attribute "
        "the writer reads must be reconstructed as itself (attribute linkage + transform inversion); format guards "
        "are evaluated over every member of the format enum on both sides."
    )
    block_units = [u for u in cd.units.values() if u.name not in ("TdfEntry",)]
    rep.floor("codec-symmetry/units", len(block_units), BLOCK_UNITS_FLOOR)
    nfields = 0
    for u in block_units:
        un = report_unit(rep, cd, u)
        nfields += un.fields
        attr_linkage(rep, cd, u)
        determinism(rep, cd, u)
        item_order(rep, cd, u)
        format_guards(rep, cd, u)
    rep.floor("codec-symmetry/positions", nfields, 110)
    # comments / labels reach the file unaltered only if the string writer refuses what does not fit instead of cutting it
    from .c13 import string_write_rules
    rep.attempt(string_write_rules, prog, rep)

    # the field codecs the interpreter treats as atoms are symmetric themselves (primitive summary)
    from .. import primitives as PR
    rep.attempt(PR.tdftype_primitives, prog, rep)
    from ..staging import staging_dtypes
    rep.attempt(staging_dtypes, prog, rep)
    from ..staging import constructor_dtypes
    rep.attempt(constructor_dtypes, prog, cd, rep)
    rep.attempt(PR.string_codec, prog, rep)
    rep.attempt(PR.date_codec, prog, rep)
    # decoders attach items to their channel through the add method: an explicit channel must be honoured
    equivalence_discharge(prog, cd, rep, extra=("explicit-channel-honoured",))
    # 'the positions of missing-data gaps': the runs the writer emits are the maximal runs of present frames (C05's derivation rule)
    from .c05 import segments_derivation
    rep.attempt(segments_derivation, prog, cd, rep)
    # gap positions survive only if gap frames decode as NaN (runs are derived from NaN)
    from .c05 import nan_prefill
    rep.attempt(nan_prefill, prog, cd, rep)
    for n in cd.notes:
        rep.note(n)
    for a in cd.assumptions:
        rep.assume(a)
    rep.extra["codec_units"] = [u.name for u in block_units]
    rep.extra["positions_unified"] = nfields
    rep.extra["layout_terms"] = {u.name: {"writer": show(u.wterms), "reader": show(u.rterms)} for u in block_units[:4]}
    rep.trusted += [
        "CPython ast parses the language the interpreter runs",
        "numpy: astype(dt).tobytes() and frombuffer(dt) are mutually inverse at the on-disk width",
        "lexical name resolution (no monkey-patching; checked: no exec/eval/setattr/__dict__ in the package)",
    ]
    rep.not_decided += [
        "bit-exact float/NaN-payload preservation through numpy", "integer range of header fields",
        "cp1252 reversibility per character (C13 decides width/terminator/refusal)",
        "empty-vs-None 2D cells",
    ]
