"""C10 open object, disk and reopened file agree (DESIGN 3/C10)."""
from ..container import Container
from .. import mutrules as M


def run(prog, rep):
    from .. import mutrules as _M
    rep.attempt(_M.session_boundary, prog, rep)
    # the table the open object holds is its own: a class-level / shared list is the table of whichever file was entered last
    from .c17 import container_own_state
    rep.attempt(container_own_state, prog, rep)
    ct = Container(prog)
    rep.explanation = (
        "dirty-entry: forward must-pass-through on the mutators' CFGs - every store into the table or into a field of "
        "one of its elements is followed on every normal path by that entry's whole-entry write; slot-position: the "
        "cursor position of each entry write (nearest seek / sequential run on every backward path) is slot HDR+ENT*i "
        "with i the element's list index; flush-on-exit; parse-on-enter; size-from-fs; read-through-handle."
    )
    rep.attempt(lambda: M.dirty_entry(ct, rep))
    rep.attempt(lambda: M.slot_position(ct, rep))
    rep.attempt(lambda: M.flush_on_exit(ct, rep))
    rep.attempt(lambda: M.parse_on_enter(ct, rep))
    rep.attempt(lambda: M.size_from_fs(ct, rep))
    # 'reading a block through the open object gives the same result as decoding the bytes stored on disk': the entry a read uses is
    # looked up in the table itself (first entry of the type / the slot asked for), not in an index kept beside it
    from .c11 import lookup_contract
    # the object agrees with the disk also after a call the HANDLE refuses: no table change may precede the first write in a
    # state where the handle cannot write (allow_write() issued inside a context that was entered read-only)
    from .c08 import table_effects_need_writable
    rep.attempt(table_effects_need_writable, ct, rep, "object-follows-file")
    rep.attempt(lookup_contract, ct, rep)
    rep.attempt(lambda: M.get_block_reads_disk(ct, rep))
    # the table written to disk re-parses to the table in memory: TdfEntry codec symmetric field by field (dates included)
    from ..codecs import Codecs
    from .c01 import attr_linkage, report_unit
    cd = Codecs(prog)
    cd.flag_errors(rep)
    eu = cd.units.get("TdfEntry")
    if eu is not None:
        rep.attempt(report_unit, rep, cd, eu, rule="entry-codec-symmetry")
        rep.attempt(attr_linkage, rep, cd, eu, rule="entry-codec-symmetry")
    # comments / labels reach the file unaltered only if the string writer refuses what does not fit instead of cutting it
    from .c13 import string_write_rules
    rep.attempt(string_write_rules, prog, rep)
    # .. and re-parse to the same text / dates: the string and date codecs the entry codec treats as atoms are themselves inverse
    from .. import primitives as PR
    rep.attempt(PR.string_codec, prog, rep)
    rep.attempt(PR.date_codec, prog, rep)
    # a refused add/remove inside a history must leave table and file as they were (C07's path rule for the two primitives)
    from ..codecs import Codecs as _Codecs
    from .c07 import path_rules
    rep.attempt(path_rules, ct, _Codecs(prog), rep, names=("add_block", "remove_block"), include_setters=False, prefix="refusal-leaves-table/")
    rep.not_decided += ["OS write-back after flush() (no fsync is claimed by the property)"]
