"""C10 open object, disk and reopened file agree (DESIGN 3/C10)."""
from ..container import Container
from .. import mutrules as M


def run(prog, rep):
    ct = Container(prog)
    rep.explanation = (
        "dirty-entry: forward must-pass-through on the mutators' CFGs - every store into the table or into a field of "
        "one of its elements is followed on every normal path by that entry's whole-entry write; slot-position: the "
        "cursor position of each entry write (nearest seek / sequential run on every backward path) is slot HDR+ENT*i "
        "with i the element's list index; flush-on-exit; parse-on-enter; size-from-fs; read-through-handle."
    )
    M.dirty_entry(ct, rep)
    M.slot_position(ct, rep)
    M.flush_on_exit(ct, rep)
    M.parse_on_enter(ct, rep)
    M.size_from_fs(ct, rep)
    M.get_block_reads_disk(ct, rep)
    rep.not_decided += ["OS write-back after flush() (no fsync is claimed by the property)"]
