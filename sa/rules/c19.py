"""C19 constructors refuse mis-shaped arguments (DESIGN 3/C19): E5 truth tables over abstract inputs."""
from __future__ import annotations

import ast

from .. import facts
from ..codecs import Codecs
from ..guards import Desc, Raises, Unknown, run_ctor
from ..index import walk_no_nested
from ..layout import Field, walk_terms
from ..report import AnalysisError, head, norm

ARRAY_PARAMS = [
    ("tdfData3D", "Data3D", ["rotationMatrix", "translationVector", "volume"]),
    ("tdfForce3D", "ForceTorque3D", ["rotationMatrix", "translationVector", "volume"]),
    ("tdfCalibrationData", "CalibrationDataBlock", ["calibration_volume_size", "calibration_volume_rotation_matrix", "calibration_volume_translation_vector"]),
    ("tdfCalibrationData", "SeelabCameraData", ["rotation_matrix", "translation_vector", "focus", "optical_center", "radial_distortion", "decentering", "thin_prism"]),
]
VIEWPORT_COERCION = [("tdfOpticalSystem", "OpticalChannelData", "camera_viewport"), ("tdfCalibrationData", "SeelabCameraData", "view_port"),
                     ("tdfCalibrationData", "BTSCameraData", "view_port")]
OTHER_KINDS = [Desc("NoneType"), Desc("str", length=2), Desc("int"), Desc("list", length=3), Desc("tuple", length=2)]
SHAPES = [(), (0,), (2,), (3,), (4,), (2, 2), (3, 3), (3, 1), (1, 3), (2, 3), (3, 3, 3), (7, 7, 7)]


def writer_shape(cd, cname, param):
    """shape of the codec with which _write emits the attribute that stores `param`."""
    u = cd.units.get(cname)
    if u is None:
        raise AnalysisError(f"anchor vanished: codec unit {cname}")
    summ = facts.init_summary(cd.prog, u.cls)
    attr = next((a for a, v in summ.attrs.items() if isinstance(v, ast.Name) and v.id == param), None)
    if attr is None:
        return None, None
    for t in walk_terms(u.wterms):
        if isinstance(t, Field) and t.role == "data" and norm(t.value) == f"self.{attr}":
            return tuple(t.dt.shape), t
    return None, None


def table(prog, c, f, param, inputs, extra_env=None):
    rows = []
    for d in inputs:
        env = dict(extra_env or {})
        env[param] = d
        try:
            r = run_ctor(prog, c, f.node, env, {param})
        except Unknown as e:
            raise AnalysisError(f"{c.name}.__init__: guard over `{param}` uses a construct the finite evaluation does not model: {e}")
        rows.append((d, r))
    return rows


def guard_stmt(f, param):
    for st in ast.walk(f.node):
        if isinstance(st, ast.If) and any(isinstance(n, ast.Name) and n.id == param for n in ast.walk(st.test)):
            return st
    return f.node


def run(prog, rep):
    cd = Codecs(prog)
    rep.explanation = (
        "each listed constructor guard is evaluated (boolean structure only, Python precedence and short-circuit as in the AST) "
        "on an exhaustive partition of abstract inputs: ndarray of 12 representative shapes (incl. the required one, the one the "
        "guard names, ranks 0-3) plus None, str, scalar, list, tuple. Obligation: accepts <=> ndarray of the shape of the codec "
        "_write uses for that attribute (shape-guard + guard-matches-codec); coupled arrays: refuse unless all three shapes "
        "are equal (8 combinations); viewport: accepts <=> 2-element list/tuple/array; event values."
    )
    n_guards = 0
    # an accepted argument is stored with the shape it was accepted with: a constructor conversion must not change it (converting to a
    # sub-array dtype appends that dtype's shape - the refusal decisions stay right, the accepted block mis-sizes its encoding)
    from ..staging import constructor_dtypes
    rep.attempt(constructor_dtypes, prog, cd, rep, "accepted-shape-is-stored")
    # ---- fixed-shape array parameters
    for modname, cname, params in ARRAY_PARAMS:
        c = prog.need_cls(cname, modname)
        f = prog.need_method(c, "__init__")
        mod = c.module.path.name
        for p in params:
            if p not in f.params:
                raise AnalysisError(f"anchor vanished: {cname}.__init__ parameter {p}")
            req, fld = writer_shape(cd, cname, p)
            if req is None:
                raise AnalysisError(f"{cname}: cannot find the codec that writes parameter {p}")
            n_guards += 1
            inputs = [Desc("ndarray", s) for s in SHAPES if s != req] + [Desc("ndarray", req)] + OTHER_KINDS
            rows = table(prog, c, f, p, inputs)
            wrong = [(d, r) for d, r in rows if (r[0] == "accept") != (d.kind == "ndarray" and d.shape == req)]
            if not wrong:
                rep.ok("shape-guard", f"{cname}({p}): accepts exactly ndarray{req} over {len(rows)} abstract inputs (= shape of {fld.codec.split('.')[-1]} used by _write)",
                       nontrivial=True, sample={"param": f"{cname}.{p}", "rows": [f"{d} -> {r[0]}" for d, r in rows[:6]]})
            else:
                d, r = wrong[0]
                acc = [str(d) for d, r in rows if r[0] == "accept"]
                kind = "guard-matches-codec" if any(d.kind == "ndarray" for d, r in wrong if r[0] == "accept") and not any(d.shape == req and r[0] == "accept" for d, r in rows if d.kind == "ndarray") else "shape-guard"
                rep.fail(kind, mod, f"{cname}.__init__", guard_stmt(f, p),
                         f"argument `{p}` must be an ndarray of shape {req} (the shape {fld.codec.split('.')[-1]} writes); the guard {'accepts' if r[0] == 'accept' else 'refuses'} {d} (accepted set: {acc})",
                         construct=f"{cname}.__init__ guard :: {p}")
    # ---- rank-1 map
    c = prog.need_cls("CalibrationDataBlock", "tdfCalibrationData")
    f = prog.need_method(c, "__init__")
    p = "cameras_calibration_map"
    n_guards += 1
    inputs = [Desc("ndarray", s) for s in SHAPES] + OTHER_KINDS
    rows = table(prog, c, f, p, inputs)
    wrong = [(d, r) for d, r in rows if (r[0] == "accept") != (d.kind == "ndarray" and len(d.shape) == 1)]
    if not wrong:
        rep.ok("shape-guard", f"CalibrationDataBlock({p}): accepts exactly rank-1 ndarrays", nontrivial=True)
    else:
        rep.fail("shape-guard", c.module.path.name, "CalibrationDataBlock.__init__", guard_stmt(f, p), f"`{p}` must be a rank-1 ndarray; the guard {'accepts' if wrong[0][1][0] == 'accept' else 'refuses'} {wrong[0][0]}",
                 construct=f"CalibrationDataBlock.__init__ guard :: {p}")
    # ---- viewport coercion
    for modname, cname, p in VIEWPORT_COERCION:
        c = prog.need_cls(cname, modname)
        f = prog.need_method(c, "__init__")
        n_guards += 1
        inputs = [Desc("CameraViewPort")] + [Desc("ndarray", s) for s in SHAPES] + OTHER_KINDS
        rows = table(prog, c, f, p, inputs)
        wrong = [(d, r) for d, r in rows if (r[0] == "accept") != (d.kind == "CameraViewPort" or (d.kind == "ndarray" and d.shape == (2, 2)))]
        if not wrong:
            rep.ok("viewport-coercion", f"{cname}({p}): accepts exactly CameraViewPort or ndarray(2, 2)", nontrivial=True)
        else:
            rep.fail("viewport-coercion", c.module.path.name, f"{cname}.__init__", guard_stmt(f, p),
                     f"`{p}` must be a CameraViewPort or a (2,2) array; the constructor {'accepts' if wrong[0][1][0] == 'accept' else 'refuses'} {wrong[0][0]}",
                     construct=f"{cname}.__init__ guard :: {p}")
    # ---- viewport itself
    c = prog.need_cls("CameraViewPort", "tdfTypes")
    f = prog.need_method(c, "__init__")
    for p in ("origin", "size"):
        if p not in f.params:
            raise AnalysisError(f"anchor vanished: CameraViewPort.__init__ parameter {p}")
        n_guards += 1
        inputs = [Desc("ndarray", s) for s in SHAPES] + [Desc("list", length=n) for n in (0, 1, 2, 3)] + [Desc("tuple", length=n) for n in (0, 1, 2, 3)] \
            + [Desc("NoneType"), Desc("str", length=2), Desc("int")]
        rows = table(prog, c, f, p, inputs)

        def want(d):
            return (d.kind == "ndarray" and d.shape == (2,)) or (d.kind in ("list", "tuple") and d.length == 2)

        wrong = [(d, r) for d, r in rows if (r[0] == "accept") != want(d)]
        if not wrong:
            rep.ok("viewport-accepts", f"CameraViewPort({p}): accepts exactly 2-element list / tuple / ndarray(2,)", nontrivial=True,
                   sample={"param": f"CameraViewPort.{p}", "rows": [f"{d} -> {r[0]}" for d, r in rows]})
        else:
            desc = "; ".join(f"{d} is {'accepted' if r[0] == 'accept' else 'refused'}" for d, r in wrong[:4])
            rep.fail("viewport-accepts", "tdfTypes.py", "CameraViewPort.__init__", guard_stmt(f, p),
                     f"`{p}` must be accepted iff it is a 2-element list, tuple or array: {desc}", construct=f"CameraViewPort.__init__ guard :: {p}")
    # ---- coupled arrays
    c = prog.need_cls("ForceTorqueTrack", "tdfForce3D")
    f = prog.need_method(c, "__init__")
    names = [p for p in f.params if p != "label"][:3]
    n_guards += 1
    shapes = [(5, 3), (4, 3)]
    bad = None
    combos = 0
    for a in shapes:
        for b in shapes:
            for cc in shapes:
                combos += 1
                env = {names[0]: Desc("ndarray", a), names[1]: Desc("ndarray", b), names[2]: Desc("ndarray", cc)}
                try:
                    r = run_ctor(prog, c, f.node, env, set(names))
                except Unknown as e:
                    raise AnalysisError(f"ForceTorqueTrack.__init__: coupled guard not modelled: {e}")
                if (r[0] == "accept") != (a == b == cc):
                    bad = (a, b, cc, r)
    if bad is None:
        rep.ok("coupled-shape", f"ForceTorqueTrack: refuses unless all three shapes are equal ({combos} combinations)", nontrivial=True)
    else:
        rep.fail("coupled-shape", "tdfForce3D.py", "ForceTorqueTrack.__init__", guard_stmt(f, names[0]),
                 f"shapes {bad[0]}, {bad[1]}, {bad[2]} are {'accepted' if bad[3][0] == 'accept' else 'refused'}: the three arrays must have one common shape",
                 construct="ForceTorqueTrack.__init__ coupled guard")
    # ---- the helper the event guard relies on
    utils = prog.modules.get("tdfUtils")
    h = utils.functions.get("is_iterable") if utils else None
    if h is None:
        raise AnalysisError("anchor vanished: tdfUtils.is_iterable")
    body = [s_ for s_ in h.node.body if not (isinstance(s_, ast.Expr) and isinstance(s_.value, ast.Constant))]
    # `return True` as the last statement of the try body, in its else clause, or right after it (the handler leaves): the same paths
    after_ok = [b for b in (body[0].body[-1:] + body[0].orelse + body[1:]) if isinstance(b, ast.Return)] if body and isinstance(body[0], ast.Try) else []
    good = len(body) in (1, 2) and isinstance(body[0], ast.Try) and not body[0].finalbody \
        and any(isinstance(x, ast.Call) and norm(x.func) == "iter" and [norm(a) for a in x.args] == h.params[:1] for b in body[0].body for x in ast.walk(b)) \
        and len(after_ok) == 1 and norm(after_ok[0].value) == "True" and len(body[0].handlers) == 1 \
        and any(hd.type is not None and norm(hd.type) == "TypeError" and any(isinstance(b, ast.Return) and norm(b.value) == "False" for b in hd.body) for hd in body[0].handlers)
    if good:
        rep.ok("event-values", "tdfUtils.is_iterable = try iter(obj) -> True except TypeError -> False")
    else:
        rep.fail("event-values", "tdfUtils.py", "is_iterable", h.node, "is_iterable no longer decides by calling iter(obj): objects that merely have an __iter__ attribute (0-d arrays) or other non-iterables are let through", construct="def is_iterable")
    # ---- events
    c = prog.need_cls("Event", "tdfEvents")
    f = prog.need_method(c, "__init__")
    n_guards += 1
    rows = []
    for tname in ("EventsDataType.singleEvent", "EventsDataType.eventSequence"):
        for d in [Desc("list", length=0), Desc("list", length=1), Desc("list", length=2), Desc("list", length=3), Desc("ndarray", (2,)), Desc("ndarray", (1,)),
                  Desc("ndarray", (1,), dtype="<f4"), Desc("ndarray", (2,), dtype="<f4"), Desc("ndarray", (4,), dtype="<f4"), Desc("ndarray", (0,), dtype="<f4"),
                  Desc("tuple", length=2), Desc("NoneType"), Desc("int"), Desc("ndarray", ())]:
            env = {"values": d, "type": ("sym", tname)}
            try:
                r = run_ctor(prog, c, f.node, env, {"values"})
            except Unknown as e:
                raise AnalysisError(f"Event.__init__: guard not modelled: {e}")
            except Raises as e:
                r = ("refuse", e.exc)
            n = None
            try:
                n = d.len()
            except Raises:
                pass
            want = d.iterable() and not (tname.endswith("singleEvent") and n is not None and n > 1)
            rows.append((tname, d, r, want))
    wrong = [x for x in rows if (x[2][0] == "accept") != x[3]]
    te = [x for x in rows if x[2][0] == "refuse" and x[2][1] != "TypeError"]
    if not wrong and not te:
        rep.ok("event-values", f"Event: non-iterables and >1 value for a single event are refused with TypeError ({len(rows)} rows)", nontrivial=True)
    elif wrong:
        t, d, r, w = wrong[0]
        rep.fail("event-values", "tdfEvents.py", "Event.__init__", guard_stmt(f, "values"), f"values={d} with type={t} is {'accepted' if r[0] == 'accept' else 'refused'}",
                 construct="Event.__init__ guard :: values")
    else:
        t, d, r, w = te[0]
        rep.fail("event-values", "tdfEvents.py", "Event.__init__", guard_stmt(f, "values"), f"values={d} is refused with {r[1]}, not TypeError", construct="Event.__init__ guard :: exception type")
    # the guards sit in the constructors: an attribute they validate is stored by the constructor only - code of the package that
    # assigns it on an existing object (a decoder that builds an empty object and fills it in) creates objects no guard has seen
    guarded = {("Event", "values")}
    for modname, cname, params in ARRAY_PARAMS:
        for p_ in params:
            guarded.add((cname, p_))
    names = {a for _, a in guarded}
    for m_ in prog.modules.values():
        for fn in [x for c_ in m_.classes.values() for x in c_.all_funcs()] + list(m_.functions.values()):
            if fn.name == "__init__":
                continue
            for st in walk_no_nested(fn.node):
                tgs = st.targets if isinstance(st, ast.Assign) else [st.target] if isinstance(st, (ast.AugAssign, ast.AnnAssign)) else []
                for t in tgs:
                    if isinstance(t, ast.Attribute) and t.attr in names and isinstance(t.value, ast.Name) and t.value.id not in ("self", "cls"):
                        # which class is the object? a local built by a constructor call of a guarded class
                        defs = [a for a in walk_no_nested(fn.node) if isinstance(a, ast.Assign) and len(a.targets) == 1 and isinstance(a.targets[0], ast.Name)
                                and a.targets[0].id == t.value.id and isinstance(a.value, ast.Call) and isinstance(a.value.func, ast.Name)]
                        k = defs[0].value.func.id if len(defs) == 1 else None
                        if k is not None and (k, t.attr) in guarded:
                            rep.fail("event-values" if k == "Event" else "shape-guard", m_.path.name, fn.qualname, st,
                                     f"`{norm(head(st))[:60]}` stores `{t.attr}` on a {k} after it was constructed: the checks of {k}.__init__ never see that value "
                                     "(a single event with several values, a mis-shaped array)", construct=f"{fn.qualname} assigns {k}.{t.attr} outside the constructor")
    rep.ok("shape-guard", f"validated attributes ({len(guarded)}) are stored by their constructors only")
    rep.floor("guards", n_guards, 24)
    rep.not_decided += ["dtype acceptability (a (3,) array of strings)", "arguments the property does not list (BTSCameraData matrices; they surface as C02 assumptions)"]
