"""C05 gaps survive storage; gap frames read as NaN (DESIGN 3/C05)."""
from __future__ import annotations

import ast

from .. import facts
from ..codecs import Codecs
from ..layout import Alloc, Alt, Field, Fill, Rep, Ret, Store, Construct, walk_terms, has_stream
from ..report import AnalysisError, head, norm
from ..sym import canon, equal
from ..unify import normalise

NAN = ("np.nan", "np.NaN", "np.NAN", "numpy.nan", "float('nan')", 'float("nan")', "math.nan", "nan")
FLOOR_KINDS = 4


def strip_first_component(e):
    """X.T[0] | X.T | X[:, 0] | X  -> (X, how)"""
    if isinstance(e, ast.Subscript) and norm(e.slice) == "0" and isinstance(e.value, ast.Attribute) and e.value.attr == "T":
        return e.value.value, ".T[0]"
    if isinstance(e, ast.Attribute) and e.attr == "T":
        return e.value, ".T"
    if isinstance(e, ast.Subscript) and norm(e.slice).replace(" ", "") in ("(slice(None,None,None),0)", ":,0"):
        return e.value, "[:,0]"
    if isinstance(e, ast.Subscript) and isinstance(e.slice, ast.Tuple) and len(e.slice.elts) == 2 and norm(e.slice.elts[1]) == "0" and isinstance(e.slice.elts[0], ast.Slice):
        return e.value, "[:,0]"
    return e, ""


def segments_derivation(prog, cd, rep, rule="segments-derivation"):
    n = 0
    kinds = []
    for u in cd.units.values():
        c = u.cls
        g = c.get("_segments", "getter")
        if g is None:
            continue
        n += 1
        mod = c.module.path.name
        e = facts.property_body_expr(prog, c, "_segments")
        okk = False
        why = "not of the form np.ma.clump_unmasked(np.ma.masked_invalid(self.<presence attribute>)[first component])"
        presence = None
        if e is not None and isinstance(e, ast.Call) and norm(e.func) in ("np.ma.clump_unmasked", "numpy.ma.clump_unmasked") and len(e.args) == 1:
            inner, how = strip_first_component(e.args[0])
            if isinstance(inner, ast.Call) and norm(inner.func) in ("np.ma.masked_invalid", "numpy.ma.masked_invalid") and len(inner.args) == 1 and not inner.keywords:
                a = inner.args[0]
                if isinstance(a, ast.Attribute) and norm(a.value) == "self":
                    presence = a.attr
                    okk = True
            else:
                why = f"mask is built by `{norm(inner.func) if isinstance(inner, ast.Call) else norm(inner)}`, not np.ma.masked_invalid (NaN is the gap marker)"
        if okk:
            rep.ok(rule, f"{c.name}._segments = clump_unmasked(masked_invalid(self.{presence}){how})", nontrivial=True)
            kinds.append((u, presence))
        else:
            rep.fail(rule, mod, f"{c.name}._segments", g.node, f"run derivation is {why}: `{norm(e)}`", construct=f"{c.name}._segments")
        # no storing setter
        s = c.get("_segments", "setter")
        if s is not None:
            stores = [x for x in ast.walk(s.node) if isinstance(x, (ast.Assign, ast.AugAssign))]
            if stores:
                rep.fail(rule, mod, f"{c.name}._segments.setter", s.node, "the segment list can be stored independently of the data")
            else:
                rep.ok(rule, f"{c.name}._segments setter refuses")
    rep.floor(rule, n, FLOOR_KINDS)
    return kinds


def single_source(prog, cd, rep, kinds, rule="segments-single-source"):
    for u, presence in kinds:
        c = u.cls
        mod = c.module.path.name
        fq = f"{c.name}._write"
        W = normalise(u.wterms, "w")
        reps = [t for t in W if isinstance(t, Rep) and t.kind == "coll" and has_stream(t)]
        table = [t for t in reps if all(isinstance(x, Field) and x.dt.nscalars == 1 and x.dt.kind != "V" for x in t.body if has_stream(x)) and len([x for x in t.body if has_stream(x)]) == 2]
        data = [t for t in reps if t not in table]
        if len(table) != 1 or not data:
            rep.fail(rule, mod, fq, u.writer.node, "segment table loop / data loop structure not recognised (one 2-column table loop and at least one data loop expected)",
                     construct=f"{fq} loops")
            continue
        tb = table[0]
        src = canon(tb.over, cd.unify(u).ctx)
        if src != "self._segments":
            rep.fail(rule, mod, fq, tb.node, f"segment table is written from `{src}`, not from the runs derived from the data (self._segments)")
        else:
            rep.ok(rule, f"{fq}: table rows come from self._segments")
        v = tb.vars[0]
        cols = [x for x in tb.body if has_stream(x)]
        un = cd.unify(u)
        w0, w1 = f"{v}.start", f"-1*{v}.start + {v}.stop"
        c0 = canon(cols[0].value, un.ctx).replace(" ", "")
        c1 = canon(cols[1].value, un.ctx).replace(" ", "")
        if c0 == w0 and c1 == w1.replace(" ", ""):
            rep.ok(rule, f"{fq}: rows are (start, stop - start)", nontrivial=True)
        else:
            rep.fail(rule, mod, fq, cols[1].stmt or cols[1].node, f"table row is (`{norm(cols[0].value)}`, `{norm(cols[1].value)}`), expected (s.start, s.stop - s.start)")
        for d in data:
            if canon(d.over, un.ctx) == src:
                rep.ok(rule, f"{fq}: data loop iterates the same runs as the table", nontrivial=True)
            else:
                rep.fail(rule, mod, fq, d.node, f"data loop iterates `{norm(d.over)}` while the table was written from `{src}`: table and data can disagree")
                continue
            # data written for s are rows s.start..s.stop-1 of every component
            dv = d.vars[0]
            comps = []

            def walk(ts, lo_hi):
                for t in ts:
                    if isinstance(t, Rep) and t.kind == "range":
                        walk(t.body, (t.lo, t.hi, t.vars[0]))
                    elif isinstance(t, Field) and t.role == "data":
                        comps.append((t, lo_hi))

            walk(d.body, None)
            for t, lh in comps:
                val = t.value
                good = False
                if lh is None:
                    if isinstance(val, ast.Subscript) and norm(val.slice) == dv and norm(val.value).startswith("self."):
                        good = True
                    elif isinstance(val, ast.Subscript) and isinstance(val.slice, ast.Slice) and norm(val.slice.lower) == f"{dv}.start" and norm(val.slice.upper) == f"{dv}.stop":
                        good = True
                    elif isinstance(val, ast.Call):
                        k = un.packed_any(val) if isinstance(val.func, ast.Attribute) and (norm(val.func.value) == "self" or norm(val.func).endswith("rec.fromarrays")) else None
                        if k and len(k) == 3:
                            good = all(norm(a.slice.lower) == f"{dv}.start" and norm(a.slice.upper) == f"{dv}.stop" for a in k[2])
                else:
                    lo, hi, fv = lh
                    good = norm(lo) == f"{dv}.start" and norm(hi) == f"{dv}.stop" and isinstance(val, ast.Subscript) and norm(val.slice) == fv
                if good:
                    rep.ok(rule, f"{fq}: `{norm(val)}` covers rows start..stop-1 of the run", nontrivial=True)
                else:
                    rep.fail(rule, mod, fq, t.stmt or t.node, f"data written for a run is `{norm(val)}`, not the rows [s.start, s.stop) of the component")
        # nBytes iterates the same runs
        g = prog.lookup_method(c, "nBytes", "getter")
        if g is not None:
            uses = [x for x in ast.walk(g.node) if isinstance(x, ast.Attribute) and x.attr == "_segments"]
            if uses:
                rep.ok(rule, f"{c.name}.nBytes sizes the same runs (self._segments)")


def nan_prefill(prog, cd, rep, rule="nan-prefill"):
    n = 0
    for u in cd.units.values():
        c = u.cls
        R = u.rterms
        mod = c.module.path.name
        fq = f"{c.name}.{u.reader.name}"
        allocs = [t for t in walk_terms(R) if isinstance(t, Alloc)]
        if not allocs:
            continue
        top_index = {id(t): i for i, t in enumerate(R)}
        for a in allocs:
            n += 1
            dts = norm(a.dtype) if a.dtype is not None else ""
            if dts in ("object", "np.object_", "'O'", "'object'"):
                rep.ok(rule, f"{fq}: `{a.name}` is an object array (initialised to None)")
                continue
            if a.func.startswith("np.full") and a.fill is not None and norm(a.fill) in NAN:
                rep.ok(rule, f"{fq}: `{a.name}` allocated by np.full(nan)")
                continue
            if id(a) not in top_index:
                rep.fail(rule, mod, fq, a.node, f"buffer `{a.name}` is allocated inside a branch or loop; definite initialisation is not established")
                continue
            ai = top_index[id(a)]
            fill_i = None
            for i in range(ai + 1, len(R)):
                t = R[i]
                if isinstance(t, Fill) and t.name == a.name:
                    fill_i = i
                    fill = t
                    break
                # first partial store or escape before a fill
                touched = any((isinstance(x, Store) and x.name == a.name) for x in walk_terms([t]))
                escaped = any(isinstance(x, (Ret, Construct)) and a.name in norm(getattr(x, "value", None) or "") for x in walk_terms([t]))
                if isinstance(t, Construct):
                    escaped = escaped or any(a.name in {nn.id for nn in ast.walk(arg) if isinstance(nn, ast.Name)} for arg in list(t.args) + list(t.kwargs.values()))
                if touched or escaped:
                    break
            if fill_i is None:
                rep.fail(rule, mod, fq, a.node, f"buffer `{a.name}` from {a.func} is never filled before data is copied in / it is returned: gap frames expose uninitialised memory")
            elif norm(fill.value) not in NAN:
                rep.fail(rule, mod, fq, fill.node, f"buffer `{a.name}` is pre-filled with `{norm(fill.value)}`, not NaN: gap frames do not read as missing")
            else:
                rep.ok(rule, f"{fq}: `{a.name}` = {a.func}(...) then `{a.name}[:] = {norm(fill.value)}` before the first partial store", nontrivial=True)
            # length is a parameter of the decoder (the block's frame count), bound before any loop rebinding it
            ln = a.length
            if isinstance(ln, ast.Name) and ln.id in u.reader.params:
                rebinding_before = False
                for i in range(0, ai):
                    t = R[i]
                    if isinstance(t, Rep) and ln.id in t.vars:
                        rebinding_before = True
                if rebinding_before:
                    rep.fail(rule, mod, fq, a.node, f"`{ln.id}` was rebound by a loop before the allocation: the buffer length is a segment length, not the block's frame count")
                else:
                    rep.ok(rule, f"{fq}: `{a.name}` has the length of parameter `{ln.id}` (the block's frame count)")
            elif isinstance(ln, ast.Tuple):
                pass
            else:
                rep.fail(rule, mod, fq, a.node, f"buffer `{a.name}` length `{norm(ln)}` is not the decoder's frame-count parameter")
    rep.floor(rule, n, 7)


def buffer_origin(prog, cd, rep, kinds, rule="nan-prefill"):
    """Every buffer a gap-coded decoder copies runs into is allocated by that call (np.empty / np.full ...). A buffer obtained
    from a cached helper is one object shared by all decodes of that length."""
    for u, presence in kinds:
        c = u.cls
        mod, fq = c.module.path.name, f"{c.name}.{u.reader.name}"
        allocs = {t.name for t in walk_terms(u.rterms) if isinstance(t, Alloc)}
        stored = {t.name: t for t in walk_terms(u.rterms) if isinstance(t, Store)}
        for name, st in stored.items():
            if name in allocs:
                continue
            defs = [s for s in ast.walk(u.reader.node) if isinstance(s, ast.Assign) and any(isinstance(t, ast.Name) and t.id == name for t in s.targets)]
            if not defs:
                rep.fail(rule, mod, fq, st.node, f"runs are copied into `{name}`, which is not allocated in this call")
                continue
            v = defs[0].value
            callee = None
            if isinstance(v, ast.Call):
                root = v.func
                while isinstance(root, ast.Attribute):
                    root = root.value
                if isinstance(v.func, ast.Name):
                    r = prog.resolve(c.module, v.func.id)
                    if r and r[0] == "func":
                        callee = r[1]
                # helper(...).copy() is a fresh object
                if isinstance(v.func, ast.Attribute) and v.func.attr == "copy":
                    rep.ok(rule, f"{fq}: `{name}` is a private copy")
                    continue
            if callee is not None and any("cache" in d for d in callee.decorators):
                rep.fail(rule, mod, fq, defs[0], f"decode buffer `{name}` comes from the cached helper {callee.name}() without a copy: every decode of that length shares one array (gap frames show earlier data, decoded tracks change later)")
            elif callee is not None:
                body = [s for s in callee.node.body if not (isinstance(s, ast.Expr) and isinstance(s.value, ast.Constant))]
                retv = body[-1].value if body and isinstance(body[-1], ast.Return) else None
                if len(body) == 1 and isinstance(retv, ast.Call) and norm(retv.func) == "np.full" and len(retv.args) > 1 and norm(retv.args[1]) in NAN:
                    rep.ok(rule, f"{fq}: `{name}` = {callee.name}() returns a fresh np.full(nan) buffer")
                else:
                    raise AnalysisError(f"{fq}: decode buffer `{name}` comes from helper {callee.name}() whose body is not modelled")
            else:
                raise AnalysisError(f"{fq}: origin of decode buffer `{name}` (`{norm(v)}`) is not modelled")


def reader_stores(prog, cd, rep, kinds, rule="segment-stores"):
    for u, presence in kinds:
        un = cd.unify(u)
        c = u.cls
        mod = c.module.path.name
        fq = f"{c.name}.{u.reader.name}"
        if not un.stores:
            rep.fail(rule, mod, fq, u.reader.node, "decoder copies no segment data into its buffers", construct=f"{fq} stores")
            continue
        for name, sts in un.stores.items():
            for idx, val, node, t in sts:
                if t is not None:
                    rep.ok(rule, f"{fq}: `{name}[{norm(idx)}]` receives exactly the rows the writer emitted for that run ({norm(t)})", nontrivial=True)
                else:
                    rep.fail(rule, mod, fq, node, f"store `{name}[{norm(idx)}] = {norm(val)}` does not put a run's data at the run's own frames")


_ALLOC = {"np.empty", "np.full", "np.zeros", "np.ones", "numpy.empty", "numpy.full", "numpy.zeros", "numpy.ones", "np.empty_like", "np.full_like", "np.zeros_like"}


def _is_nan(v):
    return norm(v) in ("np.nan", "np.NaN", "np.NAN", "numpy.nan", "math.nan", "float('nan')", "float('NaN')", "nan")


def decoded_frames_untouched(prog, cd, rep, kinds, rule="decoded-frames-untouched"):
    """'every frame inside a run carries its stored value': the buffers a decoder of a gapped record allocates receive (a) the
    whole-buffer NaN pre-fill, before any data, and (b) rows read from the stream - nothing else.  A later store of a constant, of
    NaN under a mask, or of values computed from other decoded fields replaces stored samples (or turns present frames into gaps)
    although the bytes say otherwise.  Decided over the decoder's statements in the normal form (views `B['field']` count as B)."""
    n = 0
    for u, presence in kinds:
        f = u.reader
        mod, fq = f.module.path.name, f.qualname
        bufs = set()
        for st in ast.walk(f.node):
            if isinstance(st, ast.Assign) and len(st.targets) == 1 and isinstance(st.targets[0], ast.Name) and isinstance(st.value, ast.Call) and norm(st.value.func) in _ALLOC:
                bufs.add(st.targets[0].id)
        # views of a buffer bound to a local
        changed = True
        while changed:
            changed = False
            for st in ast.walk(f.node):
                if isinstance(st, ast.Assign) and len(st.targets) == 1 and isinstance(st.targets[0], ast.Name) and st.targets[0].id not in bufs:
                    v = st.value
                    while isinstance(v, (ast.Subscript, ast.Attribute)):
                        v = v.value
                    if isinstance(v, ast.Name) and v.id in bufs and isinstance(st.value, (ast.Subscript, ast.Attribute)):
                        bufs.add(st.targets[0].id)
                        changed = True

        def base(t):
            while isinstance(t, (ast.Subscript, ast.Attribute)):
                t = t.value
            return t.id if isinstance(t, ast.Name) else None

        def from_stream(v):
            return any(isinstance(x, ast.Call) and isinstance(x.func, ast.Attribute) and x.func.attr in ("bread", "read", "_build") for x in ast.walk(v)) \
                or any(isinstance(x, ast.Call) and norm(x.func) in ("np.frombuffer", "np.fromfile", "numpy.frombuffer") for x in ast.walk(v))

        stream_names = set()
        for st in ast.walk(f.node):
            if isinstance(st, ast.Assign) and from_stream(st.value):
                stream_names |= {x.id for t in st.targets for x in ast.walk(t) if isinstance(x, ast.Name)}
            if isinstance(st, ast.For) and (from_stream(st.iter) or any(isinstance(x, ast.Name) and x.id in stream_names for x in ast.walk(st.iter))):
                stream_names |= {x.id for x in ast.walk(st.target) if isinstance(x, ast.Name)}
        stores = []
        for st in ast.walk(f.node):
            if isinstance(st, (ast.Assign, ast.AugAssign)):
                for t in (st.targets if isinstance(st, ast.Assign) else [st.target]):
                    if isinstance(t, ast.Subscript) and base(t) in bufs:
                        stores.append((st, t))
            elif isinstance(st, ast.Expr) and isinstance(st.value, ast.Call) and isinstance(st.value.func, ast.Attribute) and st.value.func.attr in ("fill", "put", "itemset") \
                    and base(st.value.func.value) in bufs:
                stores.append((st, None))
            elif isinstance(st, ast.Expr) and isinstance(st.value, ast.Call) and norm(st.value.func) in ("np.put", "np.place", "np.putmask", "np.copyto") and st.value.args and base(st.value.args[0]) in bufs:
                stores.append((st, None))
        # statement order in the (normal-form) body: line numbers are useless after inlining (an inlined helper keeps its own)
        order = {}

        def number(stmts):
            for s_ in stmts:
                order[id(s_)] = len(order)
                for fld in ("body", "orelse", "finalbody"):
                    number(getattr(s_, fld, []) or [])
                for h_ in getattr(s_, "handlers", []) or []:
                    number(h_.body)
        number(f.node.body)
        pos = lambda s_: order.get(id(s_), 10 ** 9)
        first_data = min([pos(st) for st, t in stores if t is not None and (from_stream(st.value) or any(isinstance(x, ast.Name) and x.id in stream_names for x in ast.walk(st.value)))] or [10 ** 9])
        for st, t in sorted(stores, key=lambda p: pos(p[0])):
            n += 1
            val = st.value if not isinstance(st, ast.Expr) else (st.value.args[-1] if st.value.args else None)
            data = val is not None and isinstance(st, ast.Assign) and (from_stream(val) or any(isinstance(x, ast.Name) and x.id in stream_names for x in ast.walk(val)))
            whole = t is None and isinstance(st, ast.Expr) and st.value.func.attr == "fill" if t is None and isinstance(st.value, ast.Call) and isinstance(st.value.func, ast.Attribute) else \
                (t is not None and isinstance(t.value, ast.Name) and ((isinstance(t.slice, ast.Slice) and t.slice.lower is None and t.slice.upper is None and t.slice.step is None) or isinstance(t.slice, ast.Constant) and t.slice.value is Ellipsis))
            if data:
                rep.ok(rule, f"{fq}: `{norm(head(st))[:70]}` stores rows read from the stream")
            elif val is not None and _is_nan(val) and whole and pos(st) <= first_data:
                rep.ok(rule, f"{fq}: `{norm(head(st))[:50]}` is the whole-buffer NaN pre-fill, before any data")
            else:
                rep.fail(rule, mod, fq, st, f"`{norm(head(st))[:80]}` changes the decoder's buffer with something that is not the whole-buffer NaN pre-fill and not rows read from the stream: "
                         "frames the bytes store come back altered (or as gaps) although the bytes are a correct encoding", construct=f"{fq} alters decoded frames: {norm(head(st))[:60]}")
    rep.floor(rule, n, 4)


def gap_reader_accepts(prog, cd, rep, gap_units, rule="gap-reader-accepts"):
    """'For every pattern of missing frames' the decoder takes what the writer emits: the decoder of a gapped record has no
    refusal of its own (a `raise` under a condition over the run table it has just read rejects some patterns - runs one frame
    apart, a single run, no run - although the writer produces them)."""
    from ..layout import Fail, walk_terms
    n = 0
    for u in [u for u in cd.units.values() if u.name in gap_units]:
        n += 1
        mod, fq = u.reader.module.path.name, u.reader.qualname
        fails = [t for t in walk_terms(u.rterms) if isinstance(t, Fail)]
        raises = [x for x in ast.walk(u.reader.node) if isinstance(x, ast.Raise)]
        if fails or raises:
            node = fails[0].node if fails else raises[0]
            rep.fail(rule, mod, fq, node, f"`{norm(head(node))[:70]}`: the decoder of a gapped record can refuse a run table; the writer emits every pattern of runs, so some stored pattern no longer decodes",
                     construct=f"{fq} raises")
        else:
            rep.ok(rule, f"{fq}: no refusal in the decoder of the gapped record", nontrivial=True)
    rep.floor(rule, n, 4)


def run(prog, rep):
    cd = Codecs(prog)
    cd.flag_errors(rep)
    from ..codecs import no_stale_derived_state
    rep.attempt(no_stale_derived_state, prog, cd, rep)
    rep.explanation = (
        "segments-derivation: each _segments property is the canonical numpy composition clump_unmasked(masked_invalid(x)); "
        "segments-single-source: table loop and data loops of _write iterate the same runs, rows are (start, stop-start), data "
        "are rows [start, stop) of every component (from the layout terms); nan-prefill: definite initialisation - each "
        "np.empty buffer of a decoder receives a whole-buffer NaN store before its first partial store and before it escapes; "
        "segment-stores: decoder stores land on the run's own frames (symbolic index equality after substituting the writer's table)."
    )
    kinds = rep.attempt(segments_derivation, prog, cd, rep) or []
    rep.attempt(single_source, prog, cd, rep, kinds)
    rep.attempt(nan_prefill, prog, cd, rep)
    rep.attempt(buffer_origin, prog, cd, rep, kinds)
    rep.attempt(reader_stores, prog, cd, rep, kinds)
    rep.attempt(decoded_frames_untouched, prog, cd, rep, kinds)
    # stored in a FILE, the runs of a gapped track survive only if the track declares the bytes it writes: the container places the
    # next block at offset + nBytes, so a track that under-declares its run table has its last frames overwritten (C02's identity,
    # here for the gap-capable records only)
    from .c02 import size_identity
    gap_units = {u.name for u in cd.units.values() if u.cls is not None and u.cls.get("_segments", "getter") is not None}
    # the blocks that hold such records: a block that drops a record without runs, or declares its size from its first record only,
    # loses gaps just as well (the all-missing track vanishes; the last runs of a longer track are overwritten by the next block)
    from ..layout import Sub, walk_terms as _wt
    holders = {u.name for u in cd.units.values() if u.rterms is not None and any(isinstance(t, Sub) and t.cls is not None and t.cls.name in gap_units for t in _wt(u.rterms))}  # (the decoder names the record class)
    rep.attempt(size_identity, prog, cd, rep, with_consumed=False, only=gap_units | holders)
    # .. and a gapped record is decoded from a STREAM of records: its decoder must consume, on every path (a record without runs
    # included), exactly the fields its writer emits, or every following record of the block is read from the wrong position
    from .c01 import report_unit
    from .c01 import attr_linkage
    for u in [u for u in cd.units.values() if u.name in gap_units | holders]:
        rep.attempt(report_unit, rep, cd, u, rule="gap-record-symmetry")
    # .. and what a holder decodes into its record list is the list it encodes (every record, the all-missing one included)
    # .. and what a gapped record decodes into its sample arrays is what it encodes (a constructor that re-arranges what the decoder
    # hands it - a transpose for a particular frame count - moves the NaN rows, i.e. the gaps)
    for u in [u for u in cd.units.values() if u.name in holders | gap_units]:
        rep.attempt(attr_linkage, rep, cd, u, rule="gap-record-symmetry")
    rep.attempt(gap_reader_accepts, prog, cd, rep, gap_units)
    # 'identically on every decode of the same bytes' - also through the container: every get_block decodes from the handle, at the
    # entry's offset, into a fresh object (a block remembered on the Tdf object hands a caller's in-memory gap edits, or the decode
    # of bytes another handle has since replaced, out as the decode of the file)
    from .. import mutrules as _MR
    from ..container import Container as _Ct
    _ct = _Ct(prog)
    rep.attempt(_MR.get_block_reads_disk, _ct, rep, "decode-reads-the-bytes")
    rep.trusted += ["numpy contract: masked_invalid + clump_unmasked return the maximal runs of non-NaN entries as increasing, disjoint, non-adjacent slices"]
    rep.not_decided += ["the numpy contract itself over all 2^n masks", "tracks whose components disagree on where the NaNs are"]
