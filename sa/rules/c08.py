"""C08 files change only inside a write-enabled context (DESIGN 3/C08): effect-owners, handle-discipline,
mode-lifecycle, guard-table (typestate model extracted from the AST), reader-purity."""
from __future__ import annotations

import ast
import itertools

from .. import mutrules as M
from ..codecs import Codecs
from ..container import Container
from ..index import is_self_attr, walk_no_nested
from ..layout import Raw, Sub, walk_terms
from ..report import AnalysisError, head, norm
from .c17 import creating_calls

OWNERS = {("basictdf", "Tdf.add_block"), ("basictdf", "Tdf.remove_block"), ("basictdf", "Tdf.new"), ("basictdf", "Tdf.copy")}
MUTATORS = ("add_block", "remove_block", "replace_block")
EMBEDDED_EFFECT_EXAMPLE = "def f(self):\n    open(self.file_path, 'r+b').write(b'x')\n    self.file_path.unlink()\n"
OS_EFFECTS = ("os.remove", "os.unlink", "os.rename", "os.replace", "os.truncate", "os.ftruncate", "os.write", "shutil.rmtree", "shutil.move", "os.chmod")
PATH_EFFECTS = ("unlink", "rename", "replace", "write_bytes", "write_text", "touch", "rmdir", "chmod")


def direct_file_effects(fn):
    """Calls that can change a file other than through a stream passed in by the caller."""
    out = [(c, how) for c, p, how, mode in creating_calls(fn)]
    for c in walk_no_nested(fn):
        if isinstance(c, ast.Call):
            name = norm(c.func)
            if name in OS_EFFECTS:
                out.append((c, name))
            elif isinstance(c.func, ast.Attribute) and c.func.attr in PATH_EFFECTS and not any(x is c for x, _ in out):
                out.append((c, "." + c.func.attr))
            elif isinstance(c.func, ast.Attribute) and c.func.attr == "truncate":
                out.append((c, ".truncate"))
    return out


def self_check():
    fn = ast.parse(EMBEDDED_EFFECT_EXAMPLE).body[0]
    assert len(direct_file_effects(fn)) >= 2, "embedded file-effect example no longer matches"


# ------------------------------------------------------------------------------------------------ rule 1
def effect_owners(ct: Container, rep, rule="effect-owners"):
    prog = ct.prog
    n = 0
    for m in prog.modules.values():
        for f in [x for c in m.classes.values() for x in c.all_funcs()] + list(m.functions.values()):
            q = (m.name, f.qualname)
            effs = direct_file_effects(f.node)
            for c, how in effs:
                n += 1
                on_handle = isinstance(c.func, ast.Attribute) and is_self_attr(c.func.value, ct.handle)
                if q in OWNERS and q[1] in ("Tdf.add_block", "Tdf.remove_block") and not on_handle:
                    # the two mutators are protected by the handle (closed outside a context, read-only in a plain one):
                    # an effect that names the file by its PATH is not
                    rep.fail(rule, m.path.name, f.qualname, c, f"`{how}` in {f.qualname} changes the file through its path, not through self.{ct.handle}: "
                             "neither a closed handle nor a read-only one stops it, so the refusal comes after the file has changed")
                elif q in OWNERS:
                    rep.ok(rule, f"{m.name}.{f.qualname}: `{how}` (owner)")
                else:
                    rep.fail(rule, m.path.name, f.qualname, c, f"`{how}` can change a file outside the four owners of file effects (add_block, remove_block, new, copy): it bypasses the write-context discipline")
    # handle effects inside Tdf: only in add_block / remove_block
    for ff in ct.all_facts():
        evs = ff.ev(*M.FILE_EFFECTS)
        for e in evs:
            n += 1
            if ff.f.name in ("add_block", "remove_block") and ff.f.kind == "method":
                rep.ok(rule, f"Tdf.{ff.f.name}: `{norm(head(e.stmt))[:60]}` goes through self.{ct.handle}")
            else:
                rep.fail(rule, ct.mod.path.name, f"Tdf.{ff.f.name}", e.stmt, "a method other than add_block / remove_block writes through the handle")
    rep.floor(rule, n, 8)


# ------------------------------------------------------------------------------------------------ rule 2,3
_CFGS = {}


def on_every_path(fn, stmt):
    """stmt executes on every path from the function's entry to a normal return (CFG, normal edges)."""
    from ..cfg import CFG
    cfg = _CFGS.get(id(fn))
    if cfg is None:
        cfg = _CFGS[id(fn)] = CFG(fn, exc_edges=False)
    n = cfg.node_of(stmt)
    if n is None:
        return False
    return cfg.all_paths_pass(cfg.entry, cfg.exit, lambda x: x.id == n.id)


def const_stores(fn, attr):
    """[(value constant or None, stmt, conditional?)] stores self.<attr> = <const> in fn."""
    out = []
    for st in walk_no_nested(fn):
        if isinstance(st, (ast.Assign, ast.AnnAssign)):
            for t in (st.targets if isinstance(st, ast.Assign) else [st.target]):
                if is_self_attr(t, attr):
                    v = st.value.value if isinstance(st.value, ast.Constant) else None
                    out.append((v, st, not on_every_path(fn, st), isinstance(st.value, ast.Constant)))
    return out


def through_local(fn, v):
    """a plain local bound exactly once in fn stands for its definition"""
    if isinstance(v, ast.Name):
        defs = [m for m in walk_no_nested(fn) if isinstance(m, ast.Assign) and len(m.targets) == 1 and isinstance(m.targets[0], ast.Name) and m.targets[0].id == v.id]
        if len(defs) == 1:
            return defs[0].value
    return v


def open_mode_arg(call):
    """the mode argument of <path>.open(...) - positional or keyword"""
    if call.args:
        return call.args[0]
    return next((k.value for k in call.keywords if k.arg == "mode"), None)


def wrapper_paths(inner, meth):
    """[(guards, kind, forwards, with_self)] for every way the wrapper function can end"""
    from ..facts import path_returns
    selfp = inner.args.args[0].arg
    out = []
    for pe in path_returns(inner):
        nodes = list(pe.effects) + ([pe.value] if pe.value is not None and pe.kind == "return" else [])
        fwd = sum(1 for r in nodes for x in ast.walk(r) if isinstance(x, ast.Call) and norm(x.func) == meth)
        with_self = any(isinstance(e, ast.Expr) and isinstance(e.value, ast.Name) and e.value.id == selfp for e in pe.effects)
        out.append((pe.guards, pe.kind, fwd, with_self, pe))
    return out


def handle_discipline(ct: Container, rep, rule="handle-discipline"):
    tdf = ct.tdf
    mod = ct.mod.path.name
    # handler assigned only in __enter__, from file_path.open(self._mode)
    n = 0
    for f in tdf.all_funcs():
        for st in walk_no_nested(f.node):
            if isinstance(st, (ast.Assign, ast.AnnAssign)):
                for t in (st.targets if isinstance(st, ast.Assign) else [st.target]):
                    if is_self_attr(t, ct.handle):
                        n += 1
                        v = through_local(f.node, st.value)
                        okk = f.name == "__enter__" and isinstance(v, ast.Call) and isinstance(v.func, ast.Attribute) and v.func.attr == "open" \
                            and norm(v.func.value) == "self.file_path" and len(v.args) + len(v.keywords) == 1 and open_mode_arg(v) is not None \
                            and norm(ct.facts("__enter__").resolve(open_mode_arg(v))) == "self._mode"
                        if okk:
                            rep.ok(rule, f"Tdf.{f.name}: handle = self.file_path.open(self._mode)", nontrivial=True)
                        else:
                            rep.fail(rule, mod, f"Tdf.{f.name}", st, "the handle is (re)assigned other than by `self.file_path.open(self._mode)` in __enter__ (a literal mode or a second open bypasses allow_write())")
    rep.floor(rule + "/handle-assign", n, 1)
    # __exit__: three unconditional statements
    ex = ct.prog.need_method(tdf, "__exit__")
    need = {"close": False, "mode": False, "inside": False}
    top = [s for s in walk_no_nested(ex.node) if isinstance(s, ast.stmt) and s is not ex.node and not isinstance(s, ast.Try) and on_every_path(ex.node, s)]
    top += [s for s in ex.node.body if isinstance(s, ast.Try)]
    for s in top:
        if isinstance(s, ast.Expr) and isinstance(s.value, ast.Call) and norm(s.value.func) == f"self.{ct.handle}.close":
            need["close"] = True
        if isinstance(s, ast.Assign) and is_self_attr(s.targets[0], "_mode") and isinstance(s.value, ast.Constant) and s.value.value == "rb":
            need["mode"] = True
        if isinstance(s, ast.Assign) and is_self_attr(s.targets[0], "_inside_context") and isinstance(s.value, ast.Constant) and s.value.value is False:
            need["inside"] = True
        if isinstance(s, ast.Try) and s.finalbody:
            for x in s.finalbody:
                if isinstance(x, ast.Expr) and isinstance(x.value, ast.Call) and norm(x.value.func) == f"self.{ct.handle}.close":
                    need["close"] = True
    what = {"close": f"self.{ct.handle}.close()", "mode": 'self._mode = "rb"', "inside": "self._inside_context = False"}
    for k, v in need.items():
        if v:
            rep.ok(rule, f"Tdf.__exit__: `{what[k]}` executes unconditionally")
        else:
            rep.fail(rule, mod, "Tdf.__exit__", ex.node, f"`{what[k]}` is not executed on every path of __exit__ (missing, conditional or after an early return)",
                     construct=f"Tdf.__exit__ :: {what[k]}")
    # `with tdf as t:` hands out what __enter__ returns: the object itself, on every path (the normal form relies on it for `with self as v`)
    from ..facts import path_returns as _pr
    ent = ct.prog.need_method(tdf, "__enter__")
    rets_ = [pe for pe in _pr(ent.node) if pe.kind == "return"]
    if rets_ and all(isinstance(pe.value, ast.Name) and pe.value.id == (ent.self_name or "self") for pe in rets_):
        rep.ok(rule, "Tdf.__enter__ returns the object itself on every path")
    else:
        badr = next((pe for pe in rets_ if not (isinstance(pe.value, ast.Name) and pe.value.id == (ent.self_name or "self"))), None)
        rep.fail(rule, mod, "Tdf.__enter__", badr.node if badr is not None else ent.node, "__enter__ does not return the object itself on every path: `with Tdf(p) as t:` hands out something else than the opened file",
                 construct="Tdf.__enter__ return value")
    # __exit__ tells `with` to swallow the exception leaving the block when it returns something truthy: a refusal raised inside
    # `with tdf:` would then never reach the caller.  Every return of __exit__ is bare / None / False.
    truthy_exit = False
    for r_ in [x for x in walk_no_nested(ex.node) if isinstance(x, ast.Return)]:
        if r_.value is None or (isinstance(r_.value, ast.Constant) and r_.value.value in (None, False)):
            continue
        truthy_exit = True
        rep.fail(rule, mod, "Tdf.__exit__", r_, f"__exit__ returns `{norm(r_.value)}`: a truthy result makes the with-statement swallow the exception that left the block, so a refusal "
                 "(PermissionError, OutsideOfContextError, ValueError) raised inside `with tdf:` does not reach the caller", construct="Tdf.__exit__ return value")
    if not truthy_exit:
        rep.ok(rule, "Tdf.__exit__: returns nothing truthy on any path (exceptions leaving the block propagate)")
    # a generator method must not hold an implicit context open across its yields: between two items the caller's code runs with the
    # handle open and the object marked as inside a context (mutators pass their guards), and an abandoned iteration never closes it
    ngen = 0
    for f in tdf.all_funcs():
        for w_ in [x for x in walk_no_nested(f.node) if isinstance(x, ast.With)]:
            if any(isinstance(i_.context_expr, ast.Name) and i_.context_expr.id == "self" for i_ in w_.items) and \
                    any(isinstance(y, (ast.Yield, ast.YieldFrom)) for b in w_.body for y in ast.walk(b)):
                ngen += 1
                rep.fail(rule, mod, f"Tdf.{f.name}", w_, "`with self:` is held open across a yield: while the caller consumes the items the implicitly opened handle stays open and the "
                         "object counts as inside a context", construct=f"Tdf.{f.name} yields inside `with self`")
    if not ngen:
        rep.ok(rule, "no method of Tdf yields from inside `with self:`")
    # no method re-enters the object from inside a context: leaving the inner `with self:` runs __exit__, which closes the handle and
    # resets mode and flag of the SURROUNDING session (every later operation of that session is then refused)
    from ..facts import path_returns
    nre = 0
    for f in tdf.all_funcs():
        if f.name in ("__enter__", "__exit__"):
            continue
        has_with = any(isinstance(w_, ast.With) and any(isinstance(i_.context_expr, ast.Name) and i_.context_expr.id == "self" for i_ in w_.items) for w_ in walk_no_nested(f.node)) \
            or any(isinstance(c_, ast.Call) and norm(c_.func) in ("self.__enter__", "self.__exit__") for c_ in walk_no_nested(f.node))
        if not has_with:
            continue
        nre += 1
        bad = None
        if any(isinstance(c_, ast.Call) and norm(c_.func) in ("self.__enter__", "self.__exit__") for c_ in walk_no_nested(f.node)):
            bad = "calls self.__enter__ / self.__exit__ directly"
        else:
            for pe in path_returns(f.node):
                if not any(isinstance(e, ast.Expr) and isinstance(e.value, ast.Name) and e.value.id == "self" for e in pe.effects):
                    continue
                try:
                    feasible_inside = all(eval_guard(t, (True, "rb", "none", False)) == pol for t, pol in pe.guards)
                except AnalysisError:
                    feasible_inside = True
                if feasible_inside:
                    bad = "enters `with self:` on a path that is also taken inside an open context"
        if bad:
            wnode = next((w_ for w_ in walk_no_nested(f.node) if isinstance(w_, ast.With)), f.node)
            rep.fail(rule, mod, f"Tdf.{f.name}", wnode, f"{bad}: leaving it closes the handle and ends the surrounding session",
                     construct=f"Tdf.{f.name} re-enters self")
        else:
            rep.ok(rule, f"Tdf.{f.name}: `with self:` only when not inside a context", nontrivial=True)
    # wrappers
    utils = ct.prog.modules.get("tdfUtils")
    if utils is None:
        raise AnalysisError("anchor vanished: tdfUtils.py")
    for wname in ("raise_if_outside_context", "raise_if_outside_write_context", "provide_context_if_needed"):
        w = utils.functions.get(wname)
        if w is None:
            raise AnalysisError(f"anchor vanished: tdfUtils.{wname}")
        inner = next((s for s in w.node.body if isinstance(s, ast.FunctionDef)), None)
        if inner is None:
            raise AnalysisError(f"tdfUtils.{wname}: no inner wrapper function")
        # forwards to the wrapped method exactly once on each non-raising path (path summaries)
        meth = w.params[0]
        selfp = inner.args.args[0].arg
        paths = wrapper_paths(inner, meth)
        live = [p_ for p_ in paths if p_[1] != "raise"]
        once = bool(live) and all(p_[2] == 1 for p_ in live)
        if wname == "provide_context_if_needed":
            good = once
            for guards, kind, fwd, with_self, pe in live:
                for inside in (True, False):
                    try:
                        feasible = all(eval_guard(t, (inside, "rb", "none", False)) == pol for t, pol in guards)
                    except AnalysisError:
                        feasible = True
                    if feasible and with_self != (not inside):
                        good = False
            if good:
                rep.ok(rule, "provide_context_if_needed: enters `with self:` (so __exit__ pairs with __enter__) only when not already inside", nontrivial=True)
            else:
                rep.fail(rule, "tdfUtils.py", wname, inner, "the implicit context is not opened with `with self:` exactly when not inside a context")
        else:
            if once:
                rep.ok(rule, f"{wname}: forwards to the wrapped method exactly once")
            else:
                rep.fail(rule, "tdfUtils.py", wname, inner, "the guard wrapper does not forward to the wrapped method exactly once")


def enter_failure_releases(prog, rep, rule="handle-discipline"):
    """`with` does not call __exit__ when __enter__ raises.  Everything __enter__ does after opening the handle (comparing the
    signature, decoding header and table - each can raise on a file that is not a TDF or is cut short) is therefore inside a
    try whose handler closes the handle, resets the context flag and re-raises; otherwise every reader applied to such a file
    leaves the handle it opened implicitly open and the object marked as inside a context.  Decided on the un-normalised source
    (the normal form drops this protective wrapper, which only matters on the failing path)."""
    import ast as _ast
    src = (prog.src / "basictdf.py").read_text()
    tree = _ast.parse(src)
    # the success-flag spelling of the same protection (`ok = False; try: ..; ok = True finally: if not ok: cleanup`) is brought to the
    # handler form first - a local rewrite that does not touch the wrapper this rule is about
    from ..normalize import _success_flag_finally
    _success_flag_finally(tree)
    tdf = next((c for c in tree.body if isinstance(c, _ast.ClassDef) and c.name == "Tdf"), None)
    if tdf is None:
        raise AnalysisError("anchor vanished: class Tdf")
    meths = {m.name: m for m in tdf.body if isinstance(m, _ast.FunctionDef)}
    enter = meths.get("__enter__")
    if enter is None:
        raise AnalysisError("anchor vanished: Tdf.__enter__")
    opens = lambda n: any(isinstance(c, _ast.Call) and ((isinstance(c.func, _ast.Attribute) and c.func.attr == "open") or norm(c.func) == "open") for c in _ast.walk(n))

    def releasing(h):
        caught = [norm(x) for x in (h.type.elts if isinstance(h.type, _ast.Tuple) else [h.type])] if h.type is not None else ["BaseException"]
        if not any(c_.split(".")[-1] in ("BaseException", "Exception") for c_ in caught):
            return False
        # what the handler does, private helpers of the class it calls included (one level)
        scope = [h] + [meths[c.func.attr] for c in _ast.walk(h) if isinstance(c, _ast.Call) and isinstance(c.func, _ast.Attribute) and isinstance(c.func.value, _ast.Name)
                       and c.func.value.id == "self" and c.func.attr in meths and c.func.attr not in ("__enter__",)]
        calls = [norm(c.func) for sc in scope for c in _ast.walk(sc) if isinstance(c, _ast.Call)]
        via_exit = any(c_ == "self.__exit__" for c_ in calls)
        closes = via_exit or any(c_.endswith(".close") for c_ in calls)
        resets = via_exit or any(isinstance(a, _ast.Assign) and any(norm(t) == "self._inside_context" for t in a.targets) and isinstance(a.value, _ast.Constant) and a.value.value is False
                                 for sc in scope for a in _ast.walk(sc))
        reraises = bool(h.body) and isinstance(h.body[-1], _ast.Raise) and h.body[-1].exc is None
        return closes and resets and reraises

    def protected(body):
        """the statements of `body` from the one that opens the handle on (a trailing `return` of a name aside) sit in a try with a releasing handler"""
        for i, st in enumerate(body):
            if isinstance(st, _ast.Try) and any(releasing(h) for h in st.handlers):
                inner_opens = any(opens(b) or helper_opens(b) for b in st.body)
                if inner_opens:
                    return all(isinstance(x, _ast.Return) for x in body[i + 1:])
                continue
            if opens(st) or helper_opens(st):
                return False
        return None

    def helper_opens(st):
        for c in _ast.walk(st):
            if isinstance(c, _ast.Call) and isinstance(c.func, _ast.Attribute) and isinstance(c.func.value, _ast.Name) and c.func.value.id == "self" and c.func.attr in meths \
                    and c.func.attr not in ("__enter__", "__exit__") and opens(meths[c.func.attr]):
                return True
        return False

    verdict = protected(enter.body)
    if verdict:
        rep.ok(rule, "Tdf.__enter__: a failure after the handle was opened closes it, resets the context flag and re-raises", nontrivial=True)
    else:
        first = next((st for st in enter.body if opens(st) or helper_opens(st)), enter)
        rep.fail(rule, "basictdf.py", "Tdf.__enter__", first,
                 "what __enter__ does after opening the handle (signature comparison, decoding of header and table) is not protected: when it raises - a file that is not a TDF, "
                 "a truncated table - `with` does not call __exit__, so the handle a reader opened implicitly stays open and the object stays marked as inside a context",
                 construct="Tdf.__enter__ failure after open")


def _enter_failure_helpers(prog):
    """Private methods of Tdf that the un-normalised source calls only from an except handler of __enter__ that re-raises: part of
    __enter__'s failing path (the normal form drops that handler).  They may withdraw access state (mode 'rb', flag False), nothing else."""
    tree = ast.parse((prog.src / "basictdf.py").read_text())
    tdf = next((c for c in tree.body if isinstance(c, ast.ClassDef) and c.name == "Tdf"), None)
    if tdf is None:
        return set()
    meths = {m.name: m for m in tdf.body if isinstance(m, ast.FunctionDef)}
    enter = meths.get("__enter__")
    if enter is None:
        return set()
    in_handler = set()
    for t in [x for x in ast.walk(enter) if isinstance(x, ast.Try)]:
        for h in t.handlers:
            if h.body and isinstance(h.body[-1], ast.Raise) and h.body[-1].exc is None:
                in_handler |= {id(c) for c in ast.walk(h) if isinstance(c, ast.Call)}
    out = set()
    for name, m in meths.items():
        if not name.startswith("_") or name.startswith("__"):
            continue
        sites = []
        for pth in sorted(prog.src.glob("*.py")):
            tr = tree if pth.name == "basictdf.py" else ast.parse(pth.read_text())
            sites += [c for c in ast.walk(tr) if (isinstance(c, ast.Attribute) and c.attr == name) or (isinstance(c, ast.Constant) and c.value == name)]
        calls = [c for c in ast.walk(tree) if isinstance(c, ast.Call) and isinstance(c.func, ast.Attribute) and c.func.attr == name]
        if calls and len(calls) == len(sites) and all(id(c) in in_handler for c in calls):
            stores = [a for a in ast.walk(m) if isinstance(a, (ast.Assign, ast.AugAssign, ast.AnnAssign))]
            tgs = lambda a: a.targets if isinstance(a, ast.Assign) else [a.target]
            withdraws = all(all(isinstance(t, ast.Name) for t in tgs(a)) or
                            (isinstance(a, ast.Assign) and isinstance(a.value, ast.Constant) and all((norm(t), a.value.value) in (("self._mode", "rb"), ("self._inside_context", False)) for t in a.targets))
                            for a in stores) and not any(isinstance(c, ast.Call) and norm(c.func) in ("setattr", "self.__dict__.update", "vars") for c in ast.walk(m))
            if withdraws:
                out.add(name)
    return out


def mode_lifecycle(ct: Container, rep, rule="mode-lifecycle"):
    tdf = ct.tdf
    mod = ct.mod.path.name
    n = 0
    failure_helpers = _enter_failure_helpers(ct.prog)
    for f in tdf.all_funcs():
        if f.name in failure_helpers:
            rep.ok(rule, f"Tdf.{f.name}: called only from __enter__'s re-raising handler; withdraws access state only")
            continue
        for v, st, cond, is_const in const_stores(f.node, "_mode"):
            n += 1
            allowed = {"__init__": ("rb",), "__exit__": ("rb",), "allow_write": ("r+b",)}
            if is_const and v in allowed.get(f.name, ()):
                rep.ok(rule, f"Tdf.{f.name}: _mode = {v!r}")
            else:
                rep.fail(rule, mod, f"Tdf.{f.name}", st, f"`{norm(st)}`: the access mode may only be set to 'rb' by __init__/__exit__ and to 'r+b' by allow_write()")
    rep.floor(rule, n, 3)
    # ... and nowhere else in the package (a decorator wrapper that saves and restores `_mode` around its implicit context keeps a
    # permission alive that __exit__ has just withdrawn); the typestate machine below is extracted from the four owners only
    owners = {"__init__", "allow_write", "__enter__", "__exit__"}
    for m in ct.prog.modules.values():
        for fnode in [x for x in ast.walk(m.tree) if isinstance(x, ast.FunctionDef)]:
            in_tdf = any(f.node is fnode for f in tdf.all_funcs())
            if in_tdf and (fnode.name in owners or fnode.name in failure_helpers):
                continue
            for x in walk_no_nested(fnode):
                tg = []
                if isinstance(x, (ast.Assign, ast.AugAssign, ast.AnnAssign)):
                    tg = x.targets if isinstance(x, ast.Assign) else [x.target]
                elif isinstance(x, ast.Call) and norm(x.func) == "setattr" and len(x.args) >= 2 and isinstance(x.args[1], ast.Constant):
                    if x.args[1].value in ("_mode", "_inside_context"):
                        rep.fail(rule, m.path.name, fnode.name, x, f"`{norm(x)[:60]}` sets the access state outside __init__ / allow_write / __enter__ / __exit__", construct=f"{fnode.name} sets access state")
                for t in tg:
                    for y in ast.walk(t):
                        if isinstance(y, ast.Attribute) and isinstance(y.ctx, ast.Store) and y.attr in ("_mode", "_inside_context"):
                            rep.fail(rule, m.path.name, fnode.name, x, f"`{norm(x)[:60]}` sets the access state outside __init__ / allow_write / __enter__ / __exit__: "
                                     "the permission / context flag no longer follows the with-statement life cycle the guards rely on", construct=f"{fnode.name} sets access state")
    # write permission is granted by the caller only: no method of the class calls allow_write() itself
    for f in tdf.all_funcs():
        for c in walk_no_nested(f.node):
            if isinstance(c, ast.Call) and isinstance(c.func, ast.Attribute) and c.func.attr == "allow_write":
                rep.fail(rule, mod, f"Tdf.{f.name}", c, "the library grants itself write permission (allow_write() called inside the class): the returned/used object is writable without the caller having asked")
    # no other write-capable mode literal in instance methods of Tdf
    for f in tdf.all_funcs():
        if f.name in ("new",):
            continue
        for c in walk_no_nested(f.node):
            if isinstance(c, ast.Constant) and isinstance(c.value, str) and c.value in ("r+b", "rb+", "wb", "w+b", "ab", "a+b", "r+", "w", "a", "xb") and f.name not in ("allow_write",):
                # comparisons against the mode are fine; passing it to open is not
                parent_calls = [x for x in walk_no_nested(f.node) if isinstance(x, ast.Call) and any(a is c for a in x.args) and isinstance(x.func, ast.Attribute) and x.func.attr == "open"]
                # an exclusive creation ('x') fails on every existing file: it cannot change the bytes of a file that is there
                if parent_calls and "x" not in c.value:
                    rep.fail(rule, mod, f"Tdf.{f.name}", parent_calls[0], f"a write-capable mode literal {c.value!r} is passed to open()")


# ------------------------------------------------------------------------------------------------ rule 4: typestate
class Model:
    """Typestate machine of the Tdf handle, extracted from __init__, allow_write, __enter__, __exit__."""

    def __init__(self, ct: Container):
        self.ct = ct
        tdf = ct.tdf
        prog = ct.prog

        def effects(fname):
            f = prog.need_method(tdf, fname)
            out = {"mode": [], "inside": [], "open": None, "close": [], "f": f}
            for v, st, cond, is_const in const_stores(f.node, "_mode"):
                out["mode"].append((v if is_const else "?", cond))
            for v, st, cond, is_const in const_stores(f.node, "_inside_context"):
                out["inside"].append((v if is_const else "?", cond))
            for st in walk_no_nested(f.node):
                if isinstance(st, (ast.Assign, ast.AnnAssign)):
                    t = st.targets[0] if isinstance(st, ast.Assign) else st.target
                    val = through_local(f.node, st.value)
                    if is_self_attr(t, ct.handle) and isinstance(val, ast.Call) and isinstance(val.func, ast.Attribute) and val.func.attr == "open":
                        a = open_mode_arg(val)
                        out["open"] = ("field" if a is not None and norm(a) == "self._mode" else (a.value if isinstance(a, ast.Constant) else "?"), not on_every_path(f.node, st))
                if isinstance(st, ast.Expr) and isinstance(st.value, ast.Call) and norm(st.value.func) == f"self.{ct.handle}.close":
                    in_finally = any(isinstance(t, ast.Try) and any(x is st for b in t.finalbody for x in ast.walk(b)) for t in f.node.body)
                    out["close"].append(not (on_every_path(f.node, st) or in_finally))
            return out

        self.init = effects("__init__")
        self.aw = effects("allow_write")
        self.enter = effects("__enter__")
        self.exit = effects("__exit__")

    def initial(self):
        mode = next((v for v, c in self.init["mode"]), "rb")
        inside = next((v for v, c in self.init["inside"]), False)
        return (inside, mode, "none", False)

    @staticmethod
    def _apply(vals, cur):
        """possible values after a list of (value, conditional) stores"""
        outs = {cur}
        for v, cond in vals:
            if cond:
                outs = outs | {v}
            else:
                outs = {v}
        return outs

    def step(self, s, op):
        inside, mode, handle, aw = s
        res = set()
        if op == "allow_write":
            for m in self._apply(self.aw["mode"], mode):
                for i in self._apply(self.aw["inside"], inside):
                    res.add((i, m, handle, True))
        elif op == "enter":
            for i in self._apply(self.enter["inside"], inside):
                for m in self._apply(self.enter["mode"], mode):
                    o = self.enter["open"]
                    hs = {handle}
                    if o is not None:
                        how, cond = o
                        opened_mode = mode if how == "field" else how
                        h = "rw" if isinstance(opened_mode, str) and ("+" in opened_mode or "w" in opened_mode or "a" in opened_mode) else "ro"
                        hs = {h} | ({handle} if cond else set())
                    for h in hs:
                        res.add((i, m, h, aw))
        elif op == "exit":
            for i in self._apply(self.exit["inside"], inside):
                for m in self._apply(self.exit["mode"], mode):
                    closes = self.exit["close"]
                    if handle in ("ro", "rw"):
                        hs = set()
                        if not closes:
                            hs = {handle}
                        else:
                            hs = {"closed"} | ({handle} if all(closes) else set())
                    else:
                        hs = {handle}
                    for h in hs:
                        res.add((i, m, h, False))
        return res

    def reachable(self):
        seen = {self.initial()}
        trans = 0
        frontier = [self.initial()]
        while frontier:
            s = frontier.pop()
            for op in ("allow_write", "enter", "exit"):
                if op == "exit" and s[2] == "none":
                    continue  # __exit__ only runs after a successful __enter__ (with-statement pairing, rule 2)
                for t in self.step(s, op):
                    trans += 1
                    if t not in seen:
                        seen.add(t)
                        frontier.append(t)
        return seen, trans


def eval_guard(cond, state):
    """Evaluate a guard expression over (inside, mode)."""
    inside, mode, handle, aw = state

    def ev(n):
        if isinstance(n, ast.UnaryOp) and isinstance(n.op, ast.Not):
            return not ev(n.operand)
        if isinstance(n, ast.BoolOp):
            vals = [ev(v) for v in n.values]
            return all(vals) if isinstance(n.op, ast.And) else any(vals)
        if isinstance(n, ast.Attribute) and n.attr == "_inside_context":
            return inside
        if isinstance(n, ast.Attribute) and n.attr == "_mode":
            return mode
        # self.<handle>.writable(): the handle's own answer - True only for one opened read-write.  Asked of a closed handle it
        # raises ValueError, of a missing one AttributeError: either way the call ends there, before any effect, which for a
        # refusing guard `if not handle.writable(): raise` is the same outcome as False
        if isinstance(n, ast.Call) and isinstance(n.func, ast.Attribute) and n.func.attr == "writable" and not n.args and not n.keywords \
                and isinstance(n.func.value, ast.Attribute) and isinstance(n.func.value.value, ast.Name) and n.func.value.value.id == "self":
            return handle == "rw"
        if isinstance(n, ast.Constant):
            return n.value
        if isinstance(n, ast.Call) and norm(n.func) == "bool" and len(n.args) == 1:
            return bool(ev(n.args[0]))
        if isinstance(n, ast.Compare) and len(n.ops) == 1 and isinstance(n.ops[0], (ast.Is, ast.IsNot)) and isinstance(n.comparators[0], ast.Constant) \
                and isinstance(n.comparators[0].value, bool):
            r = ev(n.left) is n.comparators[0].value
            return r if isinstance(n.ops[0], ast.Is) else not r
        if isinstance(n, ast.Compare) and len(n.ops) == 1:
            a, b = ev(n.left), ev(n.comparators[0])
            op = n.ops[0]
            if isinstance(op, ast.Eq):
                return a == b
            if isinstance(op, ast.NotEq):
                return a != b
            if isinstance(op, ast.In):
                return a in b
            if isinstance(op, ast.NotIn):
                return a not in b
        raise AnalysisError(f"guard expression not modelled by the typestate evaluation: `{norm(n)}`")

    return bool(ev(cond))


def wrapper_guards(ct: Container):
    """decorator name -> (condition under which the wrapper refuses (raises) or None, provides context?) - from the path
    summaries of the inner wrapper function: the disjunction over its raising paths of the conjunction of their guards"""
    from ..facts import path_returns
    utils = ct.prog.modules["tdfUtils"]
    out = {}
    for name, w in utils.functions.items():
        inner = next((s for s in w.node.body if isinstance(s, ast.FunctionDef)), None)
        if inner is None:
            continue
        disj = []
        for pe in path_returns(inner):
            if pe.kind != "raise":
                continue
            conj = [t if pol else ast.UnaryOp(op=ast.Not(), operand=t) for t, pol in pe.guards]
            disj.append(conj[0] if len(conj) == 1 else (ast.BoolOp(op=ast.And(), values=conj) if conj else ast.Constant(value=True)))
        guard = None if not disj else (disj[0] if len(disj) == 1 else ast.BoolOp(op=ast.Or(), values=disj))
        provides = any(isinstance(s, ast.With) for s in walk_no_nested(inner))
        out[name] = (guard, provides)
    # module-level aliases of a guard decorator (`_changes_file = raise_if_outside_write_context`) are the same decorator object
    changed = True
    while changed:
        changed = False
        for m in ct.prog.modules.values():
            for st in m.tree.body:
                if isinstance(st, ast.Assign) and len(st.targets) == 1 and isinstance(st.targets[0], ast.Name) and isinstance(st.value, ast.Name) \
                        and st.value.id in out and st.targets[0].id not in out:
                    out[st.targets[0].id] = out[st.value.id]
                    changed = True
    return out


def body_guards(ct: Container, ff):
    """`if <cond over self._mode/_inside_context>: raise` statements that dominate every file effect of the method."""
    out = []
    effs = ff.ev(*M.FILE_EFFECTS)
    for st in walk_no_nested(ff.f.node):
        if isinstance(st, ast.If) and st.body and isinstance(st.body[-1], ast.Raise) and not st.orelse:
            names = {n.attr for n in ast.walk(st.test) if isinstance(n, ast.Attribute) and is_self_attr(n)}
            if names and names <= {"_mode", "_inside_context", ct.handle}:
                cn = ff.cfg.node_of(st)
                if effs and all(ff.cfg.dominates(cn, e.node) for e in effs):
                    out.append(st.test)
    return out


def table_effects_need_writable(ct: Container, rep, rule="session-table-follows-file"):
    """add_block / remove_block change the in-memory table before they write.  In an access state where their guards let the call
    through but the open handle cannot write (a plain context; a context entered read-only in which allow_write() was called
    afterwards), the handle refuses the first write - after the table was changed: for the rest of that session presence checks,
    length and lookups describe a file that does not exist.  So over every reachable access state inside a context, the guards
    that dominate all table and file effects refuse unless the handle is open read-write."""
    model = Model(ct)
    states, _ = model.reachable()
    wg = wrapper_guards(ct)
    mod = ct.mod.path.name
    _TE = ("table_store", "table_append", "table_remove", "table_rebind")
    for name in ("add_block", "remove_block"):
        ff = ct.facts(name)
        decs = [d for d in ff.f.decorators if d in wg]
        effs = ff.ev(*M.FILE_EFFECTS, *_TE)
        conds = [wg[d][0] for d in decs if wg[d][0] is not None]
        for st in walk_no_nested(ff.f.node):
            if isinstance(st, ast.If) and st.body and isinstance(st.body[-1], ast.Raise) and not st.orelse:
                names = {n.attr for n in ast.walk(st.test) if isinstance(n, ast.Attribute) and isinstance(n.value, ast.Name) and n.value.id == "self"}
                if names and names <= {"_mode", "_inside_context", ct.handle} and effs and all(ff.cfg.dominates(ff.cfg.node_of(st), e.node) for e in effs):
                    conds.append(st.test)
        # 'the same mutation issued inside a plain (read-only) context RAISES': the refusal also dominates every normal exit - a
        # path that returns early (nothing to remove, nothing to do) before the handle was asked does not raise there
        conds_exit = [wg[d][0] for d in decs if wg[d][0] is not None]
        for st in walk_no_nested(ff.f.node):
            if isinstance(st, ast.If) and st.body and isinstance(st.body[-1], ast.Raise) and not st.orelse:
                names = {n.attr for n in ast.walk(st.test) if isinstance(n, ast.Attribute) and isinstance(n.value, ast.Name) and n.value.id == "self"}
                if names and names <= {"_mode", "_inside_context", ct.handle} and ff.cfg.dominates(ff.cfg.node_of(st), ff.cfg.exit):
                    conds_exit.append(st.test)
        silent = [s_ for s_ in sorted(states, key=str) if s_[0] and s_[2] != "rw" and not any(eval_guard(c, s_) for c in conds_exit)]
        if rule == "read-only-refusal" and silent and not [s_ for s_ in silent if not any(eval_guard(c, s_) for c in conds)]:
            s_ = silent[0]
            rets = [x for x in walk_no_nested(ff.f.node) if isinstance(x, ast.Return)]
            early = next((r for r in rets if not any(isinstance(st, ast.If) and st.body and isinstance(st.body[-1], ast.Raise) and {n.attr for n in ast.walk(st.test) if isinstance(n, ast.Attribute)} & {ct.handle, "_mode"}
                                                     and ff.cfg.dominates(ff.cfg.node_of(st), ff.cfg.node_of(r)) for st in walk_no_nested(ff.f.node))), ff.f.node)
            rep.fail(rule, mod, f"Tdf.{name}", early, f"in access state (inside={s_[0]}, mode={s_[1]!r}, handle={s_[2]}) a path of {name} returns normally before anything asked whether the handle can write: "
                     "the mutation issued in a read-only context does not raise", construct=f"Tdf.{name} returns before the read-only refusal")
        bad = [s_ for s_ in sorted(states, key=str) if s_[0] and s_[2] != "rw" and not any(eval_guard(c, s_) for c in conds)]
        if not bad:
            rep.ok(rule, f"Tdf.{name}: in every reachable in-context access state without a read-write handle the call is refused before any table or file effect", nontrivial=True)
        else:
            s_ = bad[0]
            how = "a plain (read-only) context" if s_[1] == "rb" else "a context entered read-only in which allow_write() was called afterwards"
            rep.fail(rule, mod, f"Tdf.{name}", ff.f.node, f"in access state (inside={s_[0]}, mode={s_[1]!r}, handle={s_[2]}) - {how} - nothing refuses the call before the in-memory table is changed: "
                     "the handle rejects the write only afterwards, and for the rest of the session presence checks, length and lookups report a table the file does not have",
                     construct=f"Tdf.{name} read-only refusal")


def guard_table(ct: Container, rep, rule="guard-table"):
    model = Model(ct)
    states, trans = model.reachable()
    rep.extra["typestate"] = {"states": sorted(map(str, states)), "transitions_explored": trans,
                              "state_tuple": "(inside_context, mode, handle, allow_write_since_last_exit)"}
    wg = wrapper_guards(ct)
    mod = ct.mod.path.name
    n = 0
    for name in ("add_block", "remove_block"):
        ff = ct.facts(name)
        fq = f"Tdf.{name}"
        decs = [d for d in ff.f.decorators if d in wg]
        conds = [wg[d][0] for d in decs if wg[d][0] is not None] + body_guards(ct, ff)
        bad = []
        table = []
        for s in sorted(states, key=str):
            n += 1
            passes = not any(eval_guard(c, s) for c in conds)
            inside, mode, handle, aw = s
            if not passes:
                verdict = "refused by guard"
            elif handle in ("none", "closed"):
                verdict = "refused by the handle (never opened / closed)"
            elif handle == "ro":
                verdict = "refused by the handle (opened read-only)"
            elif inside and aw:
                verdict = "write context: effect allowed"
            else:
                verdict = "EFFECT REACHABLE OUTSIDE A WRITE CONTEXT"
                bad.append(s)
            table.append(f"{s} -> {verdict}")
        if not bad:
            rep.ok(rule, f"{fq}: over {len(states)} reachable access states a file effect is reachable only with an open read-write handle inside a context entered after allow_write()",
                   nontrivial=True, sample={"method": fq, "guards": [norm(c) for c in conds], "table": table})
        else:
            s = bad[0]
            how = ("the handle is still open read-write outside any context" if not s[0] else "the context was entered read-write without a new allow_write() since the last exit")
            culprit = ct.prog.need_method(ct.tdf, "__exit__").node
            rep.fail(rule, mod, fq, ff.f.node, f"state (inside={s[0]}, mode={s[1]!r}, handle={s[2]}, allow_write since last exit={s[3]}) is reachable and lets {name} reach its file effects: {how}",
                     construct=f"{fq} reachable in {s}", detail={"table": table})
    # no mutator opens its own (implicit) context: a mutation issued outside any context must be refused, not wrapped
    for ff in [ct.facts(m) for m in MUTATORS] + [ct.facts(f.name, "setter") for f in ct.setters()]:
        provides = [d for d in ff.f.decorators if d in wg and wg[d][1]]
        guards = [d for d in ff.f.decorators if d in wg and wg[d][0] is not None]
        nm = f"Tdf.{ff.f.name}" + (".setter" if ff.f.kind == "setter" else "")
        n += 1
        if provides:
            bad_states = [s for s in states if not s[0] and s[1] != "rb"]
            rep.fail(rule, mod, nm, ff.f.node, f"this mutator is wrapped by `{provides[0]}`: issued with no context after allow_write() (state {sorted(map(str, bad_states))[:1]}) it opens its own read-write context and changes the file instead of being refused",
                     construct=f"{nm} decorated {provides[0]}")
        elif not guards:
            rep.fail(rule, mod, nm, ff.f.node, "this mutator has no context guard", construct=f"{nm} undecorated")
        else:
            rep.ok(rule, f"{nm}: guarded by {guards[0]}, opens no context of its own")
    # setters and replace_block reach effects only through add/remove (their own guards may only be stricter)
    for ff in [ct.facts("replace_block")] + [ct.facts(f.name, "setter") for f in ct.setters()]:
        direct = ff.ev(*M.FILE_EFFECTS)
        n += 1
        if direct:
            rep.fail(rule, mod, f"Tdf.{ff.f.name}", direct[0].stmt, "this mutator writes to the handle directly instead of going through add_block / remove_block and their guards")
        else:
            rep.ok(rule, f"Tdf.{ff.f.name}: reaches file effects only through add_block / remove_block")
    rep.floor(rule, n, 20)
    return model, states


# ------------------------------------------------------------------------------------------------ rule 5
def reader_purity(ct: Container, cd: Codecs, rep, rule="reader-purity"):
    tdf = ct.tdf
    mod = ct.mod.path.name
    mutating = set(MUTATORS) | {"allow_write"}
    setters = {f.name for f in ct.setters()}
    readers = []
    for name, fs in tdf.methods.items():
        for f in fs:
            if f.kind == "setter" or name in mutating or name in ("new", "__init__", "__enter__", "__exit__", "allow_write"):
                continue
            readers.append(f)
    # call graph closure over self calls / property reads
    summary = {}

    def effectful(f, seen):
        key = (f.name, f.kind)
        if key in summary:
            return summary[key]
        if key in seen:
            return None
        seen = seen | {key}
        ff = ct.facts(f.name, f.kind)
        r = None
        for e in ff.ev(*M.FILE_EFFECTS, "table_store", "table_append", "table_remove"):
            r = (e.stmt, f"`{norm(head(e.stmt))[:70]}`")
        for e in ff.ev("self_call"):
            if e.meth in mutating:
                r = r or (e.stmt, f"calls the mutator {e.meth}()")
            else:
                g = tdf.get(e.meth)
                if g is not None and g.kind in ("method", "static"):
                    sub = effectful(g, seen)
                    if sub:
                        r = r or (e.stmt, f"calls {e.meth}() which {sub[1]}")
        for e in ff.ev("self_prop"):
            g = tdf.get(e.attr, "getter")
            if g is not None:
                sub = effectful(g, seen)
                if sub:
                    r = r or (e.stmt, f"reads {e.attr} which {sub[1]}")
        for e in ff.ev("self_store"):
            if e.attr in setters:
                r = r or (e.stmt, f"assigns the convenience property {e.attr} (a mutation)")
        for c, how in direct_file_effects(f.node):
            if f.name != "copy":
                r = r or (c, f"`{how}`")
        summary[key] = r
        return r

    n = 0
    for f in readers:
        n += 1
        r = effectful(f, frozenset())
        fq = f"Tdf.{f.name}"
        if r is None:
            rep.ok(rule, f"{fq}: call-graph closure contains no file effect and no mutator")
        else:
            rep.fail(rule, mod, fq, r[0], f"a read operation {r[1]}: reading can change the file")
    rep.floor(rule + "/readers", n, 17)
    # decoders only read / seek their stream
    nb = 0
    for u in cd.all_units():
        nb += 1
        bad = [t for t in walk_terms(u.rterms) if (isinstance(t, Raw) and t.op == "write") or (isinstance(t, Sub) and t.meth in ("_write", "bwrite"))]
        fq = u.reader.qualname
        if bad:
            rep.fail(rule, u.reader.module.path.name, fq, bad[0].stmt or bad[0].node, "a decoder writes to the stream it reads from")
        else:
            rep.ok(rule, f"{fq}: only read/seek operations on its stream")
    rep.floor(rule + "/decoders", nb, 21)


def run(prog, rep):
    self_check()
    from .. import mutrules as _M
    rep.attempt(_M.session_boundary, prog, rep)
    rep.attempt(enter_failure_releases, prog, rep)
    ct = Container(prog)
    cd = Codecs(prog)
    cd.flag_errors(rep)
    rep.explanation = (
        "effect-owners (who-may-write over the whole package, zero matches expected outside add_block/remove_block/new/copy, "
        "embedded positive example); handle-discipline (handle assigned only by file_path.open(self._mode) in __enter__; __exit__ "
        "closes, resets mode and flag unconditionally; wrappers); mode-lifecycle; guard-table: a typestate machine (inside, mode, "
        "handle, allow_write-since-exit) is EXTRACTED from the constant stores / open / close of __init__, allow_write, __enter__, "
        "__exit__, its reachable states are closed under the three operations, and for each state the composed wrapper + in-body "
        "guards of every mutator are evaluated: a file effect must be reachable only with an open read-write handle inside a "
        "context entered after allow_write(); reader-purity over the call-graph closure of every public reader and every decoder."
    )
    rep.attempt(effect_owners, ct, rep)
    rep.attempt(handle_discipline, ct, rep)
    rep.attempt(mode_lifecycle, ct, rep)
    rep.attempt(guard_table, ct, rep)
    # .. and in a read-only context the mutation RAISES (it is not enough that no effect is reachable): the refusal dominates every normal exit
    rep.attempt(table_effects_need_writable, ct, rep, "read-only-refusal")
    rep.attempt(reader_purity, ct, cd, rep)
    # replace_block and the setters have no refusal of their own: a call outside a write context raises only because every path that
    # does not refuse for another reason reaches remove_block / add_block (whose guards the table above evaluates)
    from .c11 import replace_composition
    rep.attempt(replace_composition, ct, rep)
    rep.note("raise_if_outside_write_context tests `not inside and mode != 'r+b'` (and, not or): allow_write() without a context passes the guard; "
             "what refuses those calls is the closed / never-opened handle, which the typestate rule credits")
    rep.trusted += ["file objects opened 'rb' refuse writes; closed file objects refuse every operation"]
    rep.not_decided += ["the exact exception type of a refusal", "OS-level permissions / other processes"]
