"""C16 no wrong-length track enters a block; list assignment is all-or-nothing (DESIGN 3/C16)."""
from __future__ import annotations

import ast

from .. import facts
from ..cfg import CFG
from ..codecs import Codecs
from ..index import is_self_attr, walk_no_nested
from ..report import AnalysisError, head, norm
from ..sym import canon

BLOCKS = [("tdfData3D", "Data3D", "add_track", "_tracks"), ("tdfForce3D", "ForceTorque3D", "add_track", "_tracks"), ("tdfEMG", "EMG", "addSignal", "_signals")]
SETTERS = [("tdfData3D", "Data3D", "tracks"), ("tdfForce3D", "ForceTorque3D", "tracks")]
EMBEDDED_OWNER_EXAMPLE = "def f(block, t):\n    block._tracks.append(t)\n"


def raise_guards(fn):
    """[(test, exception name, if stmt)] for `if test: raise Exc` at any depth (body only raises)."""
    out = []
    for st in walk_no_nested(fn):
        if isinstance(st, ast.If) and st.body and isinstance(st.body[-1], ast.Raise) and st.body[-1].exc is not None:
            e = st.body[-1].exc
            e = e.func if isinstance(e, ast.Call) else e
            out.append((st.test, norm(e), st))
    return out


def guarded_append(prog, cd, rep):
    """Path summaries of each adder: `self.<list>.append(item)` is reached only on paths where the item was found to be an
    instance of the element class and its frame count equal to the block's; the paths on which either fails end in
    TypeError / ValueError, and no path that ends in a refusal has changed the block."""
    pairs = {}
    for modname, cname, mname, attr in BLOCKS:
        c = prog.need_cls(cname, modname)
        f = prog.need_method(c, mname)
        mod = c.module.path.name
        fq = f"{cname}.{mname}"
        sn = f.self_name or "self"
        p = f.params[0]
        paths = facts.path_returns(f.node)

        def type_fact(t, pol):
            if isinstance(t, ast.Call) and norm(t.func) == "isinstance" and len(t.args) == 2 and norm(t.args[0]) == p:
                return norm(t.args[1]), pol
            return None

        def length_fact(t, pol):
            ef = facts.equality_fact(t, pol)
            if ef is None:
                return None
            a, b, eq = ef
            for x, y in ((a, b), (b, a)):
                if isinstance(x, ast.Attribute) and norm(x.value) == p and is_self_attr(y, self_name=sn):
                    return x.attr, y.attr, eq
            return None

        # refusals
        type_exc, len_exc = [], []
        for pe in paths:
            if pe.kind != "raise":
                continue
            exc = pe.value.func if isinstance(pe.value, ast.Call) else pe.value
            en = norm(exc) if exc is not None else ""
            fl = facts.flat_facts(pe.guards)
            # the refusing fact: a failed type test, else a failed length test, on the path
            tfs_ = [x for x in (type_fact(t, pol) for t, pol in fl) if x]
            lfs_ = [x for x in (length_fact(t, pol) for t, pol in fl) if x]
            if any(not x[1] for x in tfs_):
                type_exc.append((en, pe.node))
            elif any(not x[2] for x in lfs_):
                len_exc.append((en, pe.node))
            if facts.self_mutations(pe.effects, sn):
                rep.fail("guarded-append", mod, fq, pe.node, "the block is modified before the item has passed both checks: a refusal leaves it changed")
        n_app = 0
        K = None
        lpair = None
        for pe in paths:
            if pe.kind == "raise":
                continue
            apps = [x for e in pe.effects for x in ast.walk(e) if isinstance(x, ast.Call) and isinstance(x.func, ast.Attribute) and x.func.attr in ("append", "insert", "extend")
                    and is_self_attr(x.func.value, attr, sn)]
            # an item also enters the list by being stored over another one (`self.<list>[i] = item`, a slice store)
            apps += [t for e in pe.effects if isinstance(e, (ast.Assign, ast.AugAssign)) for t in (e.targets if isinstance(e, ast.Assign) else [e.target])
                     if isinstance(t, ast.Subscript) and is_self_attr(t.value, attr, sn)]
            if not apps:
                continue
            fl = facts.flat_facts(pe.guards)
            tfs = [x for x in (type_fact(t, pol) for t, pol in fl) if x and x[1]]
            lfs = [x for x in (length_fact(t, pol) for t, pol in fl) if x and x[2]]
            for ap in apps:
                n_app += 1
                for what, have, excs, want_exc in (("type", tfs, type_exc, "TypeError"), ("length", lfs, len_exc, "ValueError")):
                    if not have:
                        rep.fail("guarded-append", mod, fq, ap, f"the append is reached on a path that has not passed a {what} check that refuses the item", construct=f"{fq} {what} guard")
                        continue
                    bad = [e for e in excs if e[0] != want_exc]
                    if bad:
                        rep.fail("guarded-append", mod, fq, bad[0][1], f"the {what} check raises {bad[0][0]}, the interface promises {want_exc}")
                    elif not excs:
                        rep.fail("guarded-append", mod, fq, ap, f"an item failing the {what} check is silently skipped instead of refused with {want_exc}", construct=f"{fq} {what} refusal")
                    else:
                        rep.ok("guarded-append", f"{fq}: the append is reached only after the {what} check held; otherwise {want_exc}", nontrivial=True)
                if tfs:
                    K = prog.resolve_class(c.module, tfs[0][0])
                if lfs:
                    lpair = lfs[0]
        if not n_app:
            raise AnalysisError(f"{fq}: no append to self.{attr} (anchor vanished)")
        # matching pair: track property = rows of its array; block attribute = the frame count the decoder passes down
        if lpair is not None and K is not None:
            tp, battr = lpair[0], lpair[1]
            g = prog.lookup_method(K, tp, "getter")
            body = facts.property_body_expr(prog, K, tp) if g is not None else None
            rows = body is not None and isinstance(body, ast.Subscript) and norm(body.slice) == "0" and norm(body.value).endswith(".shape")
            if rows:
                rep.ok("guarded-append", f"{fq}: {K.name}.{tp} is the number of rows of the track's array ({norm(body)})")
                # .. of the array as it was GIVEN: a constructor that reshapes what it stores (squeeze, reshape, ravel, transpose, atleast_nd)
                # changes what "rows" means for some shapes (a one-frame (1, 3) track squeezed to (3,) reports three frames)
                arr = body.value.value if isinstance(body.value, ast.Attribute) else None
                init = K.get("__init__")
                if isinstance(arr, ast.Attribute) and init is not None:
                    RESHAPE = ("squeeze", "reshape", "ravel", "flatten", "transpose", "atleast_1d", "atleast_2d", "atleast_3d", "expand_dims", "swapaxes", "moveaxis", "T")
                    for st in walk_no_nested(init.node):
                        if isinstance(st, ast.Assign) and any(is_self_attr(t, arr.attr, init.self_name or "self") for t in st.targets):
                            hit = next((y for y in ast.walk(st.value) if (isinstance(y, ast.Call) and norm(y.func).split(".")[-1] in RESHAPE) or (isinstance(y, ast.Attribute) and y.attr == "T")), None)
                            if hit is not None:
                                rep.fail("guarded-append", K.module.path.name, f"{K.name}.__init__", st, f"`{norm(st)[:60]}` reshapes the sample array it stores (`{norm(hit)[:40]}`): for some shapes "
                                         f"`{tp}` (its first extent) is no longer the number of frames given, so tracks of the wrong length pass the block's check and right ones fail it",
                                         construct=f"{K.name}.__init__ reshapes {arr.attr}")
            else:
                rep.fail("guarded-append", mod, fq, f.node, f"`{p}.{tp}` is not the track's frame count (rows of its sample array)", construct=f"{fq} :: {p}.{tp}")
            pairs[cname] = (K, tp, battr, f.node)
            # block attr must be a plain stored attribute (not a derived count such as nTracks)
            if prog.lookup_method(c, battr, "getter") is not None:
                rep.fail("guarded-append", mod, fq, f.node, f"the track length is compared with `self.{battr}`, a derived property, not the block's own frame count", construct=f"{fq} :: self.{battr}")
        rep.ok("guarded-append", f"{fq}: no path that ends in a refusal has modified self")
    rep.floor("guarded-append", len(pairs), 3)
    return pairs


def container_owners(prog, rep):
    # embedded positive example keeps the matcher honest
    ex = ast.parse(EMBEDDED_OWNER_EXAMPLE)
    assert find_foreign_mutations(ex.body[0], "_tracks"), "embedded example no longer matches"
    allowed = {"__init__", "add_track", "addSignal", "_build", "tracks"}
    n = 0
    for attr in ("_tracks", "_signals"):
        for m in prog.modules.values():
            for f in [x for c in m.classes.values() for x in c.all_funcs()] + list(m.functions.values()):
                hits = find_foreign_mutations(f.node, attr)
                for h in hits:
                    n += 1
                    owner_cls = f.cls.name if f.cls else None
                    okk = f.name in allowed and owner_cls in ("Data3D", "ForceTorque3D", "EMG")
                    if f.name == "removeSignal" and owner_cls == "EMG":
                        okk = True  # removal does not add a track
                    if okk:
                        rep.ok("container-owners", f"{m.name}.{f.qualname}: `{norm(head(h))}` (owner)")
                    else:
                        rep.fail("container-owners", m.path.name, f.qualname, h, f"`{attr}` is stored or mutated outside its owners (constructor, guarded add, list setter, decoder): the length guard can be bypassed")
    rep.floor("container-owners", n, 10)
    from .. import facts
    for modname, cname, mname, attr in BLOCKS:
        c = prog.need_cls(cname, modname)
        v = facts.init_summary(prog, c).attrs.get(attr)
        if isinstance(v, ast.List) and not v.elts:
            rep.ok("container-owners", f"{cname}.__init__ gives every block its own empty `{attr}`")
        else:
            ca = prog.class_attr(c, attr)
            rep.fail("container-owners", c.module.path.name, f"{cname}.__init__", c.get("__init__").node,
                     f"`{attr}` is not created per instance in __init__ (" + ("class-level list shared by all blocks" if ca else f"value `{norm(v)}`") + "): tracks accepted by one block appear in blocks with another frame count",
                     construct=f"{cname}.__init__ :: {attr}")


def find_foreign_mutations(fn, attr):
    out = []
    for st in walk_no_nested(fn):
        if isinstance(st, (ast.Assign, ast.AugAssign, ast.AnnAssign)):
            for t in (st.targets if isinstance(st, ast.Assign) else [st.target]):
                base = t.value if isinstance(t, ast.Subscript) else t
                if isinstance(base, ast.Attribute) and base.attr == attr:
                    out.append(st)
        elif isinstance(st, ast.Expr) and isinstance(st.value, ast.Call) and isinstance(st.value.func, ast.Attribute) and st.value.func.attr in ("append", "insert", "extend", "__setitem__") \
                and isinstance(st.value.func.value, ast.Attribute) and st.value.func.value.attr == attr:
            out.append(st)
    return out


def atomic_assign(prog, rep):
    n = 0
    for modname, cname, pname in SETTERS:
        c = prog.need_cls(cname, modname)
        f = prog.need_method(c, pname, "setter")
        mod = c.module.path.name
        fq = f"{cname}.{pname}.setter"
        sn = f.self_name or "self"
        vals = f.params[0]
        n += 1
        body = [s for s in f.node.body if not (isinstance(s, ast.Expr) and isinstance(s.value, ast.Constant))]
        # the assigned iterable is walked ONCE (or materialised first): a second pass over a generator / map / iterator finds it
        # exhausted, so a "check first, install afterwards" setter installs nothing and checks nothing
        ITER_FUNCS = ("list", "tuple", "sorted", "set", "frozenset", "all", "any", "sum", "min", "max", "enumerate", "zip", "iter", "map", "filter", "reversed", "len")
        passes = []
        for x in walk_no_nested(f.node):
            if isinstance(x, ast.For) and isinstance(x.iter, ast.Name) and x.iter.id == vals:
                passes.append(x)
            elif isinstance(x, (ast.ListComp, ast.GeneratorExp, ast.SetComp, ast.DictComp)) and any(isinstance(g.iter, ast.Name) and g.iter.id == vals for g in x.generators):
                passes.append(x)
            elif isinstance(x, ast.Call) and norm(x.func) in ITER_FUNCS and any(isinstance(a, ast.Name) and a.id == vals for a in x.args):
                passes.append(x)
        materialised = any(isinstance(x, ast.Assign) and len(x.targets) == 1 and isinstance(x.targets[0], ast.Name) and x.targets[0].id == vals and isinstance(x.value, ast.Call)
                           and norm(x.value.func) in ("list", "tuple") for x in walk_no_nested(f.node))
        if len(passes) > 1 and not materialised:
            rep.fail("atomic-assign", mod, fq, passes[1], f"`{vals}` is iterated {len(passes)} times (`{norm(head(passes[0]))[:50]}`, then `{norm(head(passes[1]))[:50]}`) without being materialised: "
                     "for a one-shot iterable the later pass sees nothing, so elements are neither checked nor installed and the previous tracks are lost without an error",
                     construct=f"{fq} iterates {vals} twice")
        else:
            rep.ok("atomic-assign", f"{fq}: `{vals}` is walked once")
        tr = next((s for s in body if isinstance(s, ast.Try)), None)
        if tr is None:
            rep.fail("atomic-assign", mod, fq, f.node, "list assignment has no try/except that can restore the previous tracks", construct=f"{fq} try")
            continue
        pre = body[: body.index(tr)]
        attr = None
        save = reset = None
        for s in pre:
            if isinstance(s, ast.Assign) and len(s.targets) == 1:
                t, v = s.targets[0], s.value
                if isinstance(t, ast.Name) and is_self_attr(v, self_name=sn):
                    save = (s, t.id, v.attr)
                elif is_self_attr(t, self_name=sn) and isinstance(v, (ast.List, ast.Call)) and (not isinstance(v, ast.List) or not v.elts):
                    reset = (s, t.attr)
        if save is not None and reset is None and tr.body and isinstance(tr.body[0], ast.Assign) and len(tr.body[0].targets) == 1:
            # the reset as the first statement INSIDE the try: protected by the same handler, and the save precedes it
            t, v = tr.body[0].targets[0], tr.body[0].value
            if is_self_attr(t, self_name=sn) and isinstance(v, (ast.List, ast.Call)) and (not isinstance(v, ast.List) or not v.elts):
                reset = (tr.body[0], t.attr)
                pre = pre + [tr.body[0]]
        if save is None or reset is None or save[2] != reset[1]:
            rep.fail("atomic-assign", mod, fq, pre[0] if pre else tr, "the previous list is not saved and then replaced by a fresh empty list before the elements are added", construct=f"{fq} save/reset")
            continue
        attr = reset[1]
        if pre.index(save[0]) < pre.index(reset[0]):
            rep.ok("atomic-assign", f"{fq}: old list saved (`{norm(save[0])}`) before the reset", nontrivial=True)
        else:
            rep.fail("atomic-assign", mod, fq, save[0], "the old list is captured AFTER the reset: the saved value is the new empty list")
        between = pre[pre.index(reset[0]) + 1:]
        if between:
            rep.fail("atomic-assign", mod, fq, between[0], "a statement between the reset and the try could raise and leave the block emptied")
        # body: every element goes through the guarded add
        adders = {"add_track", "addSignal"}
        direct = [x for s in tr.body for x in ast.walk(s) if isinstance(x, ast.Call) and isinstance(x.func, ast.Attribute) and x.func.attr in ("append", "extend") and is_self_attr(x.func.value, attr, sn)]
        via = [x for s in tr.body for x in ast.walk(s) if isinstance(x, ast.Call) and isinstance(x.func, ast.Attribute) and x.func.attr in adders and norm(x.func.value) == sn]
        loops = [s for s in tr.body if isinstance(s, ast.For) and norm(s.iter) == vals]
        # .. on every path through the loop body (an element skipped under a condition - falsy, None, a duplicate - is silently not installed)
        skipping = None
        from ..facts import path_returns
        for L_ in loops:
            fake = ast.FunctionDef(name="_body", args=ast.arguments(posonlyargs=[], args=[], kwonlyargs=[], kw_defaults=[], defaults=[]), body=L_.body, decorator_list=[], lineno=L_.lineno, col_offset=0)
            for bp in path_returns(fake):
                if bp.kind == "raise":
                    continue
                calls_ = [x for e in bp.effects + ([ast.Expr(value=bp.value)] if bp.value is not None else []) for x in ast.walk(e)
                          if isinstance(x, ast.Call) and isinstance(x.func, ast.Attribute) and x.func.attr in adders and norm(x.func.value) == sn]
                if not calls_:
                    skipping = L_
        if direct or not via or not loops:
            rep.fail("atomic-assign", mod, fq, tr, "elements are not all added through the guarded add method inside the try", construct=f"{fq} body")
        elif skipping is not None:
            rep.fail("atomic-assign", mod, fq, skipping, f"an iteration over `{vals}` can end without handing the element to the guarded add: the list installed is not exactly the list assigned", construct=f"{fq} skips elements")
        else:
            rep.ok("atomic-assign", f"{fq}: every element of `{vals}` goes through the guarded add")
        # handler
        good = False
        for h in tr.handlers:
            catches = h.type is None or norm(h.type) in ("Exception", "BaseException")
            restores = any(isinstance(s, ast.Assign) and is_self_attr(s.targets[0], attr, sn) and norm(s.value) == save[1] for s in h.body)
            rer = [i for i, s in enumerate(h.body) if isinstance(s, ast.Raise)]
            rest_i = [i for i, s in enumerate(h.body) if isinstance(s, ast.Assign) and is_self_attr(s.targets[0], attr, sn)]
            if not catches:
                rep.fail("atomic-assign", mod, fq, h, f"the handler catches only {norm(h.type)}: an element refused with another exception type leaves the block emptied",
                         construct=f"{fq} except {norm(h.type)}")
            elif not restores:
                rep.fail("atomic-assign", mod, fq, h, "the handler does not restore the saved list", construct=f"{fq} handler restore")
            elif not rer:
                rep.fail("atomic-assign", mod, fq, h, "the handler swallows the exception instead of re-raising it", construct=f"{fq} handler re-raise")
            elif rest_i and rer and rest_i[0] > rer[0]:
                rep.fail("atomic-assign", mod, fq, h, "the restore comes after the raise (unreachable)", construct=f"{fq} handler order")
            else:
                good = True
        if good:
            rep.ok("atomic-assign", f"{fq}: any exception restores the saved list and is re-raised", nontrivial=True)
        elif not tr.handlers:
            rep.fail("atomic-assign", mod, fq, tr, "try without except", construct=f"{fq} handlers")
        rebinds = [x for st_ in body for x in ast.walk(st_) if isinstance(x, ast.Assign) and any(is_self_attr(t, attr, sn) for t in x.targets)
                   and x is not reset[0] and not any(x is y for h in tr.handlers for b_ in h.body for y in ast.walk(b_))]
        for x in rebinds:
            rep.fail("atomic-assign", mod, fq, x, f"after the elements were validated the list is rebound to `{norm(x.value)}`: the block keeps the caller's (another block's) list object instead of its own fresh list")
        if tr.finalbody and any(is_self_attr(t, attr, sn) for s in tr.finalbody for x in ast.walk(s) if isinstance(x, ast.Assign) for t in x.targets):
            rep.fail("atomic-assign", mod, fq, tr.finalbody[0], "a finally clause rewrites the list on the success path too")
    rep.floor("atomic-assign", n, 2)


def decoder_length(prog, cd, rep, pairs):
    n = 0
    for modname, cname, mname, attr in BLOCKS:
        u = cd.units.get(cname)
        if u is None:
            raise AnalysisError(f"anchor vanished: codec unit {cname}")
        un = cd.unify(u)
        K, tp, battr, gst = pairs.get(cname, (None, None, None, None))
        mod, fq = u.reader.module.path.name, u.reader.qualname
        for w, r, args, kwargs in un.sub_args:
            if r.cls is None or K is None or r.cls.name != K.name:
                continue
            n += 1
            if not args:
                rep.fail("decoder-length", mod, fq, r.stmt or r.node, f"{K.name}._build is not given the block's frame count")
                continue
            got = canon(args[0], un.ctx)
            if got == f"self.{battr}":
                rep.ok("decoder-length", f"{fq}: decoded {K.name}s are built with the block's own {battr} (the attribute the add guard compares)", nontrivial=True)
            else:
                rep.fail("decoder-length", mod, fq, r.stmt or r.node, f"decoded {K.name}s are built with length `{got}`, not the block's `{battr}`: decoded blocks violate the length invariant")
        # .. and the decoded block's own count is that same header field (the add guard of a decoded block compares against it)
        obj = un.result_obj
        if obj is not None and battr is not None and battr in obj["attrs"] and obj["attrs"][battr] is not None:
            gotb = canon(obj["attrs"][battr], un.ctx)
            if gotb == f"self.{battr}":
                rep.ok("decoder-length", f"{fq}: the decoded block's {battr} is the stored {battr}", nontrivial=True)
            else:
                rep.fail("decoder-length", mod, fq, obj["node"], f"the decoded block's `{battr}` is `{gotb}`, not the stored `{battr}` its tracks were decoded with: every decoded track then differs in length from the block "
                         "(right-length tracks are refused, wrong-length ones accepted)", construct=f"{fq} block {battr}")
    rep.floor("decoder-length", n, 3)
    # .. and a track decoder hands out the SAME frame-sized data on every way it can end: a second return site (a "fast path") that
    # builds the track from something else than the buffer sized by the frame count yields tracks of another length
    from ..layout import Construct, Ret, walk_terms
    for cname, (K, tp, battr, gst) in pairs.items():
        if K is None:
            continue
        ku = cd.units.get(K.name)
        if ku is None:
            continue
        terms = list(walk_terms(ku.rterms))
        rets = {norm(t.value) for t in terms if isinstance(t, Ret) and t.value is not None}
        cons = [t for t in terms if isinstance(t, Construct) and t.cls is not None and t.cls.name == K.name and t.ph in rets]
        if not cons:
            continue
        main = cons[-1]
        sig = lambda c_: ([norm(a) for a in c_.args], {k: norm(v) for k, v in c_.kwargs.items()})
        kmod, kfq = ku.reader.module.path.name, ku.reader.qualname
        for c_ in cons[:-1]:
            if sig(c_) != sig(main):
                rep.fail("decoder-length", kmod, kfq, c_.node, f"a return of {kfq} builds the {K.name} from `{', '.join(sig(c_)[0][1:] or sig(c_)[0])}` where the decoder's last return uses "
                         f"`{', '.join(sig(main)[0][1:] or sig(main)[0])}` (the data sized by the frame count it was given): tracks decoded on that path can differ in length from their block",
                         construct=f"{kfq} second return {norm(c_.node)[:60]}")
        rep.ok("decoder-length", f"{kfq}: {len(cons)} return site(s) build the {K.name} from the same frame-sized data", nontrivial=True)


def run(prog, rep):
    cd = Codecs(prog)
    cd.flag_errors(rep)
    rep.explanation = (
        "guarded-append: on the CFG of each add method the isinstance check (TypeError) and the frame-count check (ValueError, "
        "track rows vs the block's own stored frame count) dominate the append and nothing mutates self before them; "
        "container-owners: who-may-write rule over the whole package for _tracks/_signals; atomic-assign: save dominates reset, "
        "elements go through the guarded add, the handler catches Exception, restores the saved list and re-raises; "
        "decoder-length: the decoder builds tracks with the header field that becomes the compared attribute."
    )
    pairs = rep.attempt(guarded_append, prog, cd, rep) or {}
    rep.attempt(container_owners, prog, rep)
    rep.attempt(atomic_assign, prog, rep)
    rep.attempt(decoder_length, prog, cd, rep, pairs)
    # the setters swap in a fresh list before they walk the assigned iterable: an iterable derived from the block itself
    # (`b.tracks = (t for t in b if ..)`) still sees the previous tracks only because iter(block) binds the list at once -
    # a generator-function __iter__ looks the list up at the first next(), i.e. after the swap
    for modname, cname, pname in SETTERS:
        c_ = prog.need_cls(cname, modname)
        it_ = c_.get("__iter__")
        if it_ is None:
            continue
        ys = [x for x in ast.walk(it_.node) if isinstance(x, (ast.Yield, ast.YieldFrom))]
        if ys:
            rep.fail("atomic-assign", c_.module.path.name, f"{cname}.__iter__", ys[0], f"{cname}.__iter__ is a generator function: it reads `self` when the first item is asked for, so an assignment "
                     f"`block.{pname} = <something iterating the block lazily>` walks the fresh empty list and silently empties the block", construct=f"{cname}.__iter__ lazy")
        else:
            rep.ok("atomic-assign", f"{cname}.__iter__ binds the track list when iter() is called")
    rep.note("tracks getters return the internal list (block.tracks.append(x) bypasses the guard): outside the property's quantifier (add-track / assign-track-list calls)")
    rep.not_decided += ["in-place replacement of a track's own array after it was added", "mutation through the list returned by the getter"]
